"""Argument audit (tooling, not a check): with VERIF_ARGAUDIT=<dir> every function and method defined in the library is
wrapped and the CLASSES of values each parameter receives while a check runs are recorded (type, dtype, sign, default or
not).  tools/argaudit_report.py merges the per-process files and lists, per public callable of the anchored files, the
parameters that only ever received their default - the inputs a check has not varied (where seeded changes of the sixth
round hid: a non-default epsilon, integer spike times, ...)."""
from __future__ import annotations
import atexit
import functools
import inspect
import json
import os
import sys

_SEEN: dict = {}
_WRAPPED: dict = {}


def _classify(v):
    import torch
    if v is None:
        return "None"
    if isinstance(v, bool):
        return f"bool:{v}"
    if isinstance(v, int):
        return "int:" + ("0" if v == 0 else "neg" if v < 0 else "pos")
    if isinstance(v, float):
        if v != v:
            return "float:nan"
        if v in (float("inf"), float("-inf")):
            return "float:inf"
        return "float:" + ("0" if v == 0 else "neg" if v < 0 else ("int" if float(v).is_integer() else "frac"))
    if isinstance(v, torch.Tensor):
        return f"tensor:{str(v.dtype).replace('torch.', '')}:{v.ndim}d" + (":empty" if v.numel() == 0 else "")
    if isinstance(v, str):
        return "str:" + v[:24]
    if isinstance(v, (tuple, list)):
        return type(v).__name__ + f":{len(v)}"
    if isinstance(v, dict):
        return "dict"
    if callable(v):
        return "callable:" + getattr(v, "__name__", type(v).__name__)
    return type(v).__name__


def _wrap(fn, qual):
    if id(fn) in _WRAPPED:
        return _WRAPPED[id(fn)]
    try:
        sig = inspect.signature(fn)
    except (TypeError, ValueError):
        return fn
    params = [p for p in sig.parameters.values() if p.name not in ("self", "cls")]
    if not params:
        return fn
    rec = _SEEN.setdefault(qual, {"calls": 0, "params": {p.name: {"default": repr(p.default)[:40] if p.default is not inspect._empty else None,
                                                                  "seen": {}, "nondefault": 0} for p in params}})
    busy = [False]

    @functools.wraps(fn)
    def wrapper(*a, **kw):
        if busy[0] or rec["calls"] > 20000:
            return fn(*a, **kw)
        busy[0] = True
        try:
            try:
                b = sig.bind_partial(*a, **kw)
                rec["calls"] += 1
                for name, val in b.arguments.items():
                    pr = rec["params"].get(name)
                    if pr is None:
                        continue
                    p = sig.parameters[name]
                    if p.kind in (p.VAR_POSITIONAL, p.VAR_KEYWORD):
                        c = f"{type(val).__name__}:{len(val)}"
                        if val:
                            pr["nondefault"] += 1
                    else:
                        c = _classify(val)
                        pr["nondefault"] += 1
                    if len(pr["seen"]) < 24:
                        pr["seen"][c] = pr["seen"].get(c, 0) + 1
            except Exception:
                pass
        finally:
            busy[0] = False
        return fn(*a, **kw)

    wrapper.__argaudit__ = True
    _WRAPPED[id(fn)] = wrapper
    _WRAPPED[id(wrapper)] = wrapper
    return wrapper


def install(outdir: str):
    import importlib
    import pkgutil
    import inferno
    mods = [inferno]
    for m in pkgutil.walk_packages(inferno.__path__, "inferno."):
        try:
            mods.append(importlib.import_module(m.name))
        except Exception:
            pass
    for mod in mods:
        for name, obj in list(vars(mod).items()):
            if inspect.isfunction(obj) and (obj.__module__ or "").startswith("inferno") and not getattr(obj, "__argaudit__", False):
                try:
                    setattr(mod, name, _wrap(obj, f"{obj.__module__}.{obj.__qualname__}"))
                except Exception:
                    pass
            elif inspect.isclass(obj) and (obj.__module__ or "").startswith("inferno") and obj.__module__ == mod.__name__:
                for an, av in list(vars(obj).items()):
                    if an.startswith("__") and an not in ("__init__", "__call__"):
                        continue
                    q = f"{obj.__module__}.{obj.__qualname__}.{an}"
                    try:
                        if inspect.isfunction(av):
                            setattr(obj, an, _wrap(av, q))
                        elif isinstance(av, staticmethod) and inspect.isfunction(av.__func__):
                            setattr(obj, an, staticmethod(_wrap(av.__func__, q)))
                        elif isinstance(av, classmethod) and inspect.isfunction(av.__func__):
                            setattr(obj, an, classmethod(_wrap(av.__func__, q)))
                        elif isinstance(av, property) and av.fset is not None and inspect.isfunction(av.fset):
                            setattr(obj, an, property(av.fget, _wrap(av.fset, q + ".setter"), av.fdel, av.__doc__))
                    except Exception:
                        pass

    def dump():
        os.makedirs(outdir, exist_ok=True)
        path = os.path.join(outdir, f"{os.environ.get('VERIF_ARGAUDIT_TAG', 'x')}-{os.getpid()}.json")
        with open(path, "w") as f:
            json.dump({k: v for k, v in _SEEN.items() if v["calls"]}, f)
    atexit.register(dump)
    sys.stderr.write(f"[argaudit] wrapped {len(_SEEN)} callables\n")
