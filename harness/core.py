"""Common machinery of every check: verdict bookkeeping, known findings, replays,
evidence files, exit codes."""
from __future__ import annotations
import hashlib, json, os, sys, time, traceback
from pathlib import Path

ROOT = Path(__file__).resolve().parent.parent
EVID = Path(os.environ.get("VERIF_EVIDENCE_DIR", str(ROOT / "evidence")))   # scratch runs (seeded changes) write elsewhere
REPLAYS = EVID / "replays"
REPO = Path(os.environ.get("VERIF_REPO", "/repo"))


def setup_repo_path():
    """Make `import inferno` resolve to the working tree under /repo."""
    p = str(REPO)
    if p not in sys.path:
        sys.path.insert(0, p)
    os.environ.setdefault("MDOMINIJANNI_INFERNO_VERIF", "1")
    if os.environ.get("VERIF_ARGAUDIT") and not globals().get("_ARGAUDIT"):
        globals()["_ARGAUDIT"] = True                 # tooling: record the classes of argument values (harness/argaudit.py)
        from . import argaudit
        argaudit.install(os.environ["VERIF_ARGAUDIT"])


class MachineryFailure(Exception):
    """The check itself is broken (TLC crash, canary accepted, vacuous run): exit 2."""


def load_known_findings():
    out = []
    f = ROOT / "known_findings.json"
    if f.exists():
        out += json.loads(f.read_text()).get("findings", [])
    d = ROOT / "known_findings.d"
    if d.is_dir():
        for g in sorted(d.glob("*.json")):
            out += json.loads(g.read_text()).get("findings", [])
    return out


_LIVE: list = []     # Check objects of this process (main_wrapper reports their violations if the run aborts)


class Check:
    """One run of one property's check."""

    def __init__(self, pid: str, tier: str, seed: int, level: str = "model_checking"):
        _LIVE.append(self)
        self.finished = False
        self.pid, self.tier, self.seed, self.level = pid, tier, seed, level
        self.t0 = time.time()
        self.states = 0
        self.transitions = 0
        self.traces = 0
        self.evaluations = 0
        self.nontrivial: set = set()
        self.samples: list = []
        self.assumptions: list[str] = []
        self.violations: list[dict] = []
        self.known_hits: list[dict] = []
        self.extra: dict = {}
        self.notes: list[str] = []
        self.known = [k for k in load_known_findings() if k.get("property") == pid and k.get("status") == "open"]
        self.mc_runs: list[dict] = []

    # ---- accounting
    def add_tlc(self, name: str, res, exhaustive: bool = True):
        self.states += res.distinct
        self.transitions += res.generated
        self.mc_runs.append({"config": name, "distinct": res.distinct, "generated": res.generated,
                             "depth": res.depth, "wall_s": round(res.wall, 2), "exhaustive": exhaustive})

    def sample(self, s, cap: int = 6):
        if len(self.samples) < cap:
            self.samples.append(s)

    def note(self, s: str):
        self.notes.append(s)
        print(f"[{self.pid}] {s}", flush=True)

    # ---- verdicts
    def violation(self, signature: dict, replay: dict):
        """signature: {clause, site, ...} used to match known findings; replay: everything
        needed to reproduce."""
        for k in self.known:
            if _matches(k.get("match", {}), signature):
                if not any(h["id"] == k["id"] for h in self.known_hits):
                    self.known_hits.append({"id": k["id"], "what": k["what"], "signature": signature})
                return
        key = json.dumps(signature, sort_keys=True)
        if any(v["key"] == key for v in self.violations):
            return
        REPLAYS.mkdir(parents=True, exist_ok=True)
        sha = hashlib.sha1((key + json.dumps(replay, sort_keys=True, default=str)).encode()).hexdigest()[:10]
        path = REPLAYS / f"{self.pid}-{sha}.json"
        path.write_text(json.dumps({"property": self.pid, "signature": signature, "replay": replay},
                                   indent=1, default=str))
        self.violations.append({"key": key, "signature": signature, "path": str(path)})

    def require(self, cond: bool, what: str):
        if not cond:
            raise MachineryFailure(what)

    # ---- finish
    def finish(self) -> int:
        self.finished = True
        wall = time.time() - self.t0
        for h in self.known_hits:
            print(f"KNOWN-FINDING: property={self.pid} {h['what']}")
        for v in self.violations:
            print(f"VIOLATION property={self.pid} replay={v['path']}")
            print(f"  signature: {json.dumps(v['signature'], sort_keys=True)}")
        cov = {
            "states": int(self.states),
            "transitions": int(self.transitions),
            "traces_validated_against_impl": int(self.traces),
            "evaluations": int(self.evaluations),
            "distinct_nontrivial": len(self.nontrivial),
            "rule": self.extra.pop("rule", "see per-check notes"),
            "samples": self.samples or [{"note": "no samples recorded"}],
            "tlc_runs": self.mc_runs,
            "notes": self.notes,
            "known_findings_reported": [h["id"] for h in self.known_hits],
        }
        cov.update(self.extra)
        ev = {
            "property_id": self.pid, "tier": self.tier, "seed": int(self.seed), "level": self.level,
            "coverage": cov, "assumptions": self.assumptions, "wall_s": round(wall, 2),
            "violations": len(self.violations),
        }
        EVID.mkdir(parents=True, exist_ok=True)
        (EVID / f"{self.pid}.json").write_text(json.dumps(ev, indent=1, default=str))
        print(f"[{self.pid}] tier={self.tier} seed={self.seed} states={self.states} transitions={self.transitions} "
              f"traces={self.traces} evaluations={self.evaluations} violations={len(self.violations)} "
              f"known={len(self.known_hits)} wall={wall:.1f}s")
        return 1 if self.violations else 0


def _matches(pattern: dict, sig: dict) -> bool:
    """A known finding matches when every key of its pattern equals the signature's
    value (lists in the pattern mean 'one of')."""
    if not pattern:
        return False
    for k, v in pattern.items():
        s = sig.get(k)
        if isinstance(v, list):
            if s not in v:
                return False
        elif s != v:
            return False
    return True


def _abort(pid: str, what: str) -> int:
    """The run stopped early.  Violations that were already established by completed comparisons stay
    established (a later phase that cannot run on the changed code -- e.g. a canary built from a trace
    the changed code no longer produces -- does not retract them): they are reported, exit 1.
    With nothing established the outcome is a machinery failure, exit 2."""
    print(f"[{pid}] MACHINERY FAILURE: {what}")
    pending = [c for c in _LIVE if not c.finished and c.violations]
    if not pending:
        return 2
    for c in pending:
        c.note(f"run stopped early ({what}); violations found before that are reported")
        c.finish()
    return 1


def main_wrapper(fn, pid: str, tier: str, seed: int) -> int:
    try:
        return fn(tier, seed)
    except MachineryFailure as e:
        return _abort(pid, str(e))
    except Exception:
        traceback.print_exc()
        return _abort(pid, "unexpected exception")
