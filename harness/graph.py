"""Direction A (spec -> code): rebuild the labelled state graph from the outcome
tables TLC printed (one JSON line per distinct state) and execute its edges on
the real implementation, comparing return value and projected state with the
specified outcome set after every call."""
from __future__ import annotations
import json, random
from collections import deque


def canon(x) -> str:
    return json.dumps(x, sort_keys=True, separators=(",", ":"))


class Graph:
    def __init__(self):
        self.states: dict[str, dict] = {}
        self.table: dict[str, list] = {}
        self.order: list[str] = []

    @classmethod
    def from_lines(cls, lines):
        g = cls()
        for rec in lines:
            if not isinstance(rec, dict) or "s" not in rec or "out" not in rec:
                continue
            k = canon(rec["s"])
            if k in g.states:
                continue
            g.states[k] = rec["s"]
            g.table[k] = [(o["op"], o["res"]) for o in rec["out"]]
            g.order.append(k)
        return g

    @property
    def n_edges(self):
        return sum(len(v) for v in self.table.values())

    def paths(self, init_key: str, op_filter=None):
        """BFS spanning tree: state key -> list of ops leading to it from init (each op is
        followed by the index of the outcome taken, for nondeterministic operations)."""
        paths = {init_key: []}
        q = deque([init_key])
        while q:
            k = q.popleft()
            for op, outs in self.table.get(k, []):
                if op_filter and not op_filter(op):
                    continue
                if len(outs) != 1:
                    continue   # which outcome the implementation takes is its choice: not a path step
                for out in outs:
                    k2 = canon(out["st"])
                    if k2 not in paths and k2 in self.states:
                        paths[k2] = paths[k] + [(op, k2)]
                        q.append(k2)
        return paths


class ReplayStats:
    def __init__(self):
        self.edges = 0
        self.states_visited = set()
        self.pairs = set()
        self.mismatches = []
        self.rebuilds = 0


def replay(graph: Graph, init_key: str, make_impl, *, budget: int | None, rng: random.Random,
           on_mismatch, op_class=lambda op: op.get("a"), max_mismatch: int = 50,
           deviate=None, op_filter=None) -> ReplayStats:
    """Execute (a sample of) the edges of the graph on fresh implementation instances.

    make_impl() -> object with apply(op) -> ret and project() -> state
    budget: maximum number of edges to execute (None: all)
    deviate: optional function (op, ret, st) -> (ret, st) used by canaries to corrupt
             what the implementation reports
    """
    stats = ReplayStats()
    paths = graph.paths(init_key, op_filter)
    total = sum(len(graph.table[k]) for k in paths)
    frac = 1.0 if budget is None or budget >= total else budget / total

    def build(k):
        impl = make_impl()
        for op, k2 in paths[k]:
            impl.apply(op)
        stats.rebuilds += 1
        return impl

    for k in paths:
        ops = graph.table[k]
        if op_filter:
            ops = [x for x in ops if op_filter(x[0])]
        if frac < 1.0:
            # stratified sample: keep every class of operation represented
            chosen = [x for x in ops if rng.random() < frac]
            seen = {op_class(x[0]) for x in chosen}
            if budget is None or stats.edges < 1.5 * budget:
                for x in ops:
                    if op_class(x[0]) not in seen:
                        chosen.append(x)
                        seen.add(op_class(x[0]))
            ops = chosen
        if not ops:
            continue
        impl = build(k)
        got = canon(impl.project())
        if got != k:
            on_mismatch({"clause": "PathState", "op": "path", "site": "replay-path"},
                        {"path": [p[0] for p in paths[k]], "expected_state": graph.states[k],
                         "observed_state": json.loads(got)})
            stats.mismatches.append(("path", k))
            if len(stats.mismatches) >= max_mismatch:
                return stats
            continue
        stats.states_visited.add(k)
        dirty = False
        for op, outs in ops:
            if dirty:
                impl = build(k)
                dirty = False
            ret = impl.apply(op)
            st = impl.project()
            if deviate:
                ret, st = deviate(op, ret, st)
            stats.edges += 1
            stats.pairs.add((k, canon(op)))
            cr, cs = canon(ret), canon(st)
            ok = any(canon(o["ret"]) == cr and canon(o["st"]) == cs for o in outs)
            if not ok:
                ret_ok = any(canon(o["ret"]) == cr for o in outs)
                st_ok = any(canon(o["st"]) == cs for o in outs)
                clause = "RetOK" if not ret_ok else ("StateOK" if not st_ok else "OutcomeOK")
                on_mismatch({"clause": clause, "op": op_class(op), "site": "graph-replay"},
                            {"path": [p[0] for p in paths[k]], "state": graph.states[k], "op": op,
                             "expected": outs, "observed": {"ret": ret, "st": st}})
                stats.mismatches.append((k, canon(op)))
                if len(stats.mismatches) >= max_mismatch:
                    return stats
            if cs != k:
                dirty = True
    return stats


def rerun(rep: dict, make_impl) -> int:
    """Re-execute a recorded graph-replay mismatch (path, op, expected outcomes) on a fresh implementation instance.
    -> 0 if the implementation now produces one of the specified outcomes, 1 otherwise."""
    impl = make_impl()
    for op in rep.get("path", []):
        impl.apply(op)
    if "op" not in rep:
        got, want = canon(impl.project()), canon(rep.get("expected_state"))
        print(f"replay: state after the path {'matches' if got == want else 'DIFFERS from'} the specified state")
        return 0 if got == want else 1
    ret = impl.apply(rep["op"])
    st = impl.project()
    cr, cs = canon(ret), canon(st)
    ok = any(canon(o["ret"]) == cr and canon(o["st"]) == cs for o in rep["expected"])
    print(f"replay: op {canon(rep['op'])}\n  observed ret={cr}\n  observed st={cs}\n  specified outcomes={canon(rep['expected'])[:1500]}")
    print("replay: " + ("one of the specified outcomes" if ok else "NOT a specified outcome"))
    return 0 if ok else 1
