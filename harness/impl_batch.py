"""Fixtures for C11 (batch samples never interact): for every component kind a BATCHED
instance (batch size B) and B identically parameterised batch-size-1 instances are driven
with the same per-sample input sequences; after every step both are projected, per sample,
to stages of (discrete values, real values).

A stage is {"d": [ints], "xb"/"xs": float64 arrays}; stages are ordered along the data flow
(connection outputs before neuron state) so that a last-ulp difference in an earlier stage
exempts only what depends on it.
"""
from __future__ import annotations
import math, random
import numpy as np
from .core import setup_repo_path

setup_repo_path()
import torch  # noqa: E402
import inferno  # noqa: E402
from inferno.neural import (LIF, ALIF, GLIF1, GLIF2, QIF, Izhikevich, EIF, AdEx, DeltaCurrent, DeltaPlusCurrent,  # noqa: E402
                            SingleExponentialCurrent, DoubleExponentialCurrent, LinearDense, LinearDirect,
                            LinearLateral, Conv2D, Serial, Biclique, RecurrentSerial)
from inferno.learn import (STDP, TripletSTDP, MSTDP, MSTDPET, KernelSTDP, DelayAdjustedKernelSTDP,  # noqa: E402
                           DelayAdjustedKernelSTDPD, DelayAdjustedSTDP, DelayAdjustedSTDPD, DelayAdjustedMSTDP,
                           DelayAdjustedMSTDPD, LinearHomeostasis)
from inferno.functional import exp_stdp_post_kernel, exp_stdp_pre_kernel  # noqa: E402
from .impl_neuron import RECIPES, CLASSES, ADAPTIVE, ADAPTIVE_THRESH, ADAPTIVE_CURRENT, build as build_neuron, forward as neuron_forward  # noqa: E402

torch.set_num_threads(1)
LN2 = math.log(2.0)


def dy(rng, lo=-4, hi=0):
    """a dyadic magnitude 2^k"""
    return 2.0 ** rng.randint(lo, hi)


def dy_tensor(rng: random.Random, shape, signed=True, lo=-3, hi=1):
    n = int(math.prod(shape))
    vals = [(rng.choice([-1, 1]) if signed else 1) * 2.0 ** rng.randint(lo, hi) for _ in range(n)]
    return torch.tensor(vals, dtype=torch.float32).reshape(shape)


def real_tensor(rng: random.Random, shape, lo=-1.0, hi=1.0):
    n = int(math.prod(shape))
    return torch.tensor([rng.uniform(lo, hi) for _ in range(n)], dtype=torch.float32).reshape(shape)


def f64(t: torch.Tensor) -> np.ndarray:
    return t.detach().to(torch.float64).reshape(t.shape[0], -1).numpy()


def i64(t: torch.Tensor) -> np.ndarray:
    return t.detach().to(torch.int64).reshape(t.shape[0], -1).numpy()


def batch_free_hash(obj) -> int:
    """a small integer that depends on the fixture but not on the batch size (batched and single copies must be
    built identically)"""
    import zlib
    return zlib.crc32(repr((obj.name, obj.mode, round(float(obj.dt), 6), obj.trainer_name)).encode()) % 97


class Fixture:
    """kind, mode ("exact": dyadic recipe, float32 arithmetic exact; "tol": arbitrary floats)"""
    kind = "?"

    def __init__(self, rng: random.Random, B: int, mode: str):
        self.rng, self.B, self.mode = rng, B, mode
        self.desc = {}

    # -- to be provided
    def make(self, batch: int): ...
    def sync(self, src, dst): ...                     # copy parameters batched -> single
    def draw(self, t: int) -> tuple: ...              # per-step inputs (tensors with leading batch dim B)
    def step(self, obj, inputs: tuple): ...           # returns raw outputs
    def stages(self, obj, out) -> list: ...           # [(discrete tensor list, real tensor list)], batch dim first

    def slice_inputs(self, inputs: tuple, i: int) -> tuple:
        return tuple(x[i:i + 1].clone() if torch.is_tensor(x) else x for x in inputs)


# ------------------------------------------------------------------ neurons
class NeuronFix(Fixture):
    kind = "neuron"

    # (module mode, `adapt` argument): the first four keep adaptations frozen (no coupling declared);
    # "coupled-same" updates them (declared coupling) with identical samples and the default mean reduction
    # "coupled-sum": adaptations updated with identical samples and batch_reduction = torch.sum - the shared adaptation
    # becomes the SUM of the per-sample adaptations (B times the single one); after every step the single copies are
    # given the shared adaptation so that all continue from the same state
    VARIANTS = [("eval", False), ("eval", None), ("train", False), ("coupled-same", True), ("coupled-same", None),
                ("coupled-sum", True)]

    def __init__(self, rng, B, mode, cls, variant=None, resize=False):
        super().__init__(rng, B, mode)
        self.cls = cls
        self.variant = variant if variant is not None else ("eval", False)
        self.coupled = self.variant[0] in ("coupled-same", "coupled-sum")
        self.summed = self.variant[0] == "coupled-sum"
        if self.summed:
            self.B = B = 2            # the shared adaptation doubles per step: keep the growth small
        self.resize_at = rng.randint(3, 6) if resize else None
        self.resize_to = None
        if resize == "grow":
            self.resize_to = B + rng.randint(1, 2)
        elif resize:
            self.resize_to = rng.randint(1, B - 1)
        self.shape = rng.choice([(3,), (2, 2), (4,)])
        self.lock = rng.random() < 0.6
        if mode == "exact":
            assert cls in ("LIF", "GLIF1", "ALIF", "GLIF2")
            self.D = rng.choice([1, 2, 4])
            self.tick = rng.choice([0.25, 0.5, 1.0])
            self.R = rng.randint(0, 2 * self.D + 1)
            dt = self.D * self.tick
            tau = dt / LN2
            if cls in ("LIF", "GLIF1"):
                self.params = dict(rest_v=-2.0, reset_v=-4.0, thresh_v=4.0, time_constant=tau, resistance=1.0)
            elif cls == "ALIF":
                self.params = dict(rest_v=-2.0, reset_v=-4.0, thresh_eq_v=4.0, tc_membrane=tau, tc_adaptation=tau,
                                   spike_increment=2.0, resistance=1.0)
            else:
                self.params = dict(rest_v=-2.0, reset_v_add=2.0, reset_v_mul=0.5, thresh_eq_v=4.0, tc_membrane=tau,
                                   rc_adaptation=1.0 / tau, spike_increment=2.0, resistance=1.0)
        else:
            self.D = rng.choice([1, 2, 4])
            self.tick = rng.choice([0.25, 0.5, 0.1, 0.325])
            self.R = rng.randint(0, 2 * self.D + 1)
            self.params = RECIPES[cls][rng.randrange(len(RECIPES[cls]))]
        self.dt = self.D * self.tick
        # frozen, but present, adaptations (the same for the batched and the single instances)
        self.preset = None
        if cls in ADAPTIVE:
            K = 1
            p = self.params
            for key in ("tc_adaptation", "rc_adaptation"):
                if key in p and hasattr(p[key], "__len__"):
                    K = len(p[key])
            self.preset = (dy_tensor(rng, self.shape + (K,), signed=False, lo=-2, hi=0) if mode == "exact"
                           else real_tensor(rng, self.shape + (K,), 0.0, 1.5))
        self.desc = dict(cls=cls, shape=list(self.shape), lock=self.lock, D=self.D, R=self.R, tick=self.tick,
                         module_mode=self.variant[0], adapt=str(self.variant[1]), resize_to=self.resize_to)

    def make(self, batch):
        n = build_neuron(self.cls, self.shape, batch, self.dt, self.R * self.tick, self.params,
                         batch_reduction=(torch.sum if self.summed else None))
        if self.variant[0] == "eval":
            n.eval()
        else:
            n.train()
        if self.preset is not None:
            if self.cls in ADAPTIVE_THRESH:
                n.threshold_adaptation = self.preset.clone()
            else:
                n.current_adaptation = self.preset.clone()
        return n

    def sync(self, src, dst):
        pass

    def draw(self, t):
        rng = self.rng
        shp = (self.B,) + self.shape
        n1 = int(math.prod(self.shape))
        cnt = n1 if self.coupled else n1 * self.B
        if self.mode == "exact":
            vals = [rng.choice([0.0, 16.0, 8.0, -8.0, 4.0, 32.0]) for _ in range(cnt)]
        else:
            vals = [rng.choice([0.0, rng.uniform(-20, 60), rng.uniform(5, 25), 1e4, -50.0]) for _ in range(cnt)]
        x = torch.tensor(vals, dtype=torch.float32)
        if self.coupled:       # identical samples
            return (x.reshape((1,) + self.shape).repeat((self.B,) + (1,) * len(self.shape)),)
        return (x.reshape(shp),)

    def step(self, obj, inputs):
        if self.cls in ADAPTIVE:
            return obj(inputs[0], adapt=self.variant[1], refrac_lock=self.lock)
        return obj(inputs[0], refrac_lock=self.lock)

    def stages(self, obj, out):
        r = obj.refrac / self.tick
        real = [obj.voltage]
        if self.cls in ADAPTIVE:   # shared over the batch: every sample sees the same adaptation
            ad = obj.threshold_adaptation if self.cls in ADAPTIVE_THRESH else obj.current_adaptation
            if self.summed and out.shape[0] == 1:
                ad = ad * self.B          # B identical samples: the documented sum is B times one sample's adaptation
            real.append(ad.unsqueeze(0).expand((out.shape[0],) + tuple(ad.shape)))
        return [([out, torch.round(r * 1024)], real)]

    def after_step(self, batched, singles):
        if self.summed:
            for sgl in singles:
                if self.cls in ADAPTIVE_THRESH:
                    sgl.threshold_adaptation = batched.threshold_adaptation.detach().clone()
                else:
                    sgl.current_adaptation = batched.current_adaptation.detach().clone()

    def resize(self, obj, batch):
        """through the public `batchsz` setter (documented to clear the state)"""
        obj.batchsz = batch


# ------------------------------------------------------------------ synapses
SYNAPSES = {"DeltaCurrent": DeltaCurrent, "DeltaPlusCurrent": DeltaPlusCurrent,
            "SingleExponentialCurrent": SingleExponentialCurrent, "DoubleExponentialCurrent": DoubleExponentialCurrent}


def synapse_kwargs(name: str, mode: str, dt: float, rng: random.Random):
    """exact mode: decays of exactly 1/2 (and 1/4 for the rise of the double exponential) and a charge that
    makes the per-spike amplitude Q / tau dyadic (when float division does not cooperate the
    trace simply leaves the exact grid and is validated with tolerances)"""
    ex = mode == "exact"
    a = dy(rng, -2, 2) if ex else rng.uniform(0.3, 3.0)
    if name in ("DeltaCurrent", "DeltaPlusCurrent"):
        return dict(spike_charge=a)
    if name == "SingleExponentialCurrent":
        tau = dt / LN2 if ex else rng.choice([2.0, 7.3, 20.0])
        return dict(spike_charge=a * tau if ex else a, time_constant=tau)
    tcd = dt / LN2 if ex else rng.choice([7.3, 20.0])
    tcr = dt / (2 * LN2) if ex else rng.choice([1.0, 2.0])
    return dict(spike_charge=a * (tcd - tcr) if ex else a, tc_decay=tcd, tc_rise=tcr)


class SynapseFix(Fixture):
    kind = "synapse"

    def __init__(self, rng, B, mode, name):
        super().__init__(rng, B, mode)
        self.name = name
        self.shape = rng.choice([(3,), (2, 2), (5,)])
        self.dt = rng.choice([0.25, 0.5, 1.0]) if mode == "exact" else rng.choice([0.5, 1.0, 1.3, 0.1])
        self.delay_steps = rng.choice([0, 0, 2, 3])
        self.kw = synapse_kwargs(name, mode, self.dt, rng)
        self.desc = dict(synapse=name, shape=list(self.shape), dt=self.dt, delay_steps=self.delay_steps, **self.kw)

    def make(self, batch):
        return SYNAPSES[self.name](self.shape, self.dt, delay=self.delay_steps * self.dt, batch_size=batch, **self.kw)

    def sync(self, src, dst):
        pass

    def draw(self, t):
        shp = (self.B,) + self.shape
        spikes = torch.tensor([self.rng.random() < 0.4 for _ in range(int(math.prod(shp)))]).reshape(shp)
        if self.name == "DeltaPlusCurrent":
            inj = dy_tensor(self.rng, shp) if self.mode == "exact" else real_tensor(self.rng, shp, -2, 2)
            return (spikes.float(), inj)
        return (spikes.float(),)

    def step(self, obj, inputs):
        return obj(*inputs)

    def stages(self, obj, out):
        # histories: the record storage is [time, batch, ...]; batch first for slicing
        B = out.shape[0]
        disc, real, ptrs = [obj.spike], [out, obj.current], []
        for name in ("spike_", "current_", "pos_", "neg_"):
            rec = getattr(obj, name, None)
            if rec is None or not hasattr(rec, "pointer"):
                continue
            hist = rec.value.movedim(1, 0)
            (disc if hist.dtype == torch.bool else real).append(hist)
            ptrs.append(int(rec.pointer))
        disc.append(torch.tensor([ptrs] * B))
        return [(disc, real)]


# ------------------------------------------------------------------ connections
class ConnectionFix(Fixture):
    kind = "connection"

    def __init__(self, rng, B, mode, name, delayed, synapse="DeltaCurrent"):
        super().__init__(rng, B, mode)
        self.name, self.delayed, self.synapse = name, delayed, synapse
        self.dt = rng.choice([0.5, 1.0]) if mode == "exact" else rng.choice([0.5, 1.0, 1.3])
        self.max_delay_steps = rng.choice([2, 3]) if delayed else None
        self.bias = rng.random() < 0.5
        self.skw = synapse_kwargs(synapse, mode, self.dt, rng)
        if name == "LinearDense":
            self.inshape, self.outshape = rng.choice([((4,), (3,)), ((2, 2), (2,)), ((3,), (2, 2))])
        elif name in ("LinearDirect", "LinearLateral"):
            self.inshape = self.outshape = rng.choice([(3,), (4,), (2, 2)])
        else:
            self.geom = rng.choice([dict(height=4, width=4, channels=2, filters=2, kernel=2, stride=1, padding=0),
                                    dict(height=5, width=4, channels=1, filters=3, kernel=(3, 2), stride=(2, 1), padding=1),
                                    dict(height=3, width=3, channels=2, filters=1, kernel=2, stride=1, padding=1, dilation=1)])
        self.weights = None
        self.desc = dict(connection=name, delayed=delayed, synapse=synapse, dt=self.dt, bias=self.bias)

    def make(self, batch):
        cons = SYNAPSES[self.synapse].partialconstructor(**self.skw)
        delay = self.max_delay_steps * self.dt if self.delayed else None
        if self.name == "LinearDense":
            c = LinearDense(self.inshape, self.outshape, self.dt, synapse=cons, bias=self.bias, delay=delay, batch_size=batch)
        elif self.name == "LinearDirect":
            c = LinearDirect(self.inshape, self.dt, synapse=cons, bias=self.bias, delay=delay, batch_size=batch)
        elif self.name == "LinearLateral":
            c = LinearLateral(self.inshape, self.dt, synapse=cons, bias=self.bias, delay=delay, batch_size=batch)
        else:
            g = self.geom
            c = Conv2D(g["height"], g["width"], g["channels"], g["filters"], self.dt, g["kernel"], stride=g["stride"],
                       padding=g["padding"], synapse=cons, bias=self.bias, delay=delay, batch_size=batch)
            self.inshape = tuple(c.inshape)
        if self.weights is None:
            rng = self.rng
            w = dy_tensor(rng, tuple(c.weight.shape)) if self.mode == "exact" else real_tensor(rng, tuple(c.weight.shape))
            b = None
            if self.bias:
                b = dy_tensor(rng, tuple(c.bias.shape)) if self.mode == "exact" else real_tensor(rng, tuple(c.bias.shape))
            d = None
            if self.delayed:
                n = int(math.prod(c.delay.shape))
                d = torch.tensor([rng.randint(0, self.max_delay_steps) * self.dt for _ in range(n)],
                                 dtype=torch.float32).reshape(tuple(c.delay.shape))
            self.weights = (w, b, d)
        w, b, d = self.weights
        c.weight = w.clone()
        if b is not None:
            c.bias = b.clone()
        if d is not None:
            c.delay = d.clone()
        return c

    def sync(self, src, dst):
        pass

    def draw(self, t):
        shp = (self.B,) + tuple(self.inshape)
        spikes = torch.tensor([self.rng.random() < 0.4 for _ in range(int(math.prod(shp)))]).reshape(shp)
        return (spikes.float(),)

    def step(self, obj, inputs):
        return obj(*inputs)

    def stages(self, obj, out):
        return [([obj.synspike], [out, obj.syncurrent])]


# ------------------------------------------------------------------ layers
def _lif(shape, dt, batch, mode, rng_params):
    if mode == "exact":
        return LIF(shape, dt, rest_v=-2.0, reset_v=-4.0, thresh_v=4.0, refrac_t=rng_params["R"] * dt,
                   time_constant=dt / LN2, resistance=1.0, batch_size=batch)
    return LIF(shape, dt, rest_v=-60.0, reset_v=-65.0, thresh_v=-50.0, refrac_t=rng_params["R"] * dt,
               time_constant=rng_params["tau"], resistance=1.0, batch_size=batch)


class LayerFix(Fixture):
    kind = "layer"

    def __init__(self, rng, B, mode, name, delayed=False, trainer=None):
        super().__init__(rng, B, mode)
        self.name, self.delayed, self.trainer_name = name, delayed, trainer
        self.dt = rng.choice([0.5, 1.0]) if mode == "exact" else rng.choice([1.0, 1.3, 0.5])
        self.np = dict(R=rng.choice([1, 2]), tau=rng.choice([7.3, 20.0]))
        self.n_in, self.n_out = rng.choice([(4, 3), (3, 3), (5, 2)])
        if name == "RecurrentSerial":
            self.n_out = 3
        self.conns = {}
        self.desc = dict(layer=name, delayed=delayed, trainer=trainer, dt=self.dt, n_in=self.n_in, n_out=self.n_out,
                         R=self.np["R"])
        self.tkw = None

    def _conn(self, key, kind, inshape, outshape, batch, gain):
        rng = self.rng
        q = 1.0 if self.mode == "exact" else 1.0
        cons = DeltaCurrent.partialconstructor(q)
        delay = 2 * self.dt if self.delayed else None
        if kind == "dense":
            c = LinearDense(inshape, outshape, self.dt, synapse=cons, delay=delay, batch_size=batch)
        elif kind == "direct":
            c = LinearDirect(inshape, self.dt, synapse=cons, delay=delay, batch_size=batch)
        else:
            c = LinearLateral(inshape, self.dt, synapse=cons, delay=delay, batch_size=batch)
        if key not in self.conns:
            shape = tuple(c.weight.shape)
            if self.mode == "exact":
                w = dy_tensor(rng, shape, signed=False, lo=1, hi=3) * gain
            else:
                # one presynaptic spike moves the membrane by 1.5 .. 5 mV (threshold gap: 10 mV)
                per_mv = self.dt / (1.0 - math.exp(-self.dt / self.np["tau"]))
                w = real_tensor(rng, shape, 1.5, 5.0) * gain * per_mv
            d = None
            if self.delayed:
                n = int(math.prod(c.delay.shape))
                d = torch.tensor([rng.randint(0, 2) * self.dt for _ in range(n)], dtype=torch.float32).reshape(tuple(c.delay.shape))
            self.conns[key] = (w, d)
        w, d = self.conns[key]
        c.weight = w.clone()
        if d is not None:
            c.delay = d.clone()
        return c

    def make(self, batch):
        m = self.mode
        if self.name == "Serial":
            conn = self._conn("c", "dense", (self.n_in,), (self.n_out,), batch, 1.0)
            if self.trainer_name:
                conn.updater = conn.defaultupdater()
            layer = Serial(conn, _lif((self.n_out,), self.dt, batch, m, self.np))
        elif self.name == "Biclique":
            c1 = self._conn("c1", "dense", (self.n_in,), (self.n_out,), batch, 1.0)
            c2 = self._conn("c2", "direct", (self.n_out,), (self.n_out,), batch, 1.0)
            layer = Biclique([("a", c1), ("b", c2)],
                             [("x", _lif((self.n_out,), self.dt, batch, m, self.np)),
                              ("y", _lif((self.n_out,), self.dt, batch, m, dict(self.np, R=0 if False else self.np["R"])))],
                             # the shipped string reducers (since the repair of D23 they no longer keep a leading
                             # singleton dimension) and a callable, chosen per fixture
                             combine=(("sum", "mean", "max", "min", lambda tensors, **kw: sum(tensors.values()))
                                      [(self.n_in + 2 * self.n_out + batch_free_hash(self)) % 5]))
        else:
            ff = self._conn("ff", "dense", (self.n_in,), (self.n_out,), batch, 1.0)
            lat = self._conn("lat", "direct", (self.n_out,), (self.n_out,), batch, 1.0)
            fb = self._conn("fb", "lateral", (self.n_out,), (self.n_out,), batch, -0.5)
            layer = RecurrentSerial(ff, lat, fb, _lif((self.n_out,), self.dt, batch, m, self.np),
                                    _lif((self.n_out,), self.dt, batch, m, self.np))
        layer.train()
        tr = None
        if self.trainer_name:
            tr = self._trainer()
            tr.register_cell("cell", layer.cell)
            tr.train()
        layer._verif_trainer = tr
        return layer

    def _trainer(self):
        rng = self.rng
        if self.tkw is None:
            ex = self.mode == "exact"
            tc = self.dt / LN2
            lrp = dy(rng, -3, -1) if ex else rng.uniform(0.05, 0.5)
            lrm = -(dy(rng, -3, -1) if ex else rng.uniform(0.05, 0.5))
            if rng.random() < 0.3:
                lrp, lrm = -lrp, -lrm
            self.tkw = dict(lrp=lrp, lrm=lrm, tc1=tc if ex else rng.uniform(5.0, 20.0), tc2=tc if ex else rng.uniform(5.0, 20.0),
                            mode=rng.choice(["cumulative", "nearest"]))
            self.desc["trainer_kw"] = dict(self.tkw)
        k = self.tkw
        n = self.trainer_name
        if n == "STDP":
            return STDP(lr_post=k["lrp"], lr_pre=k["lrm"], tc_post=k["tc1"], tc_pre=k["tc2"], delayed=self.delayed,
                        interp_tolerance=1e-3, trace_mode=k["mode"], batch_reduction=torch.sum)
        if n == "TripletSTDP":
            ex = self.mode == "exact"     # exact: fast decay 1/4, slow decay 1/2
            return TripletSTDP(lr_post_pair=k["lrp"], lr_post_triplet=k["lrp"] / 2, lr_pre_pair=k["lrm"],
                               lr_pre_triplet=k["lrm"] / 2, tc_post_fast=k["tc1"] / 2 if ex else k["tc1"],
                               tc_post_slow=k["tc1"] if ex else 2 * k["tc1"],
                               tc_pre_fast=k["tc2"] / 2 if ex else k["tc2"], tc_pre_slow=k["tc2"] if ex else 2 * k["tc2"],
                               delayed=False, interp_tolerance=1e-3,
                               trace_mode=k["mode"], batch_reduction=torch.sum)
        if n == "MSTDP":
            return MSTDP(lr_post=k["lrp"], lr_pre=k["lrm"], tc_post=k["tc1"], tc_pre=k["tc2"], delayed=self.delayed,
                         interp_tolerance=1e-3, trace_mode=k["mode"], batch_reduction=torch.sum)
        if n == "MSTDPET":
            return MSTDPET(lr_post=k["lrp"], lr_pre=k["lrm"], tc_post=k["tc1"], tc_pre=k["tc2"], tc_eligibility=k["tc1"],
                           interp_tolerance=1e-3, trace_mode=k["mode"], batch_reduction=torch.sum)
        if n in ("DelayAdjustedSTDP", "DelayAdjustedMSTDP"):
            cls = DelayAdjustedSTDP if n == "DelayAdjustedSTDP" else DelayAdjustedMSTDP
            return cls(lr_pos=abs(k["lrp"]), lr_neg=-abs(k["lrm"]), tc_pos=k["tc1"], tc_neg=k["tc2"],
                       interp_tolerance=1e-3, batch_reduction=torch.sum)
        if n in ("DelayAdjustedSTDPD", "DelayAdjustedMSTDPD"):
            cls = DelayAdjustedSTDPD if n == "DelayAdjustedSTDPD" else DelayAdjustedMSTDPD
            return cls(lr_neg=-abs(k["lrm"]), lr_pos=abs(k["lrp"]), tc_neg=k["tc2"], tc_pos=k["tc1"],
                       interp_tolerance=1e-3, batch_reduction=torch.sum)
        if n in ("KernelSTDP", "DelayAdjustedKernelSTDP", "DelayAdjustedKernelSTDPD"):
            kw = dict(kernel_post=exp_stdp_post_kernel, kernel_pre=exp_stdp_pre_kernel,
                      kernel_post_kwargs=dict(learning_rate=k["lrp"], time_constant=k["tc1"]),
                      kernel_pre_kwargs=dict(learning_rate=k["lrm"], time_constant=k["tc2"]), batch_reduction=torch.sum)
            if n == "KernelSTDP" and not self.delayed:
                # custom kernels whose SIGN changes with the time difference (the shipped exponential kernels have one
                # sign each): samples may then contribute with opposite signs to the same synapse, and the potentiating
                # / depressing parts of a batched step must still be the sums of the per-sample parts
                flip = 1.5 * self.dt

                def hat_post(diff, learning_rate, time_constant, **kwargs):
                    sgn = torch.where(diff.abs() < flip, 1.0, -1.0)
                    return exp_stdp_post_kernel(diff, learning_rate, time_constant) * sgn

                def hat_pre(diff, learning_rate, time_constant, **kwargs):
                    sgn = torch.where(diff.abs() < flip, 1.0, -1.0)
                    return exp_stdp_pre_kernel(diff, learning_rate, time_constant) * sgn
                kw.update(kernel_post=hat_post, kernel_pre=hat_pre)
                self.desc["kernel"] = "sign-changing"
            if n == "KernelSTDP":
                return KernelSTDP(delayed=self.delayed, interp_tolerance=1e-3, **kw)
            return (DelayAdjustedKernelSTDP if n == "DelayAdjustedKernelSTDP" else DelayAdjustedKernelSTDPD)(**kw)
        if n == "LinearHomeostasis":
            return LinearHomeostasis(plasticity=abs(k["lrp"]), target=0.5, param="weight", batch_reduction=torch.sum)
        raise KeyError(n)

    REWARDED = ("MSTDP", "MSTDPET", "DelayAdjustedMSTDP", "DelayAdjustedMSTDPD")

    def sync(self, src, dst):
        pass

    def draw(self, t):
        shp = (self.B, self.n_in)
        spikes = torch.tensor([self.rng.random() < 0.5 for _ in range(int(math.prod(shp)))]).reshape(shp).float()
        if self.name == "Biclique":
            shp2 = (self.B, self.n_out)
            s2 = torch.tensor([self.rng.random() < 0.4 for _ in range(int(math.prod(shp2)))]).reshape(shp2).float()
            return (spikes, s2)
        if self.trainer_name in self.REWARDED:
            ex = self.mode == "exact"
            rew = torch.tensor([(self.rng.choice([-1.0, 0.5, 1.0, 2.0]) if ex else self.rng.uniform(-1, 2))
                                for _ in range(self.B)])
            return (spikes, rew)
        return (spikes,)

    def step(self, obj, inputs):
        if self.name == "Serial":
            out = obj(inputs[0], capture_intermediate=True)
            res = {"n": [out[0]], "c": [out[1]]}
        elif self.name == "Biclique":
            o = obj({"a": (inputs[0],), "b": (inputs[1],)}, capture_intermediate=True)
            res = {"n": [o[0]["x"], o[0]["y"]], "c": [o[1]["a"], o[1]["b"]]}
        else:
            o = obj(inputs[0], capture_intermediate=True)
            res = {"n": [o[0][0], o[0][1]], "c": [o[1]["feedfwd"], o[1]["feedback"], o[1]["lateral"]]}
        tr = obj._verif_trainer
        if tr is not None:
            upd = obj.updater
            upd.clear()
            if self.trainer_name in self.REWARDED:
                tr(inputs[1])
            else:
                tr()
            acc = []
            for pname in ("weight", "delay"):
                if pname == "delay" and not self.delayed:
                    continue
                try:
                    a = getattr(upd, pname)
                except AttributeError:
                    continue
                z = torch.zeros_like(getattr(obj.connection, pname))
                pos, neg = a.pos, a.neg
                acc += [z if pos is None else pos.detach().clone(), z if neg is None else neg.detach().clone()]
            res["acc"] = acc
        return res

    def neurons(self, obj):
        if self.name == "Serial":
            return [obj.neuron]
        if self.name == "Biclique":
            return [obj.get_neuron("x"), obj.get_neuron("y")]
        return [obj.feedfwd_neuron, obj.feedback_neuron]

    def stages(self, obj, out):
        ns = self.neurons(obj)
        tick = self.dt
        disc = list(out["n"]) + [torch.round(n.refrac / tick * 1024) for n in ns]
        return [([], list(out["c"])), (disc, [n.voltage for n in ns])]


class BatchedRaised(Exception):
    """the batched instance raised where the single instances did not"""

    def __init__(self, step, exc):
        super().__init__(f"step {step}: {type(exc).__name__}: {exc}")
        self.step, self.exc = step, exc


def run_pair(fix: Fixture, steps: int):
    """Drive the batched instance and the B singles; returns per step the per-sample stages
    of both, plus (for trainers) the accumulated parts."""
    B = fix.B
    batched = fix.make(B)
    singles = [fix.make(1) for _ in range(B)]
    log = []
    for t in range(steps):
        resized = False
        if getattr(fix, "resize_at", None) == t:
            B2 = fix.resize_to
            try:
                fix.resize(batched, B2)
            except Exception as e:   # noqa: BLE001
                raise BatchedRaised(t, e)
            for sgl in singles[:B2]:
                fix.resize(sgl, 1)               # same public call on the single copies: clears them
            singles = singles[:B2] + [fix.make(1) for _ in range(max(0, B2 - len(singles)))]
            fix.B = B = B2
            resized = True
        inputs = fix.draw(t)
        per = []
        accs = []
        outs = []
        for i in range(B):
            oi = fix.step(singles[i], fix.slice_inputs(inputs, i))
            per.append(fix.stages(singles[i], oi))
            if isinstance(oi, dict) and "acc" in oi:
                accs.append(oi["acc"])
        try:
            ob = fix.step(batched, inputs)
            sb = fix.stages(batched, ob)
        except Exception as e:   # noqa: BLE001  (the singles ran this step without raising)
            raise BatchedRaised(t, e)
        if hasattr(fix, "after_step"):
            fix.after_step(batched, singles)
        rec = {"b": sb, "s": per, "B": B, "resize": resized}
        if isinstance(ob, dict) and "acc" in ob:
            rec["acc_b"] = ob["acc"]
            rec["acc_s"] = accs
        log.append(rec)
    return log, batched, singles
