"""Adaptor for C12 (checkpoint / restore): builds complete inferno models from a configuration
(layer of real components, updater, trainer, stand-alone monitors, MaxRateClassifier), steps
them, serialises `state_dict()` of every part with torch.save, loads into another instance,
and projects everything observable (outputs, state dictionaries incl. extras, non-persistent
registered buffers, public getters) to interned tokens.
"""
from __future__ import annotations
import io, itertools
from .core import setup_repo_path

setup_repo_path()
import torch  # noqa: E402
from torch import nn  # noqa: E402
import inferno  # noqa: E402
from inferno.neural import (LIF, ALIF, GLIF2, Izhikevich, DeltaCurrent, DeltaPlusCurrent,  # noqa: E402
                            SingleExponentialCurrent, DoubleExponentialCurrent, LinearDense, LinearDirect,
                            LinearLateral, Conv2D, Serial, Biclique, RecurrentSerial)
from inferno.learn import STDP, TripletSTDP, MSTDP, MSTDPET, DelayAdjustedSTDP, DelayAdjustedSTDPD, \
    LinearHomeostasis, MaxRateClassifier  # noqa: E402
from inferno.observe import (OutputMonitor, StateMonitor, EMAReducer, CAReducer, EventReducer,  # noqa: E402
                             PassthroughReducer, CumulativeTraceReducer)

torch.set_num_threads(1)
DT = 1.0
LAYERS = ("serial", "biclique", "recurrent")
CONNS = ("dense", "direct", "lateral", "conv")
SYNS = ("delta", "deltaplus", "single", "double")
NEURONS = ("lif", "alif", "glif2", "izh")
TRAINERS = ("none", "stdp", "stdp-delayed", "triplet", "mstdp", "mstdpet", "dastdp", "dastdpd", "homeo")


def _syn(cfg):
    ip, q = cfg["inplace"], 400.0
    return {"delta": lambda: DeltaCurrent.partialconstructor(q, inplace=ip),
            "deltaplus": lambda: DeltaPlusCurrent.partialconstructor(q, inplace=ip),
            "single": lambda: SingleExponentialCurrent.partialconstructor(q * 4, 4.0, inplace=ip),
            "double": lambda: DoubleExponentialCurrent.partialconstructor(q * 4, 6.0, 2.0, inplace=ip)}[cfg["syn"]]()


def _neuron(kind, shape, B):
    if kind == "lif":
        return LIF(shape, DT, rest_v=-60.0, reset_v=-65.0, thresh_v=-50.0, refrac_t=2.0, time_constant=20.0, batch_size=B)
    if kind == "alif":
        return ALIF(shape, DT, rest_v=-60.0, reset_v=-65.0, thresh_eq_v=-50.0, refrac_t=2.0, tc_membrane=20.0,
                    tc_adaptation=(30.0, 9.0), spike_increment=(2.0, 0.5), batch_size=B)
    if kind == "glif2":
        return GLIF2(shape, DT, rest_v=-60.0, reset_v_add=-2.0, reset_v_mul=0.2, thresh_eq_v=-50.0, refrac_t=2.0,
                     tc_membrane=20.0, rc_adaptation=0.05, spike_increment=2.0, batch_size=B)
    if kind == "izh":
        return Izhikevich(shape, DT, rest_v=-60.0, crit_v=-50.0, affinity=0.2, reset_v=-65.0, thresh_v=-35.0, refrac_t=2.0,
                          tc_membrane=10.0, tc_adaptation=20.0, voltage_coupling=0.1, spike_increment=1.0, batch_size=B)
    raise KeyError(kind)


def _conn(kind, cfg, inshape, outshape, B, gen):
    c = _conn0(kind, cfg, inshape, outshape, B, gen)
    if cfg.get("resized") and cfg["delayed"]:
        # built with one-slot histories (maximum delay 0), lengthened by the setter afterwards
        c.synapse.delay = 3.0
        c.delay = torch.rand(c.delay.shape, generator=gen) * 3.0
    return c


def _conn0(kind, cfg, inshape, outshape, B, gen):
    delay = (0.0 if cfg.get("resized") else 3.0) if cfg["delayed"] else None
    kw = dict(synapse=_syn(cfg), bias=True, delay=delay, batch_size=B,
              weight_init=lambda w: torch.rand(w.shape, generator=gen),
              bias_init=lambda b: torch.rand(b.shape, generator=gen) * 0.1,
              delay_init=lambda d: torch.rand(d.shape, generator=gen) * 3.0)
    if kind == "dense":
        return LinearDense(inshape, outshape, DT, **kw)
    if kind == "direct":
        return LinearDirect(outshape, DT, **kw)
    if kind == "lateral":
        return LinearLateral(outshape, DT, **kw)
    if kind == "conv":
        return Conv2D(4, 4, 1, 2, DT, 2, **kw)
    raise KeyError(kind)


def _trainer(kind):
    if kind == "stdp":
        return STDP(0.02, -0.015, 20.0, 15.0, delayed=False)
    if kind == "stdp-delayed":
        return STDP(0.02, -0.015, 20.0, 15.0, delayed=True, trace_mode="nearest")
    if kind == "triplet":
        return TripletSTDP(0.02, 0.01, -0.015, -0.005, 15.0, 30.0, 20.0, 40.0)
    if kind == "mstdp":
        return MSTDP(0.02, -0.015, 20.0, 15.0)
    if kind == "mstdpet":
        return MSTDPET(0.02, -0.015, 20.0, 15.0, 25.0)
    if kind == "dastdp":
        return DelayAdjustedSTDP(0.02, -0.015, 20.0, 15.0)
    if kind == "dastdpd":
        return DelayAdjustedSTDPD(-0.02, 0.015, 20.0, 15.0)
    if kind == "homeo":
        return LinearHomeostasis(0.05, 0.3, "weight")
    raise KeyError(kind)


class Bundle:
    """One complete model instance."""

    B = 2

    def __init__(self, cfg: dict, seed: int):
        self.cfg = cfg
        gen = torch.Generator().manual_seed(seed)
        B = self.B
        kind = cfg["conn"]
        out = (2, 3, 3) if kind == "conv" else (3,)
        first_in = {"dense": (4,), "direct": out, "lateral": out, "conv": (1, 4, 4)}[kind]
        nk = cfg["neuron"]
        if cfg["layer"] == "serial":
            self.conns = [_conn(kind, cfg, first_in, out, B, gen)]
            self.neurs = [_neuron(nk, out, B)]
            self.layer = Serial(self.conns[0], self.neurs[0])
            self.inshapes = [first_in]
            cells = [self.layer.cell]
        elif cfg["layer"] == "biclique":
            self.conns = [_conn(kind, cfg, first_in, out, B, gen), _conn("dense", cfg, (5,), out, B, gen)]
            self.neurs = [_neuron(nk, out, B), _neuron("lif", out, B)]
            self.layer = Biclique([("a", self.conns[0]), ("b", self.conns[1])],
                                  [("p", self.neurs[0]), ("q", self.neurs[1])], combine=cfg.get("comb", "sum"))
            self.inshapes = [first_in, (5,)]
            cells = [self.layer.get_cell("a", "p"), self.layer.get_cell("b", "q")]
        else:
            s2 = (2,)
            self.conns = [_conn(kind, cfg, first_in, out, B, gen), _conn("dense", cfg, out, s2, B, gen),
                          _conn("dense", cfg, s2, out, B, gen)]
            self.neurs = [_neuron(nk, out, B), _neuron("lif", s2, B)]
            self.layer = RecurrentSerial(self.conns[0], self.conns[1], self.conns[2], self.neurs[0], self.neurs[1])
            self.inshapes = [first_in]
            cells = [self.layer.feedfwd_cell]
        self.trainer = None
        tk = cfg["trainer"]
        if tk != "none":
            for cell in cells:
                cell.connection.updater = cell.connection.defaultupdater()
            self.trainer = _trainer(tk)
            for i, cell in enumerate(cells):
                self.trainer.register_cell(f"cell{i}", cell)
        # stand-alone monitors on the first neuron group (reducers with and without history)
        self.monitors = nn.ModuleDict()
        if cfg.get("monitors", True):
            n0 = self.neurs[0]
            self.monitors["ema"] = OutputMonitor(EMAReducer(DT, 0.25, duration=2.0, inplace=cfg["inplace"]), module=n0)
            self.monitors["ca"] = OutputMonitor(CAReducer(DT, duration=0.0), module=n0)
            self.monitors["event"] = OutputMonitor(EventReducer(DT, lambda x: x.bool(), duration=3.0, inclusive=True),
                                                   module=n0)
            self.monitors["volt"] = StateMonitor(PassthroughReducer(DT, duration=2.0, inplace=cfg["inplace"]), "voltage",
                                                 module=n0)
            self.monitors["trace"] = OutputMonitor(CumulativeTraceReducer(DT, 10.0, 1.0, 1, duration=1.0), module=n0)
            if cfg.get("resized"):
                # the same reducers, built with a single slot and lengthened by the duration setter
                ema = EMAReducer(DT, 0.25, duration=0.0, inplace=cfg["inplace"])
                ema.duration = 2.0
                self.monitors["ema"] = OutputMonitor(ema, module=n0)
                volt = PassthroughReducer(DT, duration=0.0, inplace=cfg["inplace"])
                volt.duration = 2.0
                self.monitors["volt"] = StateMonitor(volt, "voltage", module=n0)
        self.clf = MaxRateClassifier(out, 3, decay=0.1)
        self.keepalive = []
        self.t = 0

    def parts(self):
        d = {"model": self.layer, "monitors": self.monitors, "clf": self.clf}
        if self.trainer is not None:
            d["trainer"] = self.trainer
        return d

    # ------------------------------------------------------------------ stepping
    def step(self, xs, label, reward):
        cfg = self.cfg
        if cfg["layer"] == "biclique":
            o = self.layer({"a": (xs[0],), "b": (xs[1],)})
            outs = [o["p"], o["q"]]
        else:
            o = self.layer(xs[0])
            outs = list(o) if isinstance(o, tuple) else [o]
        if self.trainer is not None:
            if cfg["trainer"] in ("mstdp", "mstdpet"):
                self.trainer(reward)
            else:
                self.trainer()
        self.t += 1
        if self.t % int(cfg.get("update_every", 1)) == 0:
            self.layer.update()
        pred, logits = self.clf(outs[0].float(), label, logits=True)
        return {"out": outs, "pred": pred, "logits": logits}

    # ------------------------------------------------------------------ checkpoint
    def save(self) -> bytes:
        buf = io.BytesIO()
        torch.save({k: m.state_dict() for k, m in self.parts().items()}, buf)
        return buf.getvalue()

    def recycle(self):
        """every fold reducer (stand-alone monitors' and the trainers' monitors') is cleared KEEPING its shaped
        storage: the instance has run on other data and was reset for reuse, its recorders still fit a checkpoint"""
        from inferno.observe import FoldReducer
        n = 0
        for top in self.parts().values():
            for sub in top.modules():
                if isinstance(sub, FoldReducer):
                    sub.clear(keepshape=True)
                    n += 1
        return n

    @staticmethod
    def deserialise(blob: bytes):
        return torch.load(io.BytesIO(blob), weights_only=False)

    def load(self, blob: bytes, sd=None):
        """sd: an already deserialised checkpoint (the same object may be loaded into several instances)"""
        sd = self.deserialise(blob) if sd is None else sd
        for k, m in self.parts().items():
            m.load_state_dict(sd[k])

    # ------------------------------------------------------------------ observation
    def registered(self):
        """Every registered variable of every module: {path: (value, how)} with how in
        parameter / buffer / npbuffer (non-persistent) / extra; plus hooks: set of module paths
        that registered a load_state_dict post hook."""
        out, hooked = {}, set()
        for part, top in self.parts().items():
            for path, sub in top.named_modules():
                base = f"{part}:{path}"
                if getattr(sub, "_load_state_dict_post_hooks", None):
                    hooked.add(base)
                for k, v in sub._parameters.items():
                    out[f"{base}#{k}"] = (v, "parameter", base)
                for k, v in sub._buffers.items():
                    how = "npbuffer" if k in sub._non_persistent_buffers_set else "buffer"
                    out[f"{base}#{k}"] = (v, how, base)
                if isinstance(sub, inferno.Module):
                    for k, v in sub._extras.items():
                        out[f"{base}#{k}"] = (v, "extra", base)
        return out, hooked

    def statedicts(self):
        out = {}
        for part, top in self.parts().items():
            for k, v in top.state_dict().items():
                if isinstance(v, dict):
                    for kk, vv in v.items():
                        out[f"{part}:{k}/{kk}"] = vv
                else:
                    out[f"{part}:{k}"] = v
        return out

    def public(self):
        d = {}
        for i, n in enumerate(self.neurs):
            d[f"n{i}.voltage"], d[f"n{i}.refrac"], d[f"n{i}.spike"] = n.voltage, n.refrac, n.spike
        for i, c in enumerate(self.conns):
            d[f"c{i}.syncurrent"], d[f"c{i}.synspike"] = c.syncurrent, c.synspike
            d[f"c{i}.weight"], d[f"c{i}.bias"], d[f"c{i}.delay"] = c.weight, c.bias, c.delay
        for k, m in self.monitors.items():
            d[f"mon.{k}.peek"] = m.peek()
            d[f"mon.{k}.dump"] = m.dump()
        if self.trainer is not None:
            for (cn, mn), m in _named_monitors(self.trainer):
                d[f"tr.{cn}.{mn}.peek"] = m.peek()
        d["clf.assignments"], d["clf.occurrences"] = self.clf.assignments, self.clf.occurrences
        d["clf.proportions"], d["clf.rates"] = self.clf.proportions, self.clf.rates
        if self.cfg["layer"] == "recurrent":
            d["feedback_spikes"] = self.layer.feedback_spikes
        return d


def _named_monitors(trainer):
    """(cell, name) -> monitor through the trainer's pool (named_monitors itself is part of C15)."""
    pool = trainer.monitor_pool_
    out = []
    for cn, group in pool.monitors_.items():
        for mn, m in group.items():
            out.append(((cn, mn), m))
    return out


# ---------------------------------------------------------------------- values -> tokens
def freeze(v):
    if v is None:
        return None
    if isinstance(v, torch.Tensor):
        t = v.detach()
        return (str(t.dtype), tuple(t.shape), t.contiguous().cpu().numpy().tobytes())
    if isinstance(v, (bool, int, float, str)):
        return (type(v).__name__, v)
    return ("repr", repr(v))


class Interner:
    def __init__(self):
        self.tab = {}

    def tok(self, frozen) -> int:
        return self.tab.setdefault(frozen, len(self.tab) + 1)

    def group(self, d: dict) -> int:
        return self.tok(tuple((k, freeze(v)) for k, v in sorted(d.items())))


def differing(a: dict, b: dict):
    return [k for k in sorted(set(a) | set(b)) if freeze(a.get(k)) != freeze(b.get(k))]


def make_inputs(bundle: Bundle, seed: int, T: int):
    gen = torch.Generator().manual_seed(seed)
    xs, labels, rewards = [], [], []
    for _ in range(T):
        xs.append([(torch.rand((bundle.B, *s), generator=gen) < 0.5).float() for s in bundle.inshapes])
        labels.append(torch.randint(0, 3, (bundle.B,), generator=gen))
        rewards.append(float(torch.rand((), generator=gen)) * 2 - 0.5)
    return xs, labels, rewards


def all_configs():
    for layer, conn, syn, neuron, trainer, delayed, inplace in itertools.product(
            LAYERS, CONNS, SYNS, NEURONS, TRAINERS, (False, True), (False, True)):
        yield dict(layer=layer, conn=conn, syn=syn, neuron=neuron, trainer=trainer, delayed=delayed, inplace=inplace)


def probe_infer(bundle: Bundle, seed: int):
    """Classification through the public API without touching the state (used right after a load)."""
    gen = torch.Generator().manual_seed(seed)
    x = torch.rand((bundle.B, *bundle.clf.shape), generator=gen)
    return {"out": [], "pred": bundle.clf.classify(x), "logits": bundle.clf.regress(x),
            "pred_np": bundle.clf.classify(x, proportional=False), "logits_np": bundle.clf.regress(x, proportional=False)}
