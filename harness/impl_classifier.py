"""Adaptor between spec/ClassifierCore.tla and a real inferno.learn.MaxRateClassifier.

Rates are small integers (decay = 0, even spike counts, at most two samples per class), so all
quantities are exact in float32: proportions are reported multiplied by L = 840, logits by L*M
(M = 6), classes 1-based."""
from __future__ import annotations
import copy, io
from .core import setup_repo_path

setup_repo_path()
import torch  # noqa: E402
from inferno.learn import MaxRateClassifier  # noqa: E402

torch.set_num_threads(1)
L, M = 840, 6
BAD = -777


def ints(t, scale=1):
    out = []
    for v in t.detach().reshape(-1).tolist():
        y = float(v) * scale
        r = round(y)
        out.append(int(r) if abs(y - r) < 0.05 else BAD)
    return out


def rows(flat, n, k):
    return [flat[i * k:(i + 1) * k] for i in range(n)]


class ClassifierImpl:
    def __init__(self, N, K):
        self.N, self.K = N, K
        self.clf = MaxRateClassifier(N, K, decay=0.0)
        self.keep = []

    def apply(self, op):
        a = op["a"]
        if a == "update":
            x = torch.tensor(op["inp"], dtype=torch.float32)
            lab = torch.tensor([l - 1 for l in op["lab"]], dtype=torch.long)
            self.clf.update(x, lab)
            return {"t": "ok"}
        if a == "infer":
            x = torch.tensor([op["x"]], dtype=torch.float32)
            lg = self.clf.regress(x, proportional=bool(op["prop"]))[0]
            pred = int(self.clf.classify(x, proportional=bool(op["prop"]))[0]) + 1
            return {"t": "inf", "logits": ints(lg, L * M), "pred": pred}
        if a == "set_rates":
            self.clf.rates = torch.tensor(op["r"], dtype=torch.float32)
            return {"t": "ok"}
        if a == "load":
            donor = MaxRateClassifier(self.N, self.K, decay=0.0)
            donor.rates = torch.tensor(op["r"], dtype=torch.float32)
            buf = io.BytesIO()
            torch.save(donor.state_dict(), buf)
            if op["kind"] == "self":
                target = self.clf
            elif op["kind"] == "fresh":
                target = MaxRateClassifier(self.N, self.K, decay=0.0)
            else:
                self.keep.append(self.clf)             # the original stays alive next to its copy
                target = copy.deepcopy(self.clf)
            target.load_state_dict(torch.load(io.BytesIO(buf.getvalue()), weights_only=False))
            self.clf = target
            return {"t": "ok"}
        raise KeyError(a)

    def project(self):
        c = self.clf
        return {"r": rows(ints(c.rates), self.N, self.K), "p": rows(ints(c.proportions, L), self.N, self.K),
                "as": [v + 1 for v in ints(c.assignments)], "oc": ints(c.occurrences)}
