"""Adaptor between the ConfigCore specification (C14) and real inferno components.

One object = one real component (neuron group, synapse, connection, Serial layer, reducer)
constructed with an initial configuration and then re-configured ONLY through its public
property setters / `.to`.  project() reads the public getters and the `recordsz` / batch
dimension of every internal history; the `probe` operation clears the component and runs
it side by side with a component freshly CONSTRUCTED with the reported configuration.

Times are integer ticks of `tick` milliseconds (dyadic, so that ceil(duration / dt) is the
same in float and in integer arithmetic).
"""
from __future__ import annotations
from .core import setup_repo_path

setup_repo_path()
import torch  # noqa: E402
from inferno import RecordTensor  # noqa: E402
from inferno.neural import (LIF, ALIF, DeltaCurrent, DeltaPlusCurrent, SingleExponentialCurrent,  # noqa: E402
                            DoubleExponentialCurrent, LinearDense, LinearDirect, Serial)
from inferno.observe import (PassthroughReducer, NearestTraceReducer, CumulativeTraceReducer, EMAReducer,  # noqa: E402
                             EventReducer, CAReducer)
from inferno.observe.reducers.trace import (ScaledNearestTraceReducer, ScaledCumulativeTraceReducer,  # noqa: E402
                                            ConditionalNearestTraceReducer, ConditionalCumulativeTraceReducer)

torch.set_num_threads(1)
BAD = -777
DTYPES = {"f32": torch.float32, "f64": torch.float64}
DTN = {torch.float32: "f32", torch.float64: "f64"}
SYN_CLASSES = {"delta": DeltaCurrent, "deltaplus": DeltaPlusCurrent, "single": SingleExponentialCurrent,
               "double": DoubleExponentialCurrent}
SYN_NAMES = {v: k for k, v in SYN_CLASSES.items()}
RECORD_NAMES = ("spike_", "current_", "pos_current_", "neg_current_", "data_")
SHAPE = (3,)


def make_synapse(kind, shape, dt, delay, batch, inplace):
    if kind == "delta":
        return DeltaCurrent(shape, dt, spike_charge=2.0, delay=delay, batch_size=batch, inplace=inplace)
    if kind == "deltaplus":
        return DeltaPlusCurrent(shape, dt, spike_charge=2.0, delay=delay, batch_size=batch, inplace=inplace)
    if kind == "single":
        return SingleExponentialCurrent(shape, dt, spike_charge=2.0, time_constant=4.0, delay=delay, batch_size=batch,
                                        inplace=inplace)
    if kind == "double":
        return DoubleExponentialCurrent(shape, dt, spike_charge=2.0, tc_decay=6.0, tc_rise=2.0, delay=delay,
                                        batch_size=batch, inplace=inplace)
    raise KeyError(kind)


def syn_partial(kind, inplace):
    return lambda shape, step_time, delay, batch_size: make_synapse(kind, shape, step_time, delay, batch_size, inplace)


def make_neuron(cls, dt, batch):
    if cls == "ALIF":
        return ALIF(SHAPE, dt, rest_v=-60.0, reset_v=-65.0, thresh_eq_v=-50.0, refrac_t=2.0, tc_membrane=20.0,
                    tc_adaptation=30.0, spike_increment=2.0, batch_size=batch)
    return LIF(SHAPE, dt, rest_v=-60.0, reset_v=-65.0, thresh_v=-50.0, refrac_t=2.0, time_constant=20.0,
               batch_size=batch)


def make_connection(cls, syn, dt, delay, batch, inplace):
    kw = dict(synapse=syn_partial(syn, inplace), delay=delay, batch_size=batch, bias=True)
    if cls == "LinearDirect":
        return LinearDirect(SHAPE, dt, **kw)
    return LinearDense((4,), SHAPE, dt, **kw)


def make_reducer(cls, dt, dur, incl, inplace):
    kw = dict(duration=dur, inclusive=incl, inplace=inplace)
    if cls == "PassthroughReducer":
        return PassthroughReducer(dt, **kw)
    if cls == "NearestTraceReducer":
        return NearestTraceReducer(dt, 4.0, 1.0, 1.0, **kw)
    if cls == "CumulativeTraceReducer":
        return CumulativeTraceReducer(dt, 4.0, 1.0, 1.0, **kw)
    if cls == "EMAReducer":
        return EMAReducer(dt, 0.5, **kw)
    if cls == "CAReducer":
        return CAReducer(dt, **kw)
    if cls == "EventReducer":
        return EventReducer(dt, lambda x: x > 0.5, **kw)
    if cls == "ScaledNearestTraceReducer":
        return ScaledNearestTraceReducer(dt, 4.0, 1.0, 0.5, lambda x: x > 0.5, **kw)
    if cls == "ScaledCumulativeTraceReducer":
        return ScaledCumulativeTraceReducer(dt, 4.0, 1.0, 0.5, lambda x: x > 0.5, **kw)
    if cls == "ConditionalNearestTraceReducer":
        return ConditionalNearestTraceReducer(dt, 4.0, 1.0, 0.5, **kw)
    if cls == "ConditionalCumulativeTraceReducer":
        return ConditionalCumulativeTraceReducer(dt, 4.0, 1.0, 0.5, **kw)
    raise KeyError(cls)


def records_of(mod):
    out = []
    for name in RECORD_NAMES:
        r = getattr(mod, name, None)
        if isinstance(r, RecordTensor):
            out.append(r)
    return out


class ConfigImpl:
    """hdr: {kind, cls, tick, cfg: initial configuration in ticks (the spec's abs record), seed}"""

    def __init__(self, hdr: dict):
        self.hdr = dict(hdr)
        self.kind, self.cls, self.tick = hdr["kind"], hdr.get("cls"), float(hdr.get("tick", 0.5))
        self.cfg0 = dict(hdr["cfg"])
        self.seed = int(hdr.get("seed", 1))
        self.path = []
        self.detail = None
        c = self.cfg0
        self.floats = {"dt": self._ms(c["dt"]), "delay": self._ms(c["delay"]), "dur": self._ms(c["dur"])}
        self.obj = self._construct(self._ms(c["dt"]), self._ms(c["delay"]), c["batchsz"], c["inplace"],
                                   self._ms(c["dur"]), c["incl"], c["syn"], "f32")
        if self.kind == "reducer" and hdr.get("warm", True):
            # storage of a reducer exists only after the first observation.  On trees where the
            # temporal setters of RecordTensor refuse uninitialised storage when the size changes
            # (C13 finding D5) reducers can only be re-configured after observing once; where that
            # is repaired both the observed and the never-observed reducer are exercised
            if self.cls.startswith("Conditional"):
                self.obj(torch.zeros(2, 3), torch.zeros(2, 3, dtype=torch.bool))
            else:
                self.obj(torch.zeros(2, 3))
            if hdr.get("warm") == "ks":
                # a third calling history: observed once, then cleared KEEPING the shape of its storage; every further
                # re-configuration is preceded by clear(keepshape=True) too and so is the probe (clearing is not a
                # configuration step: the reducer must still equal a freshly constructed one)
                self.obj.clear(keepshape=True)

    def _ms(self, ticks):
        # the float a user would write for that many ticks (0.7, 2.1, ...), not the product k * tick
        return round(float(ticks) * self.tick, 6)

    def nq_after(self, op):
        """nq() as it will be once `op` has been applied."""
        import math
        f = dict(self.floats)
        key = {"set_dt": "dt", "set_delay": "delay", "set_dur": "dur"}.get(op["a"])
        if key:
            f[key] = self._ms(op["v"])
        return int(math.ceil((f["dur"] if self.kind == "reducer" else f["delay"]) / f["dt"]))

    def nq(self):
        """ceil(duration / dt) of the documented size formula, evaluated in IEEE arithmetic on the very
        floats that were handed to the constructor / the setters (oracle input of the trace spec)."""
        import math
        f = self.floats
        return int(math.ceil((f["dur"] if self.kind == "reducer" else f["delay"]) / f["dt"]))

    def _ticks(self, ms):
        v = float(ms) / self.tick
        r = round(v)
        return int(r) if abs(v - r) < 1e-9 else BAD

    def _construct(self, dt, delay, batch, inplace, dur, incl, syn, dtype):
        k = self.kind
        if k == "neuron":
            o = make_neuron(self.cls, dt, batch)
        elif k == "synapse":
            o = make_synapse(syn, SHAPE, dt, delay, batch, inplace)
        elif k == "connection":
            o = make_connection(self.cls, syn, dt, delay, batch, inplace)
        elif k == "layer":
            o = Serial(make_connection(self.cls, syn, dt, delay, batch, inplace), make_neuron("LIF", dt, batch))
        elif k == "reducer":
            o = make_reducer(self.cls, dt, dur, incl, inplace)
        else:
            raise KeyError(k)
        if dtype == "f64":
            o = o.to(torch.float64)
        return o

    # ---------------------------------------------------------------- parts
    def _syn(self, obj=None):
        o = obj if obj is not None else self.obj
        return {"synapse": lambda: o, "connection": lambda: o.synapse, "layer": lambda: o.connection.synapse}[self.kind]()

    def _conn(self, obj=None):
        o = obj if obj is not None else self.obj
        return o if self.kind == "connection" else o.connection

    def _neuron(self, obj=None):
        o = obj if obj is not None else self.obj
        return o if self.kind == "neuron" else o.neuron

    # ---------------------------------------------------------------- operations
    def apply(self, op: dict):
        a = op["a"]
        v = op.get("v", op.get("s", op.get("f")))
        try:
            if a == "probe":
                return self._probe()
            k, o = self.kind, self.obj
            if k == "reducer" and self.hdr.get("warm") == "ks":
                o.clear(keepshape=True)
            if a == "set_dt":
                x = self._ms(v)
                if k == "layer":
                    o.connection.dt = x
                    o.neuron.dt = x
                else:
                    o.dt = x
            elif a == "set_delay":
                self._syn().delay = self._ms(v)
            elif a == "set_dur":
                o.duration = self._ms(v)
            elif a == "set_batchsz":
                if k == "layer":
                    o.connection.batchsz = int(v)
                    o.neuron.batchsz = int(v)
                else:
                    o.batchsz = int(v)
            elif a == "set_inplace":
                if k == "reducer":
                    o.inplace = bool(v)
                else:
                    self._syn().inplace = bool(v)
            elif a == "set_syn":
                conn = self._conn()
                old = conn.synapse
                new = make_synapse(v, old.shape, conn.dt, old.delay, conn.batchsz, old.inplace)
                new = new.to(self._float_dtype())
                conn.synapse = new
            elif a == "to":
                self.obj = o.to(DTYPES[v])
            else:
                raise KeyError(a)
            if a in ("set_dt", "set_delay", "set_dur"):
                self.floats[{"set_dt": "dt", "set_delay": "delay", "set_dur": "dur"}[a]] = self._ms(v)
            self.path.append(dict(op))
            return {"t": "ok"}
        except Exception as e:
            if a != "probe":
                self.path.append(dict(op))
            return {"t": "err", "e": type(e).__name__}

    # ---------------------------------------------------------------- projection
    def _float_dtype(self):
        k, o = self.kind, self.obj
        if k in ("neuron", "layer"):
            return self._neuron().voltage.dtype
        if k == "reducer":
            return o.data.dtype
        return self._syn().current.dtype

    def reported(self):
        """Configuration reported by the public getters, in milliseconds (as the getters return it)."""
        k, o = self.kind, self.obj
        r = {"dt": None, "delay": 0.0, "batchsz": 0, "inplace": False, "dur": 0.0, "incl": False, "syn": "none"}
        if k == "neuron":
            r.update(dt=o.dt, batchsz=o.batchsz)
        elif k == "synapse":
            r.update(dt=o.dt, delay=o.delay, batchsz=o.batchsz, inplace=o.inplace, syn=SYN_NAMES.get(type(o), "?"))
        elif k in ("connection", "layer"):
            c = self._conn()
            r.update(dt=c.dt, delay=c.delayedby, batchsz=c.batchsz, inplace=c.synapse.inplace,
                     syn=SYN_NAMES.get(type(c.synapse), "?"))
        else:
            r.update(dt=o.dt, dur=o.duration, inplace=o.inplace, incl=bool(self.cfg0["incl"]))
        r["dtype"] = DTN.get(self._float_dtype(), "?")
        return r

    def project(self):
        k = self.kind
        r = self.reported()
        cfg = {"dt": self._ticks(r["dt"]), "delay": self._ticks(r["delay"]), "batchsz": int(r["batchsz"]),
               "inplace": bool(r["inplace"]), "dur": self._ticks(r["dur"]), "incl": bool(r["incl"]),
               "syn": r["syn"], "dtype": r["dtype"]}
        ncfg = {"dt": 0, "batchsz": 0}
        tens = 0
        if k in ("neuron", "layer"):
            n = self._neuron()
            ncfg = {"dt": self._ticks(n.dt), "batchsz": int(n.batchsz)}
            bs = {int(n.voltage.shape[0]), int(n.refrac.shape[0]), int(n.batchedshape[0])}
            tens = bs.pop() if len(bs) == 1 else BAD
        sizes = []
        holder = self.obj if k == "reducer" else (self._syn() if k != "neuron" else None)
        if holder is not None:
            for rec in records_of(holder):
                shp = rec.shape
                b = 0 if k == "reducer" else (int(shp[0]) if shp else BAD)
                sizes.append({"n": int(rec.recordsz), "b": b})
        return {"kind": k, "cfg": cfg, "ncfg": ncfg, "sizes": sizes, "tens": tens, "path": [dict(p) for p in self.path]}

    # ---------------------------------------------------------------- probe: same outputs as a fresh one
    def _drop_ad(self):
        """every other instance clears its neurons with keep_adaptations=False (where the class offers it): the learned
        adaptations are then reset too, and the cleared neuron must equal a freshly constructed one as it is"""
        import inspect
        if self.kind not in ("neuron", "layer") or self.seed % 2 == 0:
            return False
        return "keep_adaptations" in inspect.signature(type(self._neuron()).clear).parameters

    def _clear(self, o):
        if self.kind == "layer":          # components directly (Layer.clear is covered by C17)
            o.connection.clear()
            if self._drop_ad():
                o.neuron.clear(keep_adaptations=False)
            else:
                o.neuron.clear()
        elif self.kind == "neuron" and self._drop_ad():
            o.clear(keep_adaptations=False)
        elif self.kind == "reducer" and self.hdr.get("warm") == "ks":
            o.clear(keepshape=True)
        else:
            o.clear()

    def _fresh(self):
        r = self.reported()
        f = self._construct(r["dt"], r["delay"], r["batchsz"], r["inplace"], r["dur"], r["incl"], r["syn"], r["dtype"])
        if self.kind in ("connection", "layer"):
            a, b = self._conn(), self._conn(f)
            b.weight = a.weight.data.clone()
            b.bias = a.bias.data.clone()
            if a.delay is not None:
                b.delay = a.delay.data.clone()
        if self.kind in ("neuron", "layer"):
            # adaptations are learned state (kept by clear), not configuration
            a, b = self._neuron(), self._neuron(f)
            if hasattr(a, "threshold_adaptation") and not self._drop_ad():
                b.threshold_adaptation = a.threshold_adaptation.clone()
        return f

    def _observe(self, o, x, sel):
        """Everything a step shows through the public API (an exception is an observation too)."""
        k = self.kind
        out = {}

        def see(name, fn):
            try:
                out[name] = fn()
            except Exception as e:
                out[name] = "raised " + type(e).__name__

        if k == "neuron":
            see("out", lambda: o(x))
            see("voltage", lambda: o.voltage)
            see("refrac", lambda: o.refrac)
            see("spike", lambda: o.spike)
        elif k == "synapse":
            see("out", lambda: o(x))
            see("current", lambda: o.current)
            see("spike", lambda: o.spike)
            see("current_at", lambda: o.current_at(sel))
            see("spike_at", lambda: o.spike_at(sel))
        elif k == "connection":
            see("out", lambda: o(x))
            see("syncurrent", lambda: o.syncurrent)
            see("synspike", lambda: o.synspike)
        elif k == "layer":
            see("out", lambda: o(x))
            see("voltage", lambda: o.neuron.voltage)
            see("syncurrent", lambda: o.connection.syncurrent)
        else:
            if type(o).__name__.startswith("Conditional"):
                see("forward", lambda: o(x, x > 0.5))          # (observation, condition)
            else:
                see("forward", lambda: o(x))
            see("peek", lambda: o.peek())
            see("dump", lambda: o.dump())
            for j, t in enumerate(sel):
                see(f"view{j}", lambda t=t: o.view(t))
        return out

    def _probe(self):
        self.detail = None
        o = self.obj
        if self.kind in ("neuron", "layer"):
            # a few strongly driven steps first: adaptive neurons then carry LEARNED adaptations into the clear (kept by
            # clear(), dropped by clear(keep_adaptations=False))
            g0 = torch.Generator().manual_seed(self.seed + 17)
            r0 = self.reported()
            for _ in range(4):
                try:
                    if self.kind == "neuron":
                        o((torch.rand((int(r0["batchsz"]), *SHAPE), generator=g0) * 80).to(self._float_dtype()))
                    else:
                        o((torch.rand((int(r0["batchsz"]), *self._conn().inshape), generator=g0) < 0.8).to(self._float_dtype()))
                except Exception:
                    break
        self._clear(o)
        f = self._fresh()
        r = self.reported()
        ho = self.obj if self.kind == "reducer" else (self._syn() if self.kind != "neuron" else None)
        hf = f if self.kind == "reducer" else (self._syn(f) if self.kind != "neuron" else None)
        if ho is not None:
            so, sf = [x.recordsz for x in records_of(ho)], [x.recordsz for x in records_of(hf)]
            if so != sf:
                self.detail = {"step": -1, "field": "recordsz", "component": so, "fresh": sf,
                               "reported": {kk: vv for kk, vv in r.items()}}
                return {"t": "diff"}
        gen = torch.Generator().manual_seed(self.seed)
        fd = self._float_dtype()
        k = self.kind
        B = int(r["batchsz"]) if k != "reducer" else 2
        T = 7
        for t in range(T):
            if k == "neuron":
                x = (torch.rand((B, *SHAPE), generator=gen) * 40).to(fd)
                sel = None
            elif k == "synapse":
                x = (torch.rand((B, *SHAPE), generator=gen) < 0.5).to(fd)
                sel = (torch.rand((B, *SHAPE, 2), generator=gen) * (r["delay"] + r["dt"])).to(fd)
            elif k in ("connection", "layer"):
                ins = self._conn().inshape
                x = (torch.rand((B, *ins), generator=gen) < 0.5).to(fd)
                sel = None
            else:
                x = (torch.rand((2, 3), generator=gen) < 0.5).to(fd)
                n = max(records_of(o)[0].recordsz - 1, 0)
                sel = [0.0, r["dt"] * n, r["dt"] * n * 0.5]
            a, b = self._observe(o, x, sel), self._observe(f, x, sel)
            for key in a:
                if not _same(a[key], b[key]):
                    self.detail = {"step": t, "field": key, "component": _brief(a[key]), "fresh": _brief(b[key]),
                                   "reported": {kk: (vv if not isinstance(vv, float) else float(vv)) for kk, vv in r.items()}}
                    return {"t": "diff"}
        return {"t": "same"}


def _same(x, y):
    if isinstance(x, torch.Tensor) and isinstance(y, torch.Tensor):
        if x.shape != y.shape or x.dtype != y.dtype:
            return False
        if x.dtype.is_floating_point:
            return bool(torch.allclose(x, y, rtol=1e-5, atol=1e-6, equal_nan=True))
        return bool(torch.equal(x, y))
    return type(x) is type(y) and (x is None or x == y)


def _brief(x):
    if isinstance(x, torch.Tensor):
        return {"shape": list(x.shape), "dtype": str(x.dtype), "head": x.detach().reshape(-1)[:6].tolist()}
    return repr(x)


def unshaped_reconfigurable() -> bool:
    """Can a reducer that has not observed anything have its duration changed?  (C13, D5)"""
    try:
        r = make_reducer("PassthroughReducer", 1.0, 2.0, False, False)
        r.duration = 4.0
        r.dt = 0.5
        return True
    except RuntimeError:
        return False
