"""Adaptor between the connection-geometry specifications (spec/ConnGeom*.tla,
spec/LateralMaskMC.tla) and the real inferno connections.

`check_geometry(rec, ...)` builds the REAL connection for one geometry record printed by TLC
and compares forward / shapes / reshaping helpers with the relations contained in that record
(the oracle is the emitted relation; torch.nn.functional is never consulted here).
`LateralImpl` replays weight / delay / bias assignment histories on a real LinearLateral."""
from __future__ import annotations
import random
import numpy as np
from .core import setup_repo_path, MachineryFailure

setup_repo_path()
import torch  # noqa: E402

torch.set_num_threads(1)
from inferno.neural import (LinearDense, LinearDirect, LinearLateral, Conv2D, DeltaCurrent, DeltaPlusCurrent,  # noqa: E402
                            SingleExponentialCurrent, DoubleExponentialCurrent)
import math  # noqa: E402

SYNAPSES = ["DeltaCurrent", "DeltaPlusCurrent", "SingleExponentialCurrent", "DoubleExponentialCurrent"]


class SynModel:
    """The documented current of each shipped synapse as a function of its input history
    (float64): delta Q/dt * s; delta-plus Q/dt * s + injected; single exponential
    I <- I exp(-dt/tau) + (Q/tau) s; double exponential (pos <- pos exp(-dt/td) + k s) -
    (neg <- neg exp(-dt/tr) + k s) with k = Q/(td - tr).  Time constants follow the dyadic
    recipe tau = dt/ln 2 (decay 1/2), tr = dt/(2 ln 2) (decay 1/4)."""

    def __init__(self, name: str, dt: float, charge: float):
        self.name, self.dt, self.q = name, dt, charge
        self.tau = dt / math.log(2.0)
        self.tr = dt / (2.0 * math.log(2.0))
        self.a = self.b = None
        self.exact = name in ("DeltaCurrent", "DeltaPlusCurrent")

    def constructor(self):
        if self.name == "DeltaCurrent":
            return DeltaCurrent.partialconstructor(self.q)
        if self.name == "DeltaPlusCurrent":
            return DeltaPlusCurrent.partialconstructor(self.q)
        if self.name == "SingleExponentialCurrent":
            return SingleExponentialCurrent.partialconstructor(self.q, self.tau)
        return DoubleExponentialCurrent.partialconstructor(self.q, self.tau, self.tr)

    def step(self, spikes: np.ndarray, inj) -> np.ndarray:
        if self.name == "DeltaCurrent":
            return spikes * (self.q / self.dt)
        if self.name == "DeltaPlusCurrent":
            return spikes * (self.q / self.dt) + inj
        if self.name == "SingleExponentialCurrent":
            self.a = (0.0 if self.a is None else self.a * math.exp(-self.dt / self.tau)) + (self.q / self.tau) * spikes
            return self.a
        k = self.q / (self.tau - self.tr)
        self.a = (0.0 if self.a is None else self.a * math.exp(-self.dt / self.tau)) + k * spikes
        self.b = (0.0 if self.b is None else self.b * math.exp(-self.dt / self.tr)) + k * spikes
        return self.a - self.b

    def magnitude(self, cur) -> np.ndarray:
        """size of the float32 quantities the current is computed from (for the tolerance)"""
        if self.name == "DoubleExponentialCurrent":
            return np.abs(self.a) + np.abs(self.b)
        return np.abs(np.asarray(cur, dtype=np.float64))

SITE = {"dense": "LinearDense", "direct": "LinearDirect", "lateral": "LinearLateral", "conv": "Conv2D"}


def dyadic(rng: random.Random, shape, lo=-15, hi=15, den=16.0) -> torch.Tensor:
    n = int(np.prod(shape)) if len(shape) else 1
    vals = [rng.randint(lo, hi) / den for _ in range(n)]
    return torch.tensor(vals, dtype=torch.float32).reshape(tuple(shape))


def build(geom: dict, *, bias: bool, batch: int, dt: float, syn, W, b):
    kw = dict(synapse=syn, bias=bias, batch_size=batch, weight_init=(lambda w: W.clone()),
              bias_init=((lambda x: b.clone()) if bias else None))
    k = geom["kind"]
    if k == "dense":
        return LinearDense(tuple(geom["ins"]), tuple(geom["outs"]), dt, **kw)
    if k == "direct":
        return LinearDirect(tuple(geom["ins"]), dt, **kw)
    if k == "lateral":
        return LinearLateral(tuple(geom["ins"]), dt, **kw)
    if k == "conv":
        return Conv2D(geom["H"], geom["W"], geom["C"], geom["F"], dt, (geom["KH"], geom["KW"]),
                      stride=(geom["SH"], geom["SW"]), padding=(geom["PH"], geom["PW"]),
                      dilation=(geom["DH"], geom["DW"]), **kw)
    raise KeyError(k)


def _cols(rows, start, n):
    """columns start..start+n of a list of int rows as a tuple of index arrays"""
    a = np.asarray(rows, dtype=np.int64).reshape(len(rows), -1)
    return tuple(a[:, start + j] for j in range(n))


def expected_forward(rec: dict, cur: np.ndarray, W: np.ndarray, b):
    """sum over the emitted relation Contrib of W[w] * cur[i], plus the bias relation"""
    ro, ri, rw = len(rec["outshape"]), len(rec["inshape"]), len(rec["wshape"])
    B = cur.shape[0]
    out = np.zeros((B, *rec["outshape"]), dtype=np.float64)
    if rec["contrib"]:
        o = _cols(rec["contrib"], 0, ro)
        i = _cols(rec["contrib"], ro, ri)
        w = _cols(rec["contrib"], ro + ri, rw)
        for bi in range(B):
            np.add.at(out[bi], o, W[w] * cur[bi][i])
    if b is not None:
        o = _cols(rec["bias"], 0, ro)
        bb = _cols(rec["bias"], ro, len(rec["bshape"]))
        for bi in range(B):
            np.add.at(out[bi], o, b[bb])
    return out


def check_geometry(rec: dict, rng: random.Random, report, *, corrupt: str | None = None, index: int = 0,
                   steps: int = 4) -> int:
    """Runs every comparison for one emitted geometry; calls report(clause, detail) for each
    disagreement; returns the number of comparisons made.  `corrupt` (canary) damages the
    emitted relation first."""
    geom = rec["geom"]
    kind = geom["kind"]
    rec = dict(rec)
    if corrupt == "drop" and rec["contrib"]:
        rec["contrib"] = rec["contrib"][1:]
    elif corrupt == "swap" and len(rec["contrib"]) >= 2:
        ro, ri = len(rec["outshape"]), len(rec["inshape"])
        c = [list(t) for t in rec["contrib"]]
        j = next((j for j in range(1, len(c)) if c[j][ro + ri:] != c[0][ro + ri:]), None)
        if j is not None:
            c[0][ro + ri:], c[j][ro + ri:] = c[j][ro + ri:], c[0][ro + ri:]
        rec["contrib"] = c
    n = 0
    bias = rng.random() < 0.6
    B = rng.choice([1, 2, 3])
    dt = rng.choice([1.0, 0.5, 2.0])
    charge = rng.choice([1.0, 0.5, 2.0, -1.0])
    model = SynModel(SYNAPSES[index % 4], dt, charge)          # all four shipped synapse classes in turn
    plus = model.name == "DeltaPlusCurrent"
    W = dyadic(rng, rec["wshape"])
    b = dyadic(rng, rec["bshape"]) if bias else None
    cfg = {"bias": bias, "batch": B, "dt": dt, "charge": charge, "synapse": model.name}
    try:
        conn = build(geom, bias=bias, batch=B, dt=dt, syn=model.constructor(), W=W, b=b)
    except Exception as ex:
        report("Construct", {"raised": type(ex).__name__, "msg": str(ex)[:200], "cfg": cfg})
        return 1
    f64 = corrupt is None and index % 5 == 3
    if f64:
        # every fifth geometry on a connection moved to double precision (Module.double()): the same linear map
        conn = conn.double()
        cfg["float64"] = True
    Wa = W.numpy().astype(np.float64)
    if kind == "lateral":
        # the oracle uses the ASSIGNED matrix: the relation itself leaves the diagonal out
        pass
    ba = b.numpy().astype(np.float64) if bias else None

    def claim(name, got, want):
        nonlocal n
        n += 1
        if tuple(got) != tuple(want):
            report("Shape:" + name, {"observed": list(got), "specified": list(want), "cfg": cfg})

    # ---- advertised shapes
    claim("inshape", conn.inshape, rec["inshape"])
    claim("outshape", conn.outshape, rec["outshape"])
    claim("batched_inshape", conn.batched_inshape, [B] + rec["inshape"])
    claim("batched_outshape", conn.batched_outshape, [B] + rec["outshape"])
    claim("weight", conn.weight.shape, rec["wshape"])
    if bias:
        claim("bias", conn.bias.shape, rec["bshape"])
    claim("synapse", conn.synapse.shape, rec["synshape"])

    # ---- forward = the emitted linear map of the synapse's documented current, over several
    # consecutive steps; after every step the synapse's own state must be what the synapse computed
    # (the connection's forward must not write into it)
    syn = np.asarray(rec["syn"], dtype=np.int64).reshape(-1, 3)
    src = syn[:, 2]

    def synaptic(a):            # input layout (B, ...) -> synaptic layout (B, *synshape) via the emitted map
        flat = a.reshape(B, -1)
        out = np.zeros((B, rec["synshape"][0], max(1, int(np.prod(rec["synshape"][1:])))), dtype=np.float64)
        out[:, syn[:, 0], syn[:, 1]] = np.where(src[None, :] >= 0, flat[:, np.maximum(src, 0)], 0.0)
        return out.reshape(B, *rec["synshape"])

    def same(got, want, scale):
        """exact for the dyadic (delta) synapses; otherwise float32 rounding relative to the size of
        the terms that were summed (not of the possibly cancelling result)"""
        if model.exact:
            return np.array_equal(got, want)
        return got.shape == want.shape and bool(np.all(np.abs(got - want) <= 1e-5 * scale + 1e-6))

    for trial in range(steps):
        spikes = (torch.rand(B, *rec["inshape"], generator=_tgen(rng)) < (0.5 if trial else 1.1)).float()
        if f64:
            spikes = spikes.double()
        inputs = [spikes]
        inj = 0.0
        if plus:
            injt = dyadic(rng, [B] + rec["inshape"], -8, 8, 4.0)
            if f64:
                injt = injt.double()
            inputs.append(injt)
            inj = injt.numpy().astype(np.float64)
        cur = model.step(spikes.numpy().astype(np.float64), inj)
        n += 1
        try:
            out = conn(*inputs)
        except Exception as ex:
            report("Forward", {"raised": type(ex).__name__, "msg": str(ex)[:200], "cfg": cfg, "step": trial})
            break
        if tuple(out.shape) != (B, *rec["outshape"]):
            report("Shape:forward", {"observed": list(out.shape), "specified": [B] + rec["outshape"], "cfg": cfg})
            break
        want = expected_forward(rec, cur, Wa, ba)
        mag = model.magnitude(cur)
        scale = expected_forward(rec, mag, np.abs(Wa), None if ba is None else np.abs(ba))
        got = out.detach().numpy().astype(np.float64)
        if not same(got, want, scale):
            bad = np.argwhere((np.abs(got - want) > 1e-5 * scale + 1e-6) if not model.exact else got != want)[0].tolist()
            report("Forward", {"step": trial, "first_differing_output": bad, "observed": float(got[tuple(bad)]),
                               "specified": float(want[tuple(bad)]), "cfg": cfg,
                               "weight": W.reshape(-1).tolist(), "bias": b.tolist() if bias else None,
                               "current": np.asarray(cur).reshape(-1).tolist()})
            break
        # the synapse's observable state after the connection's forward
        n += 1
        wsyn = synaptic(np.asarray(cur))
        msyn = synaptic(mag)
        wspk = synaptic(spikes.numpy().astype(np.float64)) != 0
        try:
            obs = {"synapse.current": conn.synapse.current, "syncurrent": conn.syncurrent,
                   "synapse.spike": conn.synapse.spike, "synspike": conn.synspike}
        except Exception as ex:
            report("SynapseStateIntact", {"raised": type(ex).__name__, "cfg": cfg, "step": trial})
            break
        broken = None
        for name, val in obs.items():
            v = val.detach().numpy()
            w_ = wspk if "spike" in name else wsyn
            if v.shape != w_.shape or not (np.array_equal(v.astype(bool), w_) if "spike" in name else same(v.astype(np.float64), w_, msyn)):
                broken = (name, v, w_)
                break
        if broken:
            report("SynapseStateIntact", {"step": trial, "attribute": broken[0], "cfg": cfg,
                                          "observed": np.asarray(broken[1], dtype=np.float64).reshape(-1).tolist()[:24],
                                          "specified": np.asarray(broken[2], dtype=np.float64).reshape(-1).tolist()[:24]})
            break

    # ---- synaptic layout, round trip, receptive views on token tensors
    xt = (torch.arange(B * int(np.prod(rec["inshape"])), dtype=torch.float32) + 1).reshape(B, *rec["inshape"])
    n += 1
    try:
        ls = conn.like_synaptic(xt)
        if tuple(ls.shape) != (B, *rec["synshape"]):
            report("Shape:like_synaptic", {"observed": list(ls.shape), "specified": [B] + rec["synshape"], "cfg": cfg})
        else:
            lsn = ls.numpy().reshape(B, rec["synshape"][0], -1)
            xf = xt.numpy().reshape(B, -1)
            want = np.where(src[None, :] >= 0, xf[:, np.maximum(src, 0)], 0.0)
            got = lsn[:, syn[:, 0], syn[:, 1]]
            if not np.array_equal(got, want) or lsn.shape[1] * lsn.shape[2] != len(syn):
                report("LikeSynaptic", {"cfg": cfg, "observed": got[0].tolist()[:40], "specified": want[0].tolist()[:40]})
        n += 1
        rt = conn.like_input(ls)
        if tuple(rt.shape) != (B, *rec["inshape"]):
            report("Shape:like_input", {"observed": list(rt.shape), "specified": [B] + rec["inshape"], "cfg": cfg})
        else:
            cov = np.unique(syn[syn[:, 2] >= 0, 2])
            got = rt.numpy().reshape(B, -1)[:, cov]
            want = xt.numpy().reshape(B, -1)[:, cov]
            if not np.array_equal(got, want):
                report("RoundTrip", {"cfg": cfg, "covered": cov.tolist(), "observed": got[0].tolist()[:40],
                                     "specified": want[0].tolist()[:40]})
    except Exception as ex:
        report("LikeSynaptic", {"raised": type(ex).__name__, "msg": str(ex)[:200], "cfg": cfg})
    # the same round trip on spike counts and spikes: integer and boolean inputs ("for all input tensors")
    nin = B * int(np.prod(rec["inshape"]))
    for dt_ in (torch.int64, torch.uint8, torch.int32, torch.bool, torch.float64):
        if dt_ == torch.bool:
            xd = ((torch.arange(nin) % 3) != 1).reshape(B, *rec["inshape"])
        else:
            xd = ((torch.arange(nin) % 97) + 1).to(dt_).reshape(B, *rec["inshape"])
        n += 1
        try:
            rt = conn.like_input(conn.like_synaptic(xd))
            cov = np.unique(syn[syn[:, 2] >= 0, 2])
            got = rt.to(torch.float64).numpy().reshape(B, -1)[:, cov]
            want = xd.to(torch.float64).numpy().reshape(B, -1)[:, cov]
            if tuple(rt.shape) != (B, *rec["inshape"]) or not np.array_equal(got, want):
                report("RoundTrip", {"cfg": cfg, "dtype": str(dt_), "covered": cov.tolist()[:40], "observed": got[0].tolist()[:40],
                                     "specified": want[0].tolist()[:40]})
                break
        except Exception as ex:
            report("RoundTrip", {"raised": type(ex).__name__, "msg": str(ex)[:200], "cfg": cfg, "dtype": str(dt_)})
            break

    def view(name, fn, dshape, rshape, pairs):
        nonlocal n
        n += 1
        d = (torch.arange(B * int(np.prod(dshape)), dtype=torch.float32) + 1).reshape(B, *dshape)
        try:
            r = fn(d)
        except Exception as ex:
            report(name, {"raised": type(ex).__name__, "msg": str(ex)[:200], "cfg": cfg, "data_shape": [B] + dshape})
            return
        if tuple(r.shape) != (B, *rshape):
            report("Shape:" + name, {"observed": list(r.shape), "specified": [B] + list(rshape), "cfg": cfg})
            return
        p = np.asarray(pairs, dtype=np.int64).reshape(-1, 2)
        got = r.numpy().reshape(B, -1)[:, p[:, 0]]
        want = d.numpy().reshape(B, -1)[:, p[:, 1]]
        if not np.array_equal(got, want):
            report(name, {"cfg": cfg, "observed": got[0].tolist()[:40], "specified": want[0].tolist()[:40]})

    view("PreReceptive", conn.presyn_receptive, rec["pre0data"], rec["pre0shape"], rec["pre0"])
    view("PreReceptive+out", conn.presyn_receptive, rec["pre1data"], rec["pre1shape"], rec["pre1"])
    view("PostReceptive", conn.postsyn_receptive, rec["outshape"], rec["postshape"], rec["post"])
    # like_bias: the reduced postsynaptic receptive view, in the layout of the bias (used by bias-learning trainers)
    if "biasdata" in rec:
        n += 1
        bd = [int(x) for x in rec["biasdata"]]
        d = (torch.arange(int(np.prod(bd)), dtype=torch.float32) + 1).reshape(bd)
        try:
            r = conn.like_bias(d)
            if tuple(r.shape) != tuple(rec["bshape"]):
                report("Shape:like_bias", {"observed": list(r.shape), "specified": list(rec["bshape"]), "cfg": cfg})
            elif not np.array_equal(r.numpy().reshape(-1), d.numpy().reshape(-1)):
                report("LikeBias", {"cfg": cfg, "observed": r.reshape(-1).tolist()[:40], "specified": d.reshape(-1).tolist()[:40]})
        except Exception as ex:
            report("LikeBias", {"raised": type(ex).__name__, "msg": str(ex)[:200], "cfg": cfg, "data_shape": bd})
    return n


def _tgen(rng):
    g = torch.Generator()
    g.manual_seed(rng.randrange(1 << 30))
    return g


# --------------------------------------------------------------------------- LateralMask
class LateralImpl:
    """hdr: {N, initw, initd}; state projected as {w, d, b} integer matrices"""

    def __init__(self, hdr: dict):
        self.N = N = int(hdr["N"])
        self.hdr = hdr
        tok = torch.arange(1, N * N + 1, dtype=torch.float32).reshape(N, N)
        named = {"tok": tok, "ones": torch.ones(N, N), "diag": 2 * torch.eye(N)}
        shape = (N,) if not hdr.get("shape2") or N % 2 else (N // 2, 2)
        # initialisers either return a fresh tensor or (as torch.nn.init.* do) fill their argument IN PLACE and
        # return it: the constructor must mask the result either way
        if hdr.get("inplace_init"):
            winit = lambda w: w.copy_(named[hdr["initw"]].reshape(w.shape))      # noqa: E731
            dinit = lambda d: d.copy_(named[hdr["initd"]].reshape(d.shape))      # noqa: E731
        else:
            winit = lambda w: named[hdr["initw"]].clone()                        # noqa: E731
            dinit = lambda d: named[hdr["initd"]].clone()                        # noqa: E731
        self.conn = LinearLateral(shape, 1.0, synapse=DeltaCurrent.partialconstructor(1.0), bias=True,
                                  delay=float(hdr.get("maxdelay", 8.0)), batch_size=1,
                                  weight_init=winit, delay_init=dinit,
                                  bias_init=lambda b: torch.arange(1, N + 1, dtype=torch.float32))
        self.conn.updater = self.conn.defaultupdater()

    @staticmethod
    def _m(rows):
        return torch.tensor(rows, dtype=torch.float32)

    def apply(self, op: dict):
        a, c = op["a"], self.conn
        try:
            if a == "set_weight":
                c.weight = self._m(op["m"])
            elif a == "set_delay":
                c.delay = self._m(op["m"])
            elif a == "set_bias":
                c.bias = self._m(op["v"])
            elif a == "iadd_weight":
                c.weight += float(op["k"])
            elif a == "iadd_delay":
                c.delay += float(op["k"])
            elif a in ("upd_weight", "upd_delay"):
                acc = c.updater.weight if a == "upd_weight" else c.updater.delay
                acc.pos = self._m(op["p"])
                if any(any(x != 0 for x in row) for row in op["n"]):
                    acc.neg = self._m(op["n"])
                c.update()
            elif a == "upd_all":
                c.updater.weight = self._m(op["p"])
                c.updater.delay = self._m(op["p"])
                c.updater.bias = self._m(op["v"])
                c.update()
            else:
                raise KeyError(a)
        except Exception as ex:
            return {"t": "err", "e": type(ex).__name__}
        return {"t": "ok"}

    def project(self):
        def ints(t):
            a = t.detach().numpy()
            if not np.array_equal(a, np.round(a)):
                raise MachineryFailure(f"projection: non-integer parameter value {a}")
            return a.astype(int).tolist()
        c = self.conn
        return {"w": ints(c.weight), "d": ints(c.delay), "b": ints(c.bias)}
