"""Adaptor between the ConstraintsCore specification vocabulary and the real
inferno.core.infrastructure.ShapedTensor (constraint bookkeeping part of C13).

Elements are provenance tokens: the tensor handed to `value = ...` holds, at multi-index
idx, the number 1 + sum idx[k] * 8**k (exact in float32); zero is what a resize fills in.
The state is observed through the public API only: .constraints, .value, .ignored,
.valid, .dimensionality, .strict, .live."""
from __future__ import annotations
import itertools
from .core import setup_repo_path

setup_repo_path()
import torch  # noqa: E402
from torch import nn  # noqa: E402
from inferno.core.infrastructure import Module, ShapedTensor  # noqa: E402

torch.set_num_threads(1)


def fresh(shape) -> torch.Tensor:
    """Tensor of the given shape whose elements are the tokens of their own multi-index."""
    shape = tuple(int(x) for x in shape)
    t = torch.ones(shape, dtype=torch.float32)
    for k, n in enumerate(shape):
        view = [1] * len(shape)
        view[k] = n
        t = t + (torch.arange(n, dtype=torch.float32) * float(8 ** k)).reshape(view)
    return t


def tokens(t) -> list:
    out = []
    for x in t.detach().reshape(-1).tolist():
        r = round(float(x))
        out.append(int(r) if abs(float(x) - r) < 1e-6 else -777)
    return out


BUF_IGN = ("none", "empty", "ubuf")
PAR_IGN = ("pempty", "uparam")


def ignored_value(sub: str):
    if sub == "none":
        return None
    if sub == "empty":
        return torch.empty(0)
    if sub == "ubuf":
        return nn.UninitializedBuffer()
    if sub == "pempty":
        return nn.Parameter(torch.empty(0), requires_grad=False)
    if sub == "uparam":
        return nn.UninitializedParameter(requires_grad=False)
    raise KeyError(sub)


class ConstraintsImpl:
    """A real ShapedTensor on a real Module.

    hdr: wd (dims -wd..wd-1 are representable), strict, live, param (nn.Parameter storage),
         ign0 (which ignored value the attribute is created with), ignseq (offset into the
         cycle of ignored values used by assign_ign)"""

    def __init__(self, hdr: dict):
        self.hdr = dict(hdr)
        self.wd = int(hdr.get("wd", 3))
        self.param = bool(hdr.get("param", False))
        self.subs = PAR_IGN if self.param else BUF_IGN
        self.k = int(hdr.get("ignseq", 0))
        sub0 = hdr.get("ign0") or self.subs[self.k % len(self.subs)]
        self.owner = Module()          # the attribute only holds a weak reference: keep it alive
        ShapedTensor.create(self.owner, "x", ignored_value(sub0), None,
                            strict=bool(hdr.get("strict", True)), live=bool(hdr.get("live", False)))
        self.st = self.owner.x
        self.last_sub = sub0

    # ---- operations
    def apply(self, op: dict) -> dict:
        a = op["a"]
        try:
            if a == "recon":
                self.st.reconstrain(int(op["dim"]), None if op["size"] == -1 else int(op["size"]))
                return {"t": "ok"}
            if a == "assign":
                t = fresh(op["shape"])
                cur = self.st.value
                if self.param and isinstance(cur, nn.UninitializedParameter):
                    # an uninitialised parameter is materialised by assigning a parameter
                    self.st.value = nn.Parameter(t, requires_grad=False)
                elif self.param and self.k % 2 == 1:
                    self.k += 1
                    self.st.value = nn.Parameter(t, requires_grad=False)
                else:
                    self.k += 1
                    self.st.value = t           # parameter storage: goes to .data
                return {"t": "ok"}
            if a == "assign_ign":
                self.k += 1
                sub = self.subs[self.k % len(self.subs)]
                self.st.value = ignored_value(sub)
                self.last_sub = sub
                return {"t": "ok"}
            if a == "compatible":
                return {"t": "bool", "b": bool(self.st.compatible(torch.zeros(tuple(op["shape"]))))}
            if a == "set_strict":
                self.st.strict = bool(op["b"])
                return {"t": "ok"}
            if a == "set_live":
                self.st.live = bool(op["b"])
                return {"t": "ok"}
        except (ValueError, RuntimeError) as e:
            return {"t": "err", "e": type(e).__name__}
        except Exception as e:  # any other class is reported as it is (and will not match)
            return {"t": "err", "e": type(e).__name__}
        raise KeyError(a)

    # ---- projection
    def project(self) -> dict:
        st = self.st
        v = st.value
        cons = [-1] * (2 * self.wd)
        for d, s in st.constraints.items():
            if -self.wd <= d < self.wd:
                cons[d + self.wd] = int(s)
            else:
                cons.append(int(d))     # not representable: guaranteed mismatch
        if st.ignored:
            kind, shape, data = "ign", [], []
        else:
            kind, shape, data = "ready", [int(x) for x in v.shape], tokens(v)
        # an observation that raises is reported as such (never equal to a specified value)
        try:
            valid = bool(st.valid)
        except Exception as e:
            valid = "raised:" + type(e).__name__
        try:
            ndim = int(st.dimensionality)
        except Exception as e:
            ndim = "raised:" + type(e).__name__
        return {"kind": kind, "shape": shape, "data": data, "cons": cons, "strict": bool(st.strict),
                "live": bool(st.live), "valid": valid, "ndim": ndim}

    def storage(self) -> str:
        v = self.st.value
        return "None" if v is None else type(v).__name__
