"""Adaptor between the DelayShiftCore specification vocabulary and the real inferno connections
(LinearDense, LinearDirect, LinearLateral, Conv2D) composed with the four shipped synapses."""
from __future__ import annotations
import math
from .core import setup_repo_path
from . import symeval
from .impl_synapse import SynParams, SynMatcher, CLASS as SYN_CLASS, synapse_kwargs, _flat, _bits

setup_repo_path()
import torch  # noqa: E402
from inferno import neural  # noqa: E402

torch.set_num_threads(1)

CONN_CLASS = {"dense": "LinearDense", "direct": "LinearDirect", "lateral": "LinearLateral", "conv": "Conv2D"}
GEO_OF = {"dense": "full", "conv": "full", "lateral": "full", "direct": "diag"}


def partial_synapse(cf: dict, P: SynParams, inplace=False):
    kw = synapse_kwargs(cf, P, inplace)
    kw.pop("delay")
    return getattr(neural, SYN_CLASS[cf["sk"]]).partialconstructor(**kw)


def build_connection(ctype, I, O, cf, P, W, b, dticks, delayed, batch=1, inplace=False):
    """W[o][i], b[o] (or None), dticks[o][i] in ticks; `delayed`: pass a delay argument at all"""
    syn = partial_synapse(cf, P, inplace)
    delay = cf["dly"] * P.tick if delayed else None
    Wt = torch.tensor(W, dtype=torch.float32)
    Dt = torch.tensor(dticks, dtype=torch.float32) * P.tick
    bt = None if b is None else torch.tensor(b, dtype=torch.float32)
    common = dict(synapse=syn, bias=b is not None, delay=delay, batch_size=batch)
    if ctype == "dense":
        return neural.LinearDense(I, O, P.dt, weight_init=lambda w: Wt.clone(), bias_init=lambda x: bt.clone(),
                                  delay_init=lambda x: Dt.clone(), **common)
    if ctype == "lateral":
        return neural.LinearLateral(I, P.dt, weight_init=lambda w: Wt.clone(), bias_init=lambda x: bt.clone(),
                                    delay_init=lambda x: Dt.clone(), **common)
    if ctype == "direct":
        return neural.LinearDirect(I, P.dt, weight_init=lambda w: torch.diagonal(Wt).clone(),
                                   bias_init=lambda x: bt.clone(), delay_init=lambda x: torch.diagonal(Dt).clone(),
                                   **common)
    if ctype == "conv":
        # one output location whose receptive field is the whole 1 x I image: N = I, L = 1, F = O
        return neural.Conv2D(1, I, 1, O, P.dt, (1, I), weight_init=lambda w: Wt.reshape(O, 1, 1, I).clone(),
                             bias_init=lambda x: bt.clone(), delay_init=lambda x: Dt.reshape(O, 1, 1, I).clone(),
                             **common)
    raise KeyError(ctype)


class ConnImpl:
    def __init__(self, hdr: dict):
        self.hdr = hdr
        self.ctype = hdr["ctype"]
        self.cf, self.P = hdr["cf"], hdr["params"]
        self.I, self.O = hdr["I"], hdr["O"]
        self.W, self.b = hdr["W"], hdr["b"]
        self.delayed = hdr["delayed"]
        d = [[0] * self.I for _ in range(self.O)]
        for r in hdr["d"]:
            d[r["o"] - 1][r["i"] - 1] = r["d"]
        self.pairs = [(r["o"], r["i"]) for r in hdr["d"]]
        self.conn = build_connection(self.ctype, self.I, self.O, self.cf, self.P, self.W, self.b, d, self.delayed,
                                     inplace=bool(hdr.get("inplace", False)))
        self.boolin = bool(hdr.get("boolin", False))

    def apply(self, o):
        try:
            return self._apply(o)
        except (RuntimeError, ValueError, TypeError, IndexError, AttributeError, AssertionError) as e:
            return {"t": "err", "e": type(e).__name__}

    def _input(self, v):
        x = torch.tensor([z["s"] for z in v], dtype=torch.bool if self.boolin else torch.float32)
        return x.reshape(1, 1, 1, self.I) if self.ctype == "conv" else x.reshape(1, self.I)

    def _pairs(self, t, bits):
        """tensor of synaptic values -> {(o, i): value}"""
        conv = (_bits if bits else _flat)
        out = {}
        for (o, i) in self.pairs:
            if t.ndim == 2 or (self.ctype == "conv" and t.ndim == 3):      # undelayed: B x I (conv: B x N x L)
                x = t[0, i - 1, 0] if self.ctype == "conv" else t[0, i - 1]
            elif self.ctype == "conv":                                      # B x N x L x F
                x = t[0, i - 1, 0, o - 1]
            elif self.ctype == "direct":                                    # B x N x 1
                x = t[0, i - 1, 0]
            else:                                                           # B x I x O
                x = t[0, i - 1, o - 1]
            out[f"{o},{i}"] = conv(x)[0]
        return out

    def _apply(self, o):
        c, a = self.conn, o["a"]
        if a == "step":
            r = c(self._input(o["v"]))
            return {"t": "out", "o": _flat(r)}
        if a == "clear":
            c.clear()
            return {"t": "ok"}
        if a == "syncurrent":
            return {"t": "syn", "p": self._pairs(c.syncurrent, False)}
        if a == "synspike":
            t = c.synspike
            if t.dtype != torch.bool:
                return {"t": "err", "e": f"dtype:{t.dtype}"}
            return {"t": "syn", "p": self._pairs(t, True)}
        raise KeyError(a)

    def project(self):
        s, sk = self.conn.synapse, self.cf["sk"]

        def ring(rec, bits):
            v = rec.value.reshape(rec.value.shape[0], -1)
            return {"n": int(rec.recordsz), "ptr": int(rec.pointer),
                    "store": [(_bits if bits else _flat)(v[i]) for i in range(v.shape[0])]}
        st = {"spk": ring(s.spike_, True)}
        if sk in ("dplus", "sexp"):
            st["c1"] = ring(s.current_, False)
        if sk == "dexp":
            st["c1"], st["c2"] = ring(s.pos_current_, False), ring(s.neg_current_, False)
        return st


class ConnMatcher:
    def __init__(self, P: SynParams, W, b):
        self.P, self.W, self.b = P, W, b
        self.syn = SynMatcher(P)

    def ret(self, exp, got):
        if exp.get("t") != got.get("t"):
            return f"return {got} instead of kind {exp.get('t')}"
        if exp["t"] == "out":
            O = len(self.W)
            tot, mag = [0.0] * O, [0.0] * O
            for r in exp["c"]:
                x, m = self.P.value(r["v"])
                w = self.W[r["o"] - 1][r["i"] - 1]
                tot[r["o"] - 1] += w * x
                mag[r["o"] - 1] += abs(w) * m
            for o in range(O):
                e = tot[o] + (self.b[o] if self.b is not None else 0.0)
                if not symeval.close(e, got["o"][o], mag[o] + abs(e)):
                    return f"output[{o}]: observed {got['o'][o]!r}, expected {e!r}"
            return None if len(got["o"]) == O else f"{len(got['o'])} outputs, expected {O}"
        if exp["t"] == "syn":
            for r in exp["c"]:
                g = got["p"].get(f"{r['o']},{r['i']}")
                if isinstance(r["v"], list):
                    x, m = self.P.value(r["v"])
                    if g is None or not symeval.close(x, g, m):
                        return f"syncurrent[o={r['o']},i={r['i']}]: observed {g!r}, expected {x!r}"
                elif g != r["v"]:
                    return f"synspike[o={r['o']},i={r['i']}]: observed {g!r}, expected {r['v']!r}"
        return None

    def state(self, exp, got):
        return self.syn.state({"m": exp["c"]["syn"]}, got)
