"""Adaptor between the Encoder specifications (spec/Encoder*.tla) and the real inferno
encoders.  Builds the REAL encoder objects, applies operations through the public API only
and projects the configuration back to the specification's record
[kind, S, D, r, derive, M, comp] (times in ticks of `tick` milliseconds)."""
from __future__ import annotations
import math
from .core import setup_repo_path, MachineryFailure

setup_repo_path()
import torch  # noqa: E402

torch.set_num_threads(1)
from inferno.neural import (HomogeneousPoissonEncoder, HomogeneousPoissonApproxEncoder,  # noqa: E402
                            PoissonIntervalEncoder)

CLASSES = {"exp": HomogeneousPoissonEncoder, "bern": HomogeneousPoissonApproxEncoder,
           "pint": PoissonIntervalEncoder}
SITE = {"exp": "HomogeneousPoissonEncoder", "bern": "HomogeneousPoissonApproxEncoder",
        "pint": "PoissonIntervalEncoder"}


def _near_int(x: float, what: str) -> int:
    k = round(x)
    if abs(x - k) > 1e-6 * max(1.0, abs(x)):
        raise MachineryFailure(f"projection: {what} = {x} is not a whole number of ticks")
    return int(k)


class EncoderImpl:
    """hdr: {kind, S, D, r (-1: None), M, comp, tick, seed}"""

    def __init__(self, hdr: dict, with_gen: bool = False):
        self.hdr = dict(hdr)
        self.kind = hdr["kind"]
        self.tick = float(hdr["tick"])
        self.with_gen = with_gen
        self.gen = torch.Generator().manual_seed(int(hdr.get("seed", 0)))
        self.gen_ids: dict[bytes, int] = {}
        self.gen_states: dict[int, torch.Tensor] = {}
        self.inputs: list[torch.Tensor] = []
        self.broken = False
        kw = dict(generator=self.gen)
        freq = self.freq_of(hdr["M"])
        if self.kind == "exp":
            kw["refrac"] = None if hdr["r"] == -1 else hdr["r"] * self.tick
            kw["compensate"] = bool(hdr["comp"])
        self.enc = CLASSES[self.kind](int(hdr["S"]), hdr["D"] * self.tick, freq, **kw)

    # ---- unit conversions
    def freq_of(self, M: int) -> float:
        return 1000.0 / (M * self.tick)

    def gen_id(self) -> int:
        state = self.gen.get_state()
        key = bytes(state.numpy().tobytes())
        if key not in self.gen_ids:
            self.gen_ids[key] = len(self.gen_ids) + 1
            self.gen_states[self.gen_ids[key]] = state.clone()
        return self.gen_ids[key]

    # ---- projection (public API only)
    def cfg(self) -> dict:
        e = self.enc
        D = _near_int(e.dt / self.tick, "dt")
        f = e.frequency
        M = _near_int(1000.0 / (f * self.tick), "1000/frequency") if f > 0 else 0
        out = {"kind": self.kind, "S": int(e.steps), "D": D, "r": 0, "derive": False, "M": M, "comp": False}
        if self.kind == "exp":
            out["r"] = _near_int(e.refrac / self.tick, "refrac")
            out["comp"] = bool(e.compensated)
            # "refrac is pinned to dt" is observed through the public dt setter: move dt, look
            # whether refrac follows, move it back
            dt0, r0 = e.dt, e.refrac
            e.dt = dt0 * 1.37
            out["derive"] = bool(e.refrac != r0)
            e.dt = dt0
            if e.dt != dt0 or (e.refrac != r0 and not out["derive"]):
                raise MachineryFailure("projection: dt probe did not restore the configuration")
            if e.refrac != r0:
                # pinned to dt although it was not equal to dt: a half-applied setter; the
                # observation (old refrac, pinned) is reported, the object is not used further
                self.broken = True
        return out

    def project(self):
        if self.with_gen:
            return {"cfg": self.cfg(), "gen": self.gen_id()}
        return self.cfg()

    # ---- operations
    def add_input(self, x: torch.Tensor) -> int:
        self.inputs.append(x)
        return len(self.inputs)

    def apply(self, op: dict):
        a = op["a"]
        e = self.enc
        try:
            if a == "set_steps":
                e.steps = op["n"]
            elif a == "set_dt":
                e.dt = op["D"] * self.tick
            elif a == "set_refrac":
                e.refrac = None if op["r"] == -1 else op["r"] * self.tick
            elif a == "set_freq":
                e.frequency = -1.0 if op["M"] == -1 else self.freq_of(op["M"])
            elif a == "set_comp":
                e.compensated = op["b"]
            elif a == "restore_gen":
                self.gen.set_state(self.gen_states[op["g"]])
            elif a == "encode":
                return self.encode(op)
            else:
                raise KeyError(a)
        except MachineryFailure:
            raise
        except Exception as ex:  # the class is part of the observable outcome
            return {"t": "err", "e": type(ex).__name__}
        return {"t": "ok"}

    def encode(self, op: dict):
        x = self.inputs[op["xid"] - 1]
        xin = x.clone()
        try:
            if op["online"]:
                slices = list(self.enc(xin, online=True))
                n = len(slices)
                shapes = {tuple(s.shape) for s in slices}
                dtys = {str(s.dtype) for s in slices}
                if len(shapes) != 1 or len(dtys) != 1:
                    return {"t": "ras", "n": n, "shape": [-1], "dty": "mixed", "r": []}
                out = torch.stack([s.clone() for s in slices], 0)
                shape = list(shapes.pop())
                dty = dtys.pop()
            else:
                out = self.enc(xin)
                n = int(out.shape[0]) if out.ndim >= 1 else -1
                shape = list(out.shape[1:])
                dty = str(out.dtype)
        except Exception as ex:
            return {"t": "err", "e": type(ex).__name__}
        if not torch.equal(xin, x):
            return {"t": "err", "e": "InputMutated"}
        dty = "bool" if dty == "torch.bool" else dty
        if shape != list(x.shape) or n < 1:
            return {"t": "ras", "n": n, "shape": shape, "dty": dty, "r": []}
        flat = out.reshape(n, -1).to(torch.int64)
        r = [[int(v) for v in flat[:, i].tolist()] for i in range(flat.shape[1])]
        return {"t": "ras", "n": n, "shape": shape, "dty": dty, "r": r}

    # ---- intensity classes (the specification's vocabulary for an input element)
    def classes(self, x: torch.Tensor) -> list[str]:
        out = []
        f = float(self.enc.frequency)
        dt = float(self.enc.dt)
        for v in x.reshape(-1).tolist():
            if v == 0.0:
                out.append("zero")
            elif self.kind == "pint":
                # expected interval in steps 1000 / (f x dt); beyond 1e9 steps a Poisson variate with
                # that mean exceeds every horizon (probability of the contrary < exp(-1e8))
                out.append("tiny" if f * float(v) * dt < 1e-6 else "pos")
            elif self.kind != "bern":
                out.append("pos")
            else:
                p = f * float(v) * dt / 1000.0
                out.append("near" if abs(p - 1.0) < 1e-4 else ("one" if p > 1.0 else "frac"))
        return out


class _InhomShim:
    """inferno.neural.functional.inhomogeneous_poisson_bernoulli_approx behind the interface of an encoder with ONE step:
    the rates tensor S x ... is given whole, every (step, element) is an independent Bernoulli draw, and the result
    S x ... is presented as a single step over S * ... elements."""

    def __init__(self, dt: float, frequency: float, generator):
        self.steps, self.dt, self.frequency, self.generator = 1, dt, frequency, generator

    def __call__(self, x, online=False):
        from inferno.neural.functional import inhomogeneous_poisson_bernoulli_approx as fn
        rates = x * self.frequency                      # intensities in [0, 1+] -> rates in Hz, per step and element
        out = fn(rates, self.dt, generator=self.generator)
        if tuple(out.shape) != tuple(x.shape):
            return out                                   # reported as a shape deviation by EncoderImpl.encode
        if online:
            return iter([out])
        return out.unsqueeze(0)


class InhomImpl(EncoderImpl):
    """hdr: {kind: "bern", S: 1, D, M, tick, seed}; no setters (a function has no configuration to drift)."""

    def __init__(self, hdr: dict, with_gen: bool = True):
        self.hdr = dict(hdr)
        self.kind = "bern"
        self.tick = float(hdr["tick"])
        self.with_gen = with_gen
        self.gen = torch.Generator().manual_seed(int(hdr.get("seed", 0)))
        self.gen_ids, self.gen_states, self.inputs, self.broken = {}, {}, [], False
        self.enc = _InhomShim(hdr["D"] * self.tick, self.freq_of(hdr["M"]), self.gen)
