"""Adaptor for spec/HomeoCore.tla: a real LinearHomeostasis trainer on a real cell (LinearDense with bias and delays +
DeltaCurrent, ExactNeuron whose spikes are forced), plasticity 1/2, targets 1/2 and 1/4: every quantity is an exact small
integer after scaling (rates x 60, requested changes x 120)."""
from __future__ import annotations
from .core import setup_repo_path, MachineryFailure

setup_repo_path()
import torch  # noqa: E402
from inferno import neural, learn  # noqa: E402
from inferno.extra import ExactNeuron  # noqa: E402

RS, US = 60, 120
BAD = -7777
DT = 1.0


def _sc(v: float, scale: int) -> int:
    y = float(v) * scale
    r = round(y)
    return int(r) if abs(y - r) < 1e-3 else BAD


class HomeoImpl:
    def __init__(self, c: dict, M: int = 2):
        self.c = c
        self.O, self.param = int(c["O"]), c["Param"]
        self.M = M
        conn = neural.LinearDense((M,), (self.O,), DT, synapse=neural.DeltaCurrent.partialconstructor(1.0), delay=2.0,
                                  bias=True, batch_size=1)
        conn.updater = conn.defaultupdater()
        self.layer = neural.Serial(conn, ExactNeuron((self.O,), DT, rest_v=-60.0, thresh_v=-45.0, batch_size=1))
        self.trainer = learn.LinearHomeostasis(plasticity=0.5, target=1.0 / int(c["DefTinv"]), param=self.param)
        self.trainer.register_cell("cell", self.layer.cell)
        self.h = []

    def apply(self, op: dict):
        a = op["a"]
        if a == "step":
            y = torch.tensor([[bool(v) for v in op["y"]]])
            self.layer(torch.zeros(1, self.M, dtype=torch.bool), neuron_kwargs={"override": y})
            if self.trainer.training:
                self.h.append([int(v) for v in op["y"]])
            return {"t": "ok"}
        if a == "call":
            acc = getattr(self.layer.connection.updater, self.param)
            if acc.pos is not None or acc.neg is not None:
                raise MachineryFailure("accumulator not empty before the call")
            try:
                cells = {"all": None, "this": ["cell"], "other": ["someone-else"]}[op.get("sel", "all")]
                self.trainer(None if op["tinv"] == 0 else 1.0 / op["tinv"], cells=cells)
            except Exception:
                return {"t": "raises"}
            acc = getattr(self.layer.connection.updater, self.param)
            if acc.pos is None and acc.neg is None:
                return {"t": "skipped"}

            def per_neuron(t):
                if t is None:
                    return [0] * self.O
                # (the trainer hands over one value per postsynaptic neuron, broadcast against the parameter)
                rows = t.detach().to(torch.float64).reshape(self.O, -1)
                out = []
                for o in range(self.O):
                    vals = {_sc(v, US) for v in rows[o].tolist()}
                    out.append(vals.pop() if len(vals) == 1 else BAD)     # one value per postsynaptic neuron
                return out
            ret = {"t": "parts", "pos": per_neuron(acc.pos), "neg": per_neuron(acc.neg)}
            delattr(self.layer.connection.updater, self.param)
            return ret
        if a == "clear":
            self.trainer.clear()
            self.h = []
            return {"t": "ok"}
        if a == "mode":
            self.trainer.train(bool(op["b"]))
            return {"t": "ok"}
        raise MachineryFailure(f"unknown operation {op}")

    def project(self) -> dict:
        mon = self.trainer.get_monitor("cell", "spike_rate")
        cnt = int(mon.reducer._count)
        val = mon.peek()
        mu = [0] * self.O if (val is None or cnt == 0) else [_sc(v, RS) for v in val.detach().reshape(-1).tolist()]
        return {"h": [list(y) for y in self.h], "cnt": cnt, "mu": mu, "training": bool(self.trainer.training)}
