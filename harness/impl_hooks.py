"""Adaptor between the HooksCore specification vocabulary and the real
inferno.core.infrastructure.{Hook, ContextualHook, StateHook} and
inferno.neural.hooks.{Clamping, Normalization}.

The hooked module is a real inferno connection (LinearDense) or a plain inferno Module;
the target attribute is its weight / a buffer.  Hook runs are observed by probe callables
(Hook), probe methods (ContextualHook), a probe subclass (StateHook) and counting
subclasses of the shipped Clamping / Normalization (which call the shipped `hook`).
Everything else is read through the public API: `hook.registered`, `.trainexec`,
`.evalexec`, `module.training`, `module._forward_hooks` / `_forward_pre_hooks` (named by
the property), the exception class of a call, the target attribute.

Exact mode (spec state x.den > 0): the attribute is a float64 r x c matrix of small
rationals; its value is projected back to the lowest-common-terms form the spec uses.
Opaque mode (x.den = 0): arbitrary float32 tensors; only the post-condition flags are
reported."""
from __future__ import annotations
import gc, math, weakref
from fractions import Fraction
from .core import setup_repo_path, MachineryFailure

setup_repo_path()
import torch  # noqa: E402
from torch import nn  # noqa: E402
from inferno import Module, Hook, ContextualHook, StateHook  # noqa: E402
from inferno.neural import Clamping, Normalization, LinearDense, DeltaCurrent  # noqa: E402

torch.set_num_threads(1)
MAXDEN = 10 ** 6
RTOL = 1e-5


class _Log:
    def __init__(self):
        self.ev = []
        self.phase = "man"
        self.value_runs = 0

    def add(self, h, intrinsic=None, ok=True):
        at = self.phase
        if intrinsic is not None and intrinsic != at:
            at = f"misplaced:{intrinsic}-in-{at}"
        self.ev.append({"h": h, "at": at, "ok": bool(ok)})


class ProbeDense(LinearDense):
    """A shipped connection whose forward marks the position of the computation."""

    def forward(self, *inputs, **kwargs):
        log = self.__dict__.get("_probe_log")
        if log is not None:
            log.ev.append({"h": 0, "at": "fwd", "ok": True})
            log.phase = "post"
        return LinearDense.forward(self, *inputs, **kwargs)


class ProbePlain(Module):
    def __init__(self, data, nested=False):
        Module.__init__(self)
        if nested == "deep":               # the attribute sits two modules below the hooked one
            self.inner = Module()
            self.inner.core = Module()
            self.inner.core.register_buffer("data", data)
        elif nested:
            self.inner = Module()
            self.inner.register_buffer("data", data)
        else:
            self.register_buffer("data", data)

    def forward(self, inputs=None):
        log = self.__dict__.get("_probe_log")
        if log is not None:
            log.ev.append({"h": 0, "at": "fwd", "ok": True})
            log.phase = "post"
        return None


class ProbeCtx(ContextualHook):
    def __init__(self, log, hid, hpre, hpost, prep, te, ee):
        self._log, self._hid = log, hid
        ContextualHook.__init__(self, prehook="_on_pre" if hpre else None, posthook="_on_post" if hpost else None,
                                prehook_kwargs={"prepend": prep}, posthook_kwargs={"prepend": prep},
                                train_update=te, eval_update=ee)

    def _on_pre(self, module, args):
        self._log.add(self._hid, "pre")

    def _on_post(self, module, args, output):
        self._log.add(self._hid, "post")


class ProbeState(StateHook):
    def __init__(self, log, hid, module, **kw):
        StateHook.__init__(self, module, **kw)
        self.__dict__["_plog"] = log
        self.__dict__["_hid"] = hid

    def hook(self, module):
        self._plog.add(self._hid)


def _pnorm(t, p, dims):
    return torch.linalg.vector_norm(t.double(), ord=p, dim=dims, keepdim=True)


class _ValueMixin:
    """Counts runs of a shipped value hook and evaluates its post-condition right after
    the shipped `hook` returned."""

    def _setup(self, log, hid, real):
        self.__dict__["_plog"] = log
        self.__dict__["_hid"] = hid
        self.__dict__["_real"] = real

    def _target(self):
        obj = self.module
        for part in self._real["attr"].split("."):
            obj = getattr(obj, part)
        return obj


class CountingClamping(_ValueMixin, Clamping):
    def hook(self, module):
        Clamping.hook(self, module)
        x = self._target().detach()
        lo, hi = self._real.get("min"), self._real.get("max")
        ok = True
        if lo is not None:
            ok = ok and bool((x >= lo).all())
        if hi is not None:
            ok = ok and bool((x <= hi).all())
        self._plog.value_runs += 1
        self._plog.add(self._hid, ok=ok)


class CountingNormalization(_ValueMixin, Normalization):
    def hook(self, module):
        before = self._target().detach().clone()
        Normalization.hook(self, module)
        x = self._target().detach()
        r = self._real
        dims = r["dim"]
        if dims is None:
            dims = tuple(range(x.ndim))
        n0 = _pnorm(before, r["order"], dims)
        n1 = _pnorm(x, r["order"], dims)
        zero = (before == 0).all(dim=dims, keepdim=True)
        target = abs(r["scale"])
        good = torch.where(zero, (x == 0).all(dim=dims, keepdim=True),
                           (n1 - target).abs() <= RTOL * target + 1e-9)
        # vectors whose norm is below the epsilon in force are outside the statement (2x: rounding of the norm itself)
        eps = r.get("epsilon") or 1e-12
        tiny = (~zero) & (n0 < 2 * eps)
        ok = bool((good | tiny).all()) and x.shape == before.shape and x.dtype == before.dtype
        self._plog.value_runs += 1
        self._plog.add(self._hid, ok=ok)


P_OF = {0: float("inf"), 1: 1, 2: 2}


def _dims_of(dm):
    return {"row": -1, "col": 0, "all": None}[dm]


class HooksImpl:
    """Real objects for one initial state of the specification."""

    def __init__(self, init: dict, real: dict | None = None):
        self.log = _Log()
        self.exact = init["x"]["den"] > 0
        self.cf = bool(init["cf"])
        self.cfgs = [dict(h) for h in init["hooks"]]
        self.real = real or {}
        self.fired = [0] * len(self.cfgs)
        # ---- hooked module
        target = self.real.get("target", "dense")
        if self.exact:
            r, c = init["x"]["r"], init["x"]["c"]
            self.module = ProbeDense((c,), (r,), 1.0, synapse=DeltaCurrent.partialconstructor(1.0))
            self.module.to(torch.float64)
            self.attr = "weight"
            self.module.weight = torch.zeros(r, c, dtype=torch.float64)
            self.inputs = (torch.zeros(1, c, dtype=torch.float64),)
        elif target == "dense":
            shape = tuple(self.real.get("shape", (2, 3)))
            self.module = ProbeDense((shape[1],), (shape[0],), 1.0, synapse=DeltaCurrent.partialconstructor(1.0))
            self.attr = "weight"
            self.inputs = (torch.zeros(1, shape[1]),)
            if "x0" in self.real:
                self.module.weight = torch.tensor(self.real["x0"], dtype=torch.float32).reshape(shape)
        else:
            shape = tuple(self.real.get("shape", (2, 3)))
            x0 = torch.tensor(self.real.get("x0", [0.0] * math.prod(shape)), dtype=torch.float32).reshape(shape)
            self.module = ProbePlain(x0, nested=("deep" if target == "deep" else target == "nested"))
            self.attr = {"nested": "inner.data", "deep": "inner.core.data"}.get(target, "data")
            self.inputs = ()
        self.module.__dict__["_probe_log"] = self.log
        self.module.train(bool(init["training"]))
        # ---- the bystander: foreign torch hooks registered before anything else
        self.module.register_forward_pre_hook(lambda m, a: self.log.ev.append({"h": 0, "at": "pre", "ok": True}))
        self.module.register_forward_hook(lambda m, a, o: self.log.ev.append({"h": 0, "at": "post", "ok": True}))
        self.owner = {"pre": {k: 0 for k in self.module._forward_pre_hooks},
                      "post": {k: 0 for k in self.module._forward_hooks}}
        # ---- hooks
        self.hooks = []
        for i, c in enumerate(self.cfgs):
            self.hooks.append(self._build(i + 1, c))
        self.refs = [weakref.ref(h) for h in self.hooks]
        self._last = self._snapshot()

    # ------------------------------------------------------------------ construction
    def _build(self, hid, c):
        log = self.log
        kind = c["kind"]
        te, ee, prep = bool(c["te"]), bool(c["ee"]), bool(c["prep"])
        if kind == "hook":
            pre = (lambda m, a: log.add(hid, "pre")) if c["hpre"] else None
            post = (lambda m, a, o: log.add(hid, "post")) if c["hpost"] else None
            return Hook(pre, post, prehook_kwargs={"prepend": prep}, posthook_kwargs={"prepend": prep},
                        train_update=te, eval_update=ee)
        if kind == "ctx":
            return ProbeCtx(log, hid, c["hpre"], c["hpost"], prep, te, ee)
        kw = dict(train_update=te, eval_update=ee, as_prehook=bool(c["hpre"]), prepend=prep)
        if kind == "state":
            return ProbeState(log, hid, self.module, **kw)
        real = {k: (None if v == "None" else v) for k, v in (self.real.get("hooks") or {}).get(str(hid), {}).items()}
        real["attr"] = self.attr
        if kind == "clamp":
            if self.exact:
                real["min"] = float(c["lo"]) if c["haslo"] else None
                real["max"] = float(c["hi"]) if c["hashi"] else None
            h = CountingClamping(self.module, self.attr, real.get("min"), real.get("max"), **kw)
        elif kind == "norm":
            if self.exact:
                real["order"], real["scale"], real["dim"] = P_OF[c["p"]], float(c["sc"]), _dims_of(c["dm"])
            if real["order"] == "inf":
                real["order"] = float("inf")
            dim = real["dim"]
            if isinstance(dim, list):
                dim = real["dim"] = tuple(dim)
            if real.get("epsilon") is not None:
                h = CountingNormalization(self.module, self.attr, real["order"], real["scale"], dim, float(real["epsilon"]), **kw)
            else:
                h = CountingNormalization(self.module, self.attr, real["order"], real["scale"], dim, **kw)
        else:
            raise MachineryFailure(f"unknown hook kind {kind}")
        h._setup(log, hid, real)
        return h

    # ------------------------------------------------------------------ observation
    def _value(self):
        obj = self.module
        for part in self.attr.split("."):
            obj = getattr(obj, part)
        return obj.detach()

    def _snapshot(self):
        return self._value().clone()

    def _attribute_tables(self, hid=None):
        """Attribute new handle ids (keys of the module's hook tables) to the hook being registered."""
        for pos, table in (("pre", self.module._forward_pre_hooks), ("post", self.module._forward_hooks)):
            own = self.owner[pos]
            for k in table:
                if k not in own:
                    own[k] = hid if hid is not None else -1   # -1: a handle nobody asked for
            for k in list(own):
                if k not in table:
                    del own[k]

    def project(self) -> dict:
        self._attribute_tables()
        hooks = []
        for i, c in enumerate(self.cfgs):
            h = self.refs[i]()
            cfgpart = {k: c[k] for k in ("kind", "hpre", "hpost", "prep", "haslo", "lo", "hashi", "hi", "p", "sc", "dm")}
            if h is None:
                dyn = {"alive": False, "reg": False, "te": False, "ee": False}
            else:
                dyn = {"alive": True, "reg": bool(h.registered), "te": bool(h.trainexec), "ee": bool(h.evalexec)}
            del h
            dyn["fired"] = self.fired[i] if self.cf else 0
            hooks.append({**cfgpart, **dyn})
        return {"training": bool(self.module.training), "cf": self.cf,
                "pre": [self.owner["pre"][k] for k in self.module._forward_pre_hooks],
                "post": [self.owner["post"][k] for k in self.module._forward_hooks],
                "hooks": hooks, "x": self._project_x()}

    def _project_x(self):
        if not self.exact:
            return {"num": [], "den": 0, "r": 0, "c": 0}
        w = self._value()
        r, c = w.shape
        fr = []
        for v in w.reshape(-1).tolist():
            f = Fraction(v).limit_denominator(MAXDEN)
            if abs(float(f) - v) > 1e-9 * max(1.0, abs(v)):
                f = Fraction(-777777, 1)     # not a small rational: reported as such
            fr.append(f)
        den = 1
        for f in fr:
            den = den * f.denominator // math.gcd(den, f.denominator)
        return {"num": [int(f * den) for f in fr], "den": int(den), "r": r, "c": c}

    # ------------------------------------------------------------------ operations
    def apply(self, op: dict) -> dict:
        a = op["a"]
        self.log.ev = []
        self.log.phase = "man"
        self.log.value_runs = 0
        err = ""
        h = self.refs[op["h"] - 1]() if "h" in op else None
        try:
            if a == "call":
                self.log.phase = "pre"
                try:
                    self.module(*self.inputs)
                finally:
                    self.log.phase = "man"
            elif a == "train":
                self.module.train(bool(op["b"]))
            elif a == "reg":
                if isinstance(h, StateHook):
                    h.register()
                else:
                    h.register(self.module)
                self._attribute_tables(op["h"])
            elif a == "reg_bad":
                h.register(object())
            elif a == "dereg":
                h.deregister()
            elif a == "set_te":
                h.trainexec = bool(op["b"])
            elif a == "set_ee":
                h.evalexec = bool(op["b"])
            elif a == "fire":
                h(force=bool(op["force"]), ignore_mode=bool(op["ign"]))
            elif a == "del":
                h = None
                self.hooks[op["h"] - 1] = None
                if self.refs[op["h"] - 1]() is not None:   # only reference cycles need the collector
                    gc.collect()
            elif a == "setx":
                w = torch.tensor([float(v) for v in op["v"]], dtype=self._value().dtype).reshape(self._value().shape)
                self._assign(w)
            elif a == "setx_real":
                w = torch.tensor(op["vals"], dtype=torch.float32).reshape(self._value().shape)
                self._assign(w)
            else:
                raise MachineryFailure(f"unknown operation {a}")
        except MachineryFailure:
            raise
        except Exception as e:   # the exception class is part of the specified outcome
            err = type(e).__name__
            e = None
        h = None
        self._attribute_tables()
        ev = list(self.log.ev)
        for e in ev:
            if e["h"] > 0 and e["at"] != "fwd":
                self.fired[e["h"] - 1] += 1
        now = self._snapshot()
        changed = (now.shape != self._last.shape) or (not torch.equal(now, self._last))
        spur = bool(changed and self.log.value_runs == 0 and a not in ("setx", "setx_real"))
        self._last = now
        return {"err": err, "ev": ev, "spur": spur}

    def _assign(self, w):
        obj = self.module
        parts = self.attr.split(".")
        for part in parts[:-1]:
            obj = getattr(obj, part)
        setattr(obj, parts[-1], w)
