"""Adaptor for spec/LayerRegistryCore.tla: the component registries of real inferno layers."""
from __future__ import annotations
from .core import setup_repo_path, MachineryFailure

setup_repo_path()
import torch  # noqa: E402
from inferno import neural  # noqa: E402
from inferno.neural import Layer, Serial, RecurrentSerial, Biclique, LinearDense, LIF, DeltaCurrent  # noqa: E402


class PlainLayer(Layer):
    """a plain Layer subclass: every structural operation of the base class is available"""

    def wiring(self, inputs, **kwargs):
        return {}


class RegistryImpl:
    def __init__(self, init: dict):
        self.kind, self.tf = init["kind"], bool(init["tf"])
        self.conns, self.neurons = {}, {}
        if self.kind == "layer":
            self.layer = PlainLayer()
        elif self.kind == "serial":
            self.layer = Serial(self.conn("serial"), self.neuron("serial"))
        elif self.kind == "recurrent":
            self.layer = RecurrentSerial(self.conn("feedfwd"), self.conn("lateral"), self.conn("feedback"),
                                         self.neuron("feedfwd"), self.neuron("feedback"), trainable_feedback=self.tf)
        elif self.kind == "biclique":
            self.layer = Biclique([("a", self.conn("a")), ("b", self.conn("b"))], [("x", self.neuron("x")), ("y", self.neuron("y"))])
        else:
            raise MachineryFailure(self.kind)

    # one object per name, created on first use
    def conn(self, name):
        if name not in self.conns:
            c = LinearDense((1,), (1,), 1.0, synapse=DeltaCurrent.partialconstructor(1.0))
            c.updater = c.defaultupdater()
            self.conns[name] = c
        return self.conns[name]

    def neuron(self, name):
        if name not in self.neurons:
            self.neurons[name] = LIF((1,), 1.0, rest_v=-60.0, reset_v=-65.0, thresh_v=-50.0, refrac_t=1.0, time_constant=20.0)
        return self.neurons[name]

    def _cname(self, obj):
        return next((k for k, v in self.conns.items() if v is obj), "?")

    def _nname(self, obj):
        return next((k for k, v in self.neurons.items() if v is obj), "?")

    def _cell(self, cell):
        c, n = self._cname(cell.connection), self._nname(cell.neuron)
        if cell.synapse is not cell.connection.synapse or cell.updater is not cell.connection.updater:
            c = "?"
        return c, n

    def apply(self, o: dict):
        a, L = o["a"], self.layer
        try:
            if a == "add_connection":
                L.add_connection(o["c"], self.conn(o["c"]))
            elif a == "del_connection":
                L.del_connection(o["c"])
            elif a == "add_neuron":
                L.add_neuron(o["n"], self.neuron(o["n"]))
            elif a == "del_neuron":
                L.del_neuron(o["n"])
            elif a in ("add_cell", "get_cell"):
                cell = L.add_cell(o["c"], o["n"]) if a == "add_cell" else L.get_cell(o["c"], o["n"])
                c, n = self._cell(cell)
                if a == "add_cell" and L.get_cell(o["c"], o["n"]) is not cell:
                    c = "?"
                return {"t": "cell", "c": c, "n": n}
            elif a == "del_cell":
                L.del_cell(o["c"], o["n"])
            elif a == "get_connection":
                return {"t": "comp", "k": "c", "name": self._cname(L.get_connection(o["c"]))}
            elif a == "get_neuron":
                return {"t": "comp", "k": "n", "name": self._nname(L.get_neuron(o["n"]))}
            elif a == "list":
                w = o["what"]
                if w == "connections":
                    v = [k if self.conns.get(k) is c else "?" for k, c in L.named_connections]
                elif w == "neurons":
                    v = [k if self.neurons.get(k) is n else "?" for k, n in L.named_neurons]
                elif w == "synapses":
                    v = [k if (k in self.conns and self.conns[k].synapse is s) else "?" for k, s in L.named_synapses]
                else:
                    v = []
                    for (c, n), cell in L.named_cells:
                        cc, nn = self._cell(cell)
                        v.append([c if cc == c else "?", n if nn == n else "?"])
                return {"t": "list", "v": v}
            elif a == "role":
                obj = getattr(L, o["role"])
                if obj is None:
                    return {"t": "comp", "k": "-", "name": "-"}
                for k, c in self.conns.items():
                    if obj is c:
                        return {"t": "comp", "k": "c", "name": k}
                    if obj is c.synapse:
                        return {"t": "comp", "k": "s", "name": k}
                    if obj is c.updater:
                        return {"t": "comp", "k": "u", "name": k}
                for k, n in self.neurons.items():
                    if obj is n:
                        return {"t": "comp", "k": "n", "name": k}
                if isinstance(obj, neural.Cell) if hasattr(neural, "Cell") else hasattr(obj, "connection"):
                    c, n = self._cell(obj)
                    return {"t": "comp", "k": "cell", "name": f"{c}/{n}"}
                return {"t": "comp", "k": "?", "name": "?"}
            else:
                raise MachineryFailure(a)
            return {"t": "ok"}
        except (RuntimeError, AttributeError, ValueError, KeyError, TypeError) as e:
            return {"t": "err", "e": type(e).__name__}

    def project(self) -> dict:
        L = self.layer
        return {"kind": self.kind, "tf": self.tf, "C": list(L.connections_.keys()), "N": list(L.neurons_.keys()),
                "cells": [{"c": c, "ns": list(g.keys())} for c, g in L.cells_.items()]}
