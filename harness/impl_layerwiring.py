"""Adaptor between the LayerWiringCore specification (C17) and the real inferno layers
(inferno.neural.Serial / Biclique / RecurrentSerial, Layer.forward, Layer.clear).

Binding A uses PROBE components: minimal subclasses of the inferno base classes
Connection / Synapse / Neuron that implement the probe algebra of the specification on
float64 tensors (exact for the integers involved) and record what they were given.  The
layer classes themselves - wiring, combine, transforms, the two-pass recurrent forward, the
stored feedback spikes, the clear cascade - are the real code.
"""
from __future__ import annotations
from .core import setup_repo_path

setup_repo_path()
import torch  # noqa: E402
from torch import nn  # noqa: E402
from inferno.neural import Connection, Neuron, Synapse, Serial, Biclique, RecurrentSerial  # noqa: E402

torch.set_num_threads(1)

CA = (2, 3, 5)
CB = (7, 11, 13)
CK = (17, 19, 23)
PT = (30, 40, 50)
IT = (1, 2)
NU = (600, 700)
NP = (2, 3)
CW = (1, 2, 3)
BAD = -777          # projection of a tensor that is not uniform / not integral / has the wrong shape
F64 = torch.float64


def scalar_of(t, shape=None, scale=1):
    """The common value of a uniform tensor as an exact integer (after scaling), else BAD."""
    if t is None:
        return -1
    if not isinstance(t, torch.Tensor):
        return BAD
    if shape is not None and tuple(t.shape) != tuple(shape):
        return BAD
    f = t.detach().reshape(-1).to(F64)
    if f.numel() == 0 or not bool(torch.all(f == f[0])):
        return BAD
    v = float(f[0]) * scale
    r = round(v)
    return int(r) if abs(v - r) < 1e-6 and abs(r) < 2 ** 31 else BAD


class ProbeSynapse(Synapse):
    """State of a probe connection: its previous input (what a synapse remembers)."""

    def __init__(self, shape, batch):
        Synapse.__init__(self)
        self.shape_, self.batch_ = tuple(shape), batch
        self.register_buffer("mem", torch.zeros((), dtype=F64))
        self.register_buffer("last", torch.zeros((batch, *shape), dtype=F64))

    @classmethod
    def partialconstructor(cls, *a, **k):
        return lambda shape, step_time, delay, batch_size: cls(shape, batch_size)

    shape = property(lambda self: self.shape_)
    batchsz = property(lambda self: self.batch_)
    dt = property(lambda self: 1.0, lambda self, v: None)
    delay = property(lambda self: 0.0, lambda self, v: None)
    current = property(lambda self: self.last, lambda self, v: None)
    spike = property(lambda self: self.last != 0, lambda self, v: None)

    def current_at(self, selector):
        return self.last

    def spike_at(self, selector):
        return self.last != 0

    def clear(self, **kwargs):
        self.mem = torch.zeros((), dtype=F64)
        self.last = torch.zeros_like(self.last)

    def forward(self, *inputs, **kwargs):
        self.last = inputs[0].to(F64)
        self.mem = self.last.reshape(-1)[0].clone()
        return self.last


class ProbeConnection(Connection):
    def __init__(self, idx, inshape, outshape, batch, log):
        Connection.__init__(self, ProbeSynapse(inshape, batch))
        self.idx, self.inshape_, self.outshape_, self.batch_, self.log = idx, tuple(inshape), tuple(outshape), batch, log
        self.register_parameter("weight_", nn.Parameter(torch.zeros((), dtype=F64), False))

    inshape = property(lambda self: self.inshape_)
    outshape = property(lambda self: self.outshape_)
    weight = property(lambda self: self.weight_, lambda self, v: setattr(self.weight_, "data", v))
    bias = property(lambda self: None, lambda self, v: None)
    delay = property(lambda self: None, lambda self, v: None)
    selector = property(lambda self: None)

    def like_input(self, data):
        return data

    def like_bias(self, data):
        return data

    def like_synaptic(self, data):
        return data

    def postsyn_receptive(self, data):
        return data

    def presyn_receptive(self, data):
        return data

    def defaultupdater(self, *includes, **kwargs):
        raise RuntimeError("probe connection has no updater")

    def forward(self, *inputs, **kwargs):
        x = scalar_of(inputs[0], (self.batch_, *self.inshape_))
        self.extra_seen = [float(t.reshape(-1)[0]) for t in inputs[1:]]     # additional positional arguments, if any
        self.log.append(("c", self.idx, x, len(inputs), dict(kwargs)))
        m = float(self.synapse.mem)
        w = float(self.weight_)
        self.synapse(inputs[0])
        c = self.idx - 1
        return torch.full((self.batch_, *self.outshape_), (CA[c] + w) * x + CB[c] + CK[c] * m, dtype=F64)


class ProbeNeuron(Neuron):
    def __init__(self, idx, shape, batch, log):
        Neuron.__init__(self)
        self.idx, self.shape_, self.batch_, self.log = idx, tuple(shape), batch, log
        self.register_buffer("mem", torch.zeros((), dtype=F64))
        self.register_buffer("adapt", torch.zeros((), dtype=F64))
        self.register_buffer("spk", torch.zeros((batch, *shape), dtype=F64))

    shape = property(lambda self: self.shape_)
    count = property(lambda self: int(torch.tensor(self.shape_).prod()))
    batchsz = property(lambda self: self.batch_, lambda self, v: None)
    batchedshape = property(lambda self: (self.batch_, *self.shape_))
    dt = property(lambda self: 1.0, lambda self, v: None)
    voltage = property(lambda self: self.spk, lambda self, v: None)
    refrac = property(lambda self: torch.zeros_like(self.spk), lambda self, v: None)
    spike = property(lambda self: self.spk)

    def clear(self, **kwargs):
        # resting state; adaptations persist (as in the shipped adaptive neurons)
        self.mem = torch.zeros((), dtype=F64)
        self.spk = torch.zeros_like(self.spk)

    def forward(self, inputs, **kwargs):
        ok = isinstance(inputs, torch.Tensor) and tuple(inputs.shape) == self.batchedshape
        f = inputs.detach().reshape(-1).to(F64)
        uniform = ok and bool(torch.all(f == f[0]))
        self.log.append(("n", self.idx, inputs if uniform else None, dict(kwargs)))
        x = float(f[0])
        out = NP[self.idx - 1] * x + float(self.mem) + float(self.adapt)
        self.mem = f[0].clone()
        self.adapt = self.adapt + 1
        self.spk = torch.full(self.batchedshape, out, dtype=F64)
        return self.spk


def _tr(on, off):
    """A transform x -> x + off when configured, else None (the layer's default)."""
    return (lambda v, **kw: v + off) if on else None


class LayerImpl:
    """A real inferno layer built from probe components, driven through its public API."""

    BATCH = 2
    SHAPES = {1: (3,), 2: (2, 2)}   # neuron group shapes of the recurrent layer (feedfwd, feedback)

    def __init__(self, cfg: dict):
        self.cfg = dict(cfg)
        self.kind, self.nc, self.nn = cfg["kind"], cfg["nc"], cfg["nn"]
        self.comb, self.tr = cfg["comb"], bool(cfg["tr"])
        self.scale = 6 if self.comb == "mean" else 1
        self.log = []
        self.hist = []
        B = self.BATCH
        if self.kind == "serial":
            self.conns = [ProbeConnection(1, (4,), (3,), B, self.log)]
            self.neurs = [ProbeNeuron(1, (3,), B, self.log)]
            # with transforms configured the layer is also given its own component names (the defaults are both
            # "serial", which hides a mix-up of the connection's and the neuron's name)
            names = dict(connection_name="cx", neuron_name="ny") if self.tr else {}
            self.layer = Serial(self.conns[0], self.neurs[0], transform=_tr(self.tr, PT[0]), **names)
            self.extshape = [(4,)]
        elif self.kind == "biclique":
            self.conns = [ProbeConnection(c + 1, (c + 2,), (3,), B, self.log) for c in range(self.nc)]
            self.neurs = [ProbeNeuron(n + 1, (3,), B, self.log) for n in range(self.nn)]
            if self.tr:
                cs = [(f"c{c + 1}", self.conns[c], _tr(True, PT[c])) for c in range(self.nc)]
                # with several connections the neuron groups' transforms work IN PLACE (like nn.ReLU(inplace=True)): every
                # group must be handed its own combination of the connection outputs (seeded C17-m13)
                def _tr_inplace(off):
                    return lambda v, **kw: v.add_(off)
                ns = [(f"n{n + 1}", self.neurs[n], _tr_inplace(NU[n]) if self.nc >= 2 else _tr(True, NU[n]))
                      for n in range(self.nn)]
            else:
                cs = [(f"c{c + 1}", self.conns[c]) for c in range(self.nc)]
                ns = [(f"n{n + 1}", self.neurs[n]) for n in range(self.nn)]
            if self.comb == "custom":
                comb = lambda d, **kw: sum(CW[int(k[1:]) - 1] * v for k, v in d.items())  # noqa: E731
            else:
                comb = self.comb
            self.layer = Biclique(cs, ns, combine=comb)
            self.extshape = [(c + 2,) for c in range(self.nc)]
        elif self.kind == "recurrent":
            s1, s2 = self.SHAPES[1], self.SHAPES[2]
            self.conns = [ProbeConnection(1, (4,), s1, B, self.log), ProbeConnection(2, s1, s2, B, self.log),
                          ProbeConnection(3, s2, s1, B, self.log)]
            self.neurs = [ProbeNeuron(1, s1, B, self.log), ProbeNeuron(2, s2, B, self.log)]
            kw = {}
            if self.tr:
                kw = dict(feedfwd_out_transform=_tr(True, PT[0]), lateral_out_transform=_tr(True, PT[1]),
                          feedback_out_transform=_tr(True, PT[2]),
                          lateral_in_transform=lambda v, **k: (v + IT[0],),
                          feedback_in_transform=lambda v, **k: (v + IT[1],))
            if self.tr:
                # (with transforms also: the layer's own component names instead of the defaults)
                kw.update(feedfwd_connection_name="ffc", lateral_connection_name="latc", feedback_connection_name="fbc",
                          feedfwd_neuron_name="ffn", feedback_neuron_name="fbn")
            self.rec_names = (kw.get("feedfwd_connection_name", "feedfwd"), kw.get("lateral_connection_name", "lateral"),
                              kw.get("feedback_connection_name", "feedback"))
            self.layer = RecurrentSerial(self.conns[0], self.conns[1], self.conns[2], self.neurs[0], self.neurs[1], **kw)
            self.extshape = [(4,)]
        else:
            raise KeyError(self.kind)

    # ------------------------------------------------------------------ operations
    def apply(self, op: dict):
        a = op["a"]
        try:
            if a == "step":
                return self._step(list(op["x"]))
            if a == "clear":
                self.layer.clear()
                self.hist = []
                self.fb0 = 0
                return {"t": "ok"}
            if a == "clear_fb":
                self.layer.clear(submodules=False)
                if not self.hist:
                    self.fb0 = 0
                return {"t": "ok"}
            if a == "clear_keepfb":
                self.layer.clear(clear_feedback=False)
                self.hist = []
                fb = self.project()["fb"]
                self.fb0 = 0 if fb == -1 else fb      # (Abs bookkeeping: the spikes carried across this clear)
                return {"t": "ok"}
            if a == "learn":
                for c in self.conns:
                    c.weight = c.weight.data + 1
                return {"t": "ok"}
        except Exception as e:  # the specification fixes whether a call is rejected
            return {"t": "err", "e": type(e).__name__}
        raise KeyError(a)

    def _step(self, x):
        B, S = self.BATCH, self.scale
        del self.log[:]
        w = self._w()
        fb_was_none = self.kind == "recurrent" and self.layer.feedback_spikes is None
        ins = [None if v == 0 else torch.full((B, *self.extshape[i]), float(v), dtype=F64) for i, v in enumerate(x)]
        if self.kind == "serial":
            out, mid = self.layer(ins[0], connection_kwargs={"tag": 201}, neuron_kwargs={"tag": 101},
                                  capture_intermediate=True)
            ys, mids = [out], [mid]
        elif self.kind == "biclique":
            outs, mid = self.layer({f"c{i + 1}": (t,) for i, t in enumerate(ins) if t is not None},
                                   connection_kwargs={f"c{c + 1}": {"tag": 201 + c} for c in range(self.nc)},
                                   neuron_kwargs={f"n{n + 1}": {"tag": 101 + n} for n in range(self.nn)},
                                   capture_intermediate=True)
            if set(outs) != {f"n{n + 1}" for n in range(self.nn)}:
                return {"t": "err", "e": "OutputKeys"}
            ys = [outs[f"n{n + 1}"] for n in range(self.nn)]
            mids = [mid.get(f"c{c + 1}") for c in range(self.nc)]
        else:
            # additional positional arguments for the lateral / feedback connections on every other step
            extra = len(self.hist) % 2 == 1
            xa = dict(lateral_connection_args=(torch.full((1,), 7.0),), feedback_connection_args=(torch.full((1,), 9.0), torch.full((1,), 11.0))) \
                if extra else {}
            (y1, y2), mid = self.layer(ins[0], feedfwd_connection_kwargs={"tag": 201}, lateral_connection_kwargs={"tag": 202},
                                       feedback_connection_kwargs={"tag": 203}, feedfwd_neuron_kwargs={"tag": 101},
                                       feedback_neuron_kwargs={"tag": 102}, capture_intermediate=True, **xa)
            ys = [y1, y2]
            mids = [mid.get(nm) for nm in self.rec_names]
            want_extra = [[], [7.0], [9.0, 11.0]] if extra else [[], [], []]
            if [c.extra_seen for c in self.conns] != want_extra:
                return {"t": "err", "e": "ArgRouting"}
        # keyword arguments are routed to the component they were given for, and to no other
        for rec in self.log:
            want = {"tag": (100 if rec[0] == "n" else 200) + rec[1]}
            if rec[-1] != want:
                return {"t": "err", "e": "KwargRouting"}
        nin = [0] * self.nn
        cin = [0] * self.nc
        for rec in self.log:
            if rec[0] == "n":
                nin[rec[1] - 1] = scalar_of(rec[2], self.neurs[rec[1] - 1].batchedshape, S) if rec[2] is not None else BAD
            else:
                cin[rec[1] - 1] = rec[2]
        y = [scalar_of(t, self.neurs[n].batchedshape, S) for n, t in enumerate(ys)]
        cout = [scalar_of(t, (B, *self.conns[c].outshape)) if t is not None else -1 for c, t in enumerate(mids)]
        self.hist.append({"x": x, "w": w, "cut": bool(self.kind == "recurrent" and fb_was_none and len(self.hist) > 0)})
        return {"t": "out", "y": y, "nin": nin, "cin": cin, "cout": cout}

    # ------------------------------------------------------------------ projection
    def _w(self):
        ws = {scalar_of(c.weight) for c in self.conns}
        return ws.pop() if len(ws) == 1 else BAD

    def project(self):
        S = self.scale
        fb = -1
        if self.kind == "recurrent":
            fb = scalar_of(self.layer.feedback_spikes, self.neurs[1].batchedshape)
        return {"cfg": self.cfg, "w": self._w(),
                "ad": [scalar_of(n.adapt) for n in self.neurs],
                "cm": [scalar_of(c.synapse.mem) for c in self.conns],
                "nm": [scalar_of(n.mem, None, S) for n in self.neurs],
                "sp": [scalar_of(n.spike, n.batchedshape, S) for n in self.neurs],
                "fb": fb, "fb0": getattr(self, "fb0", 0), "hist": [dict(h) for h in self.hist]}
