"""Adaptor between the LifecycleCore specification vocabulary and the real inferno objects:
a Biclique layer whose two cells share a neuron group (or a connection), ExactNeuron
populations with forced spikes, shipped trainers (STDP, MSTDPET).

What a monitor has recorded is observed through the public API only:
  * forced pre- and post-synaptic spike patterns encode the step id (element 0 always
    spikes, elements 1.. carry the bits of the id);
  * trace monitors run with tau = dt / ln 2 (decay exactly 1/2, checked at start-up), so
    the cumulative trace  A * sum_k s_k 2^-(n-k)  reveals the number n of recorded
    observations (element 0) and every recorded bit, i.e. the whole sequence of step ids;
  * pass-through monitors reveal the last recorded step id;
  * eligibility monitors: whether anything was recorded;
plus `monitor.registered`, `trainer.get_monitor` (object identity = aliasing),
`trainer.named_cells`, `trainer.training`, `layer.training`, `cell.monitors` (the
Observable name table) and the exception class of each call."""
from __future__ import annotations
import gc, math, weakref
from .core import setup_repo_path, MachineryFailure

setup_repo_path()
import torch  # noqa: E402
from inferno.neural import Biclique, LinearDense, DeltaCurrent  # noqa: E402
from inferno.extra import ExactNeuron  # noqa: E402
from inferno.learn import STDP, MSTDPET  # noqa: E402
from inferno.learn.trainers.three_factor_stdp import EligibilityTraceReducer  # noqa: E402
from inferno.observe import (StateMonitor, MultiStateMonitor, PassthroughReducer,  # noqa: E402
                             CumulativeTraceReducer)

torch.set_num_threads(1)
NB = 6                      # elements per population: 1 count element + 5 id bits
NAMES = ["trace_post", "spike_post", "trace_pre", "spike_pre", "elig_post", "elig_pre"]
CELLS = ["a", "b"]
DT = 1.0
TC = 1.0 / math.log(2.0)
if math.exp(-DT / TC) != 0.5:   # pragma: no cover
    raise MachineryFailure("exp(-dt/tau) is not exactly 1/2 on this platform: the trace decoding recipe is void")
MAXOBS = 22                 # float32 holds 24 bits: longer histories cannot be decoded exactly


def pattern(step_id: int) -> torch.Tensor:
    if not 0 < step_id < 2 ** (NB - 1):
        raise MachineryFailure(f"step id {step_id} does not fit {NB - 1} bits")
    return torch.tensor([[1.0] + [float((step_id >> j) & 1) for j in range(NB - 1)]])


class LifecycleImpl:
    def __init__(self, init: dict):
        self.cfg = dict(init["cfg"])
        self.ttypes = list(self.cfg["ttype"])
        self.clk = int(init.get("clk", 0))
        mkc = lambda: LinearDense((NB,), (NB,), DT, synapse=DeltaCurrent.partialconstructor(DT))
        mkn = lambda: ExactNeuron((NB,), DT, rest_v=-60.0, thresh_v=-50.0)
        def mklayer(conns, neurons):
            for _, c in conns:
                c.updater = c.defaultupdater()
            return Biclique(conns, neurons)

        if self.cfg["share"] == "neuron":
            self.layers = [mklayer([("c1", mkc()), ("c2", mkc())], [("n", mkn())])]
            self.cellkeys = {"a": (0, "c1", "n"), "b": (0, "c2", "n")}
        elif self.cfg["share"] == "conn":
            self.layers = [mklayer([("c1", mkc())], [("n1", mkn()), ("n2", mkn())])]
            self.cellkeys = {"a": (0, "c1", "n1"), "b": (0, "c1", "n2")}
        else:
            # two layers with identical component names: identical attribute paths and tags,
            # only the basis (layer) tells the cells apart
            self.layers = [mklayer([("c1", mkc())], [("n", mkn())]), mklayer([("c1", mkc())], [("n", mkn())])]
            self.cellkeys = {"a": (0, "c1", "n"), "b": (1, "c1", "n")}
        ltr = init.get("ltr", [True, True])
        for i, layer in enumerate(self.layers):
            layer.train(bool(ltr[i]))
        # which variant / amplitude / tags every monitor object was built with: known from the
        # arguments of the call that returned a new object (weak keys: no reference is kept)
        self.ledger = weakref.WeakKeyDictionary()
        # learning-rate magnitude = trace amplitude; differs per cell unless samehp
        self.amp = {"a": 1.0, "b": 1.0 if self.cfg["samehp"] else 0.5}
        self.trainers = []
        for tt in self.ttypes:
            if tt == "stdp":
                t = STDP(1.0, -1.0, TC, TC)
            elif tt == "mstdpet":
                t = MSTDPET(1.0, -1.0, TC, TC, TC)
            else:
                raise MachineryFailure(f"unknown trainer type {tt}")
            self.trainers.append(t)
        self.trefs = [weakref.ref(t) for t in self.trainers]

    # ------------------------------------------------------------------ helpers
    def cell(self, cname):
        li, c, n = self.cellkeys[cname]
        return self.layers[li].get_cell(c, n)

    def _hp(self, cname):
        a = self.amp[cname]
        return {"lr_post": a, "lr_pre": -a}

    def _amp(self, cname, var):
        return self.amp[cname] if var == "std" else 0.25

    def _standard_monitor(self, t: int, cname: str, m: int, unique=None, var="std"):
        """Arguments with which the shipped trainer itself installs the monitor named NAMES[m-1]
        (var = "std"), or the same monitor with another amplitude and an extra tag (var = "alt")."""
        args, tags = self._standard_monitor0(t, cname, m, var)
        if var == "alt":
            tags = dict(tags, alt=1)
        if unique is not None:
            args = args[:4] + (bool(unique),)
        return args, tags

    def _standard_monitor0(self, t: int, cname: str, m: int, var: str):
        cell = self.cell(cname)
        dt = cell.connection.dt
        a = self._amp(cname, var)
        mk = dict(as_prehook=False, train_update=True, eval_update=False)
        stdp = self.ttypes[t] == "stdp"
        name = NAMES[m - 1]
        if name in ("trace_post", "trace_pre"):
            post = name == "trace_post"
            ctor = StateMonitor.partialconstructor(
                reducer=CumulativeTraceReducer(dt, TC, amplitude=a, target=True, duration=0.0, inclusive=True),
                prepend=True, **mk)
            tags = dict(dt=dt, amp=a, tc=TC)
            if stdp:
                tags["trace"] = "cumulative"
                if not post:
                    tags["delayed"] = False
            return (cname, name, "neuron.spike" if post else "connection.synspike", ctor, False), tags
        if name in ("spike_post", "spike_pre"):
            post = name == "spike_post"
            ctor = StateMonitor.partialconstructor(
                reducer=PassthroughReducer(dt, duration=0.0, inclusive=True), prepend=True, **mk)
            tags = dict(dt=dt)
            if stdp and not post:
                tags["delayed"] = False
            return (cname, name, "neuron.spike" if post else "connection.synspike", ctor, False), tags
        post = name == "elig_post"
        pre_r = weakref.WeakMethod(cell.connection.presyn_receptive)
        post_r = weakref.WeakMethod(cell.connection.postsyn_receptive)
        ctor = MultiStateMonitor.partialconstructor(
            reducer=EligibilityTraceReducer(dt, TC, obs_reshape=pre_r if post else post_r,
                                            cond_reshape=post_r if post else pre_r, duration=0.0, inclusive=True),
            subattrs=("trace_pre.latest", "spike_post.latest") if post else ("trace_post.latest", "spike_pre.latest"),
            prepend=False, **mk)
        return (cname, name, "monitors", ctor, True), {}

    # ------------------------------------------------------------------ decoding
    def _note_new(self, t: int, cname: str, var="std", unique=None):
        """Record how the monitor objects listed under (t, cname) that were not seen before were built."""
        trainer = self.trefs[t]()
        for m, name in enumerate(NAMES, start=1):
            mon = trainer.get_monitor(cname, name)
            if mon is not None and mon not in self.ledger:
                u = (m >= 5) if unique is None else bool(unique)
                self.ledger[mon] = {"var": var, "tag": not u, "amp": self._amp(cname, var)}

    def _decode(self, mon, m: int, amp: float):
        kind = "trace" if m in (1, 3) else ("pass" if m in (2, 4) else "elig")
        v = mon.peek()
        if v is None:
            return []
        if kind == "elig":
            return [0]
        x = [float(e) for e in v.detach().to(torch.float64).reshape(-1).tolist()]
        if len(x) != NB:
            return [-1]
        if kind == "pass":
            if x[0] != 1.0 or any(e not in (0.0, 1.0) for e in x):
                return [-1]
            return [sum(int(x[j + 1]) << j for j in range(NB - 1))]
        x = [e / amp for e in x]
        n = next((k for k in range(1, MAXOBS + 1) if x[0] == 2.0 - 2.0 ** (1 - k)), None)
        if n is None:
            return [-1]
        cols = []
        for j in range(1, NB):
            w = x[j] * 2.0 ** (n - 1)
            if w != int(w) or not 0 <= w < 2 ** n:
                return [-1]
            cols.append(int(w))
        return [sum(((cols[j] >> k) & 1) << j for j in range(NB - 1)) for k in range(n)]

    # ------------------------------------------------------------------ projection
    def project(self) -> dict:
        order, ids = [], {}
        pool, tr, redir = [], [], []
        for t, ref in enumerate(self.trefs):
            trainer = ref()
            if trainer is None:
                tr.append({"alive": False, "training": False, "cells": [False, False]})
                pool.append([[0] * 6 for _ in CELLS])
                redir.append([False, False])
                continue
            named = dict(trainer.named_cells)
            tr.append({"alive": True, "training": bool(trainer.training), "cells": [c in named for c in CELLS]})
            rows, rd = [], []
            for c in CELLS:
                row = []
                for m, name in enumerate(NAMES, start=1):
                    mon = trainer.get_monitor(c, name)
                    if mon is None:
                        row.append(0)
                        continue
                    if id(mon) not in ids:
                        ids[id(mon)] = len(order) + 1
                        order.append((mon, m))
                    row.append(ids[id(mon)])
                rows.append(row)
                red = False
                if self.ttypes[t] == "mstdpet" and c in named:
                    table = self.cell(c).monitors
                    for name in NAMES[:4]:
                        own = trainer.get_monitor(c, name)
                        if own is not None and (name not in table or table[name] is not own):
                            red = True
                rd.append(red)
            pool.append(rows)
            redir.append(rd)
            del trainer
        ph = []
        for mon, m in order:
            led = self.ledger.get(mon) or {"var": "?", "tag": False, "amp": 1.0}   # an object nobody asked for
            ph.append({"reg": bool(mon.registered), "rec": self._decode(mon, m, led["amp"]), "var": led["var"],
                       "tag": led["tag"]})
        del order
        ltr = [bool(layer.training) for layer in self.layers] + [True] * (2 - len(self.layers))
        return {"cfg": self.cfg, "ltr": ltr, "clk": self.clk, "tr": tr, "pool": pool, "ph": ph, "redir": redir}

    # ------------------------------------------------------------------ operations
    def apply(self, op: dict) -> dict:
        a = op["a"]
        trainer = self.trefs[op["t"] - 1]() if "t" in op else None
        cname = CELLS[op["c"] - 1] if "c" in op else None
        v, err = [], ""
        try:
            if a == "register_cell":
                try:
                    trainer.register_cell(cname, self.cell(cname), **self._hp(cname))
                finally:
                    self._note_new(op["t"] - 1, cname)
            elif a == "add_cell":
                trainer.add_cell(cname, self.cell(cname))
            elif a == "update":
                trainer.update()
            elif a == "del_cell":
                trainer.del_cell(cname)
            elif a == "add_monitor":
                args, tags = self._standard_monitor(op["t"] - 1, cname, op["m"], op["u"], op["var"])
                try:
                    trainer.add_monitor(*args, **tags)
                finally:
                    self._note_new(op["t"] - 1, cname, op["var"], op["u"])
            elif a == "del_monitor":
                trainer.del_monitor(cname, NAMES[op["m"] - 1])
            elif a == "ttrain":
                trainer.train(bool(op["b"]))
            elif a == "ltrain":
                self.layers[op["l"] - 1].train(bool(op["b"]))
            elif a == "step":
                self.clk += 1
                p = pattern(self.clk)
                layer = self.layers[op["l"] - 1]
                layer({k: (p,) for k, _ in layer.named_connections},
                      neuron_kwargs={k: {"override": p.bool()} for k, _ in layer.named_neurons})
            elif a == "tstep":
                try:
                    if self.ttypes[op["t"] - 1] == "mstdpet":
                        trainer(1.0)
                    else:
                        trainer()
                except Exception:
                    err = "Error"      # which exception an update without data raises is not specified
            elif a == "clear":
                trainer.clear()
            elif a == "drop":
                trainer = None
                self.trainers[op["t"] - 1] = None
                if self.trefs[op["t"] - 1]() is not None:
                    gc.collect()
            elif a == "list":
                what = op["what"]
                if what == "named":
                    got = [(c, n) for (c, n), _ in trainer.named_monitors]
                    got.sort(key=lambda cn: (CELLS.index(cn[0]), NAMES.index(cn[1])))
                    v = [{"c": c, "m": n} for c, n in got]
                elif what == "monitors":
                    v = [len(list(trainer.monitors))]
                elif what == "of":
                    v = [n for n, _ in trainer.named_monitors_of(cname)]
                    v.sort(key=NAMES.index)
                    if cname in dict(trainer.named_cells):
                        unit = sorted(trainer.get_unit(cname).monitors.keys(), key=NAMES.index)
                        it = [sorted(mons.keys(), key=NAMES.index) for cell, _, mons in trainer
                              if cell is self.cell(cname)]
                        if unit != v or it != [v]:
                            v = v + ["!get_unit/__iter__ disagree"]
                else:
                    byid = {id(self.cell(c)): c for c in CELLS}
                    v = sorted(byid.get(id(cell), "?") for cell, _ in trainer.cells)
            else:
                raise MachineryFailure(f"unknown operation {a}")
        except MachineryFailure:
            raise
        except Exception as e:
            err = type(e).__name__
            e = None
        trainer = None
        return {"err": err, "v": v}
