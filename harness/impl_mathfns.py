"""Adaptor between spec/MathFnsMC.tla and the real inferno helpers: evaluates every emitted
final state (bag tables, reduction-axes tables, rescale / normalize, smoothing, kernels) on
inferno.functional / inferno and reports disagreements."""
from __future__ import annotations
import math
import numpy as np
from .core import setup_repo_path

setup_repo_path()
import torch  # noqa: E402

torch.set_num_threads(1)
import inferno  # noqa: E402
from inferno import functional as F  # noqa: E402

NAN, NONE = 99, -99
FNS = ["sum", "nansum", "divsum", "nandivsum", "min", "max", "absmin", "absmax", "mean", "nanmean", "median", "nanmedian"]
QUANT = {"median", "nanmedian", "quantile", "nanquantile"}       # torch.quantile family: single int dim or None


def tens(values):
    return torch.tensor([[float("nan") if v == NAN else float(v) for v in row] for row in values]
                        if values and isinstance(values[0], list) else
                        [float("nan") if v == NAN else float(v) for v in values], dtype=torch.float32)


def _pow2(d):
    return d >= 1 and (d & (d - 1)) == 0


def matches(got: float, rats) -> bool:
    """got equals one of the admissible rationals [[n, d], ...] (d = 0: NaN); exactly when the
    denominator is a power of two, to float32 rounding otherwise"""
    for n, d in rats:
        if d == 0:
            if math.isnan(got):
                return True
            continue
        if math.isnan(got):
            continue
        want = n / d
        if got == want or (not _pow2(d) and math.isclose(got, want, rel_tol=2e-6, abs_tol=1e-7)):
            return True
    return False


def _call(fn, *a, **k):
    try:
        return fn(*a, **k), None
    except Exception as ex:   # noqa: BLE001
        return None, type(ex).__name__


def _kw(name):
    return {"denom": 4} if name in ("divsum", "nandivsum") else {}


def bag_check(rec, i, report) -> int:
    """one emitted bag: every reduction over the whole 1-D tensor, rotating through the ways of
    naming the dimension"""
    b = rec["b"]
    x = tens(b)
    n = 0
    forms = [None, 0, -1, (0,)]
    for j, name in enumerate(FNS):
        dim = [None, 0, -1][(i + j) % 3] if name in QUANT else forms[(i + j) % 4]
        keep = bool((i + j) % 2)
        out, err = _call(getattr(F, name), x, dim, keep, **_kw(name))
        n += 1
        if err or tuple(out.shape) != ((1,) if keep else ()) or not matches(float(out.reshape(-1)[0]), rec["res"][name]):
            report(name, {"data": b, "dim": dim, "keepdim": keep, "specified": rec["res"][name],
                          "observed": err or out.tolist()})
    for q4, mode, qa, nqa in rec["q"]:
        if (q4 + len(b) + i) % 2:      # half of the quantile table per bag (the other half on the next bag)
            continue
        for name, want in (("quantile", qa), ("nanquantile", nqa)):
            out, err = _call(getattr(F, name), x, 0, False, q4 / 4.0, mode)
            n += 1
            if err or out.shape != () or not matches(float(out), want):
                report(name, {"data": b, "q": q4 / 4.0, "interpolation": mode, "specified": want,
                              "observed": err or out.tolist()})
    return n


def geo_check(rec, i, report) -> int:
    x = tens(rec["b"])
    n = 0
    for name in ("geomean", "nangeomean"):
        want = rec[name]
        out, err = _call(getattr(F, name), x, [None, 0][i % 2], False)
        n += 1
        ok = err is None and out.shape == ()
        if ok:
            g = float(out)
            if want["nan"]:
                ok = math.isnan(g)
            elif want["z"]:
                ok = g == 0.0
            else:
                ok = math.isclose(g, 2.0 ** (want["e"][0] / want["e"][1]), rel_tol=1e-5)
        if not ok:
            report(name, {"data": rec["b"], "specified": want, "observed": err or out.tolist()})
    return n


DIMFORMS = {(0,): [0, -2, (0,)], (1,): [1, -1, (1,)], (0, 1): [None, (0, 1), (1, 0)]}


def grid_check(rec, i, report) -> int:
    g, axes = rec["g"], tuple(sorted(rec["axes"]))
    x = tens(g)
    n = 0
    for j, name in enumerate(FNS):
        forms = DIMFORMS[axes]
        if name in QUANT:
            forms = [f for f in forms if not isinstance(f, tuple)]
        dim = forms[(i + j) % len(forms)]
        keep = bool((i + j // 2) % 2)
        out, err = _call(getattr(F, name), x, dim, keep, **_kw(name))
        n += 1
        shape = rec["shape1"] if keep else rec["shape0"]
        ok = err is None and list(out.shape) == list(shape)
        if ok:
            flat = out.reshape(-1).tolist()
            ok = len(flat) == len(rec["slices"]) and all(matches(v, s["res"][name]) for v, s in zip(flat, rec["slices"]))
        if not ok:
            report(name, {"data": g, "dim": dim, "keepdim": keep, "specified_shape": shape,
                          "specified": [s["res"][name] for s in rec["slices"]], "observed": err or out.tolist()})
    return n


def _opt(v):
    return None if v == NONE else v


def resc_check(rec, i, report) -> int:
    b = rec["b"]
    x = tens(b)
    n = 1
    out, err = _call(inferno.rescale, x, _opt(rec["rmin"]), _opt(rec["rmax"]), srcmin=_opt(rec["smin"]),
                     srcmax=_opt(rec["smax"]), dim=[None, 0, (0,)][i % 3])
    if all(d != 0 for _, d in rec["out"]):       # defined (non-empty source range)
        if err or list(out.shape) != [len(b)] or not all(matches(v, [r]) for v, r in zip(out.tolist(), rec["out"])):
            report("rescale", {"data": b, "resmin": _opt(rec["rmin"]), "resmax": _opt(rec["rmax"]), "srcmin": _opt(rec["smin"]),
                               "srcmax": _opt(rec["smax"]), "specified": rec["out"], "observed": err or out.tolist()})
    if i % 4 == 0:
        for order, key, scale in ((1, "n1", 2.0), (float("inf"), "ninf", 1.0)):
            out, err = _call(inferno.normalize, x, order, scale, 0)
            n += 1
            if err or not all(matches(v, [r]) for v, r in zip(out.tolist(), rec[key])):
                report("normalize", {"data": b, "order": order, "scale": scale, "specified": rec[key], "observed": err or out.tolist()})
    return n


def resc_rows_check(ra, rb, report) -> int:
    """two bags of equal length as the rows of a matrix: rescale along dim 1 treats them separately"""
    x = tens([ra["b"], rb["b"]])
    out, err = _call(inferno.rescale, x, _opt(ra["rmin"]), _opt(ra["rmax"]), srcmin=_opt(ra["smin"]), srcmax=_opt(ra["smax"]), dim=1)
    want = ra["out"] + rb["out"]
    if any(d == 0 for _, d in want):
        return 0
    if err or list(out.shape) != [2, len(ra["b"])] or not all(matches(v, [r]) for v, r in zip(out.reshape(-1).tolist(), want)):
        report("rescale", {"data": [ra["b"], rb["b"]], "dim": 1, "resmin": _opt(ra["rmin"]), "resmax": _opt(ra["rmax"]),
                           "specified": want, "observed": err or out.tolist()})
    return 1


def sm_check(rec, report) -> int:
    a, b, den = rec["a4"] / 4.0, rec["b4"] / 4.0, float(rec["den"])
    level = None
    hl, ht = None, None
    try:
        for obs in rec["x"]:
            o = torch.tensor([float(obs), float(obs)])
            level = inferno.exponential_smoothing(o, level, alpha=a)
            hl, ht = inferno.holt_linear_smoothing(o, hl, ht, alpha=a, beta=b)
    except Exception as ex:   # noqa: BLE001
        report("smoothing", {"x": rec["x"], "raised": type(ex).__name__})
        return 1
    if level.tolist() != [rec["level"] / den] * 2:
        report("exponential_smoothing", {"x": rec["x"], "alpha": a, "specified": rec["level"] / den, "observed": level.tolist()})
    ok = hl.tolist() == [rec["hlevel"] / den] * 2 and ((ht is None) == (not rec["hasb"]))
    if ok and ht is not None:
        ok = ht.tolist() == [rec["htrend"] / den] * 2
    if not ok:
        report("holt_linear_smoothing", {"x": rec["x"], "alpha": a, "beta": b,
                                         "specified": {"level": rec["hlevel"] / den, "trend": rec["htrend"] / den if rec["hasb"] else None},
                                         "observed": {"level": hl.tolist(), "trend": None if ht is None else ht.tolist()}})
    return 2


def kern_check(rec, report) -> int:
    n = 0
    for tau in (2.0, 20.0):
        for lr in (0.5, -1.25):
            d = torch.tensor([float(rec["d"]), float(rec["d"]) * 1.5])
            for name, key in (("exp_stdp_post_kernel", "post"), ("exp_stdp_pre_kernel", "pre")):
                out, err = _call(getattr(F, name), d, lr, tau)
                n += 1
                gate = rec[key]["gate"]
                # the second element has the same sign as d (or is 0 with d): same gate
                want = [lr * gate * math.exp(-abs(v) / tau) for v in d.tolist()]
                if err or not np.allclose(out.numpy(), want, rtol=1e-5, atol=0) or (gate == 0 and out.abs().max() != 0):
                    report(name, {"diff": d.tolist(), "lr": lr, "tau": tau, "specified": want, "observed": err or out.tolist()})
    return n


def documented_argument_forms(report) -> int:
    """The reductions advertise `dim: tuple[int, ...] | int | None` and quantile's interpolation
    Literal; every advertised form must be accepted."""
    x = tens([[1, 3], [-2, 4]])
    n = 0
    for name in ("quantile", "nanquantile", "median", "nanmedian"):
        out, err = _call(getattr(F, name), x, (0, 1), False)
        n += 1
        if err or not matches(float(out), [[4, 2]]):            # median of {-2, 1, 3, 4} (midpoint / linear) = 2
            report("TupleDim", {"fn": name, "data": x.tolist(), "dim": [0, 1], "specified": 2.0, "observed": err or out.tolist()})
    import typing
    for name in ("quantile", "nanquantile"):
        lit = typing.get_args(typing.get_type_hints(getattr(F, name))["interpolation"])
        for mode in lit:
            out, err = _call(getattr(F, name), x, 0, False, 0.5, mode)
            n += 1
            if err:
                report("InterpolationLiteral", {"fn": name, "interpolation": mode, "observed": err})
    return n
