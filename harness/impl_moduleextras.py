"""Adaptor between spec/ModuleExtrasCore.tla and a real inferno.core.infrastructure.Module.

Values are tagged tokens {"k": kind, "v": int}: "i" Python int, "t" tensor, "p" Parameter,
"m" module (1: inferno Module owning the extra b = 9, 2: torch-only module), "-" nothing.
The projection reads the five dictionaries the specification's Mech layer models; the
operations go through the public methods / attribute protocol only."""
from __future__ import annotations
import copy, io, pickle
from .core import setup_repo_path

setup_repo_path()
import torch  # noqa: E402
from torch import nn  # noqa: E402
from inferno import Module  # noqa: E402

NIL = {"k": "-", "v": 0}


def to_py(val):
    k, v = val["k"], val["v"]
    if k == "i":
        return int(v)
    if k == "t":
        return torch.tensor(float(v))
    if k == "p":
        return nn.Parameter(torch.tensor(float(v)), requires_grad=False)
    if k == "m":
        if v == 1:
            c = Module()
            c.register_extra("b", 9)
            return c
        return nn.Identity()
    raise KeyError(k)


def tok(x):
    if x is None:
        return {"k": "n", "v": 0}
    if isinstance(x, nn.Parameter):
        return {"k": "p", "v": int(round(float(x)))}
    if isinstance(x, torch.Tensor):
        return {"k": "t", "v": int(round(float(x)))} if x.numel() == 1 else {"k": "t", "v": -777}
    if isinstance(x, nn.Module):
        return {"k": "m", "v": 1 if isinstance(x, Module) else 2}
    if isinstance(x, bool):
        return {"k": "?", "v": int(x)}
    if isinstance(x, int):
        return {"k": "i", "v": x}
    return {"k": "?", "v": -777}


class ModuleImpl:
    def __init__(self, names):
        self.names = sorted(names)
        self.m = Module()
        self.blob = None
        self.flip = 0

    def apply(self, op):
        a, n = op["a"], op.get("n")
        try:
            if a == "reg_extra":
                self.m.register_extra(n, to_py(op["val"]))
            elif a == "reg_buffer":
                self.m.register_buffer(n, to_py(op["val"]))
            elif a == "reg_param":
                self.m.register_parameter(n, to_py(op["val"]))
            elif a == "add_module":
                self.m.add_module(n, to_py(op["val"]))
            elif a == "assign":
                setattr(self.m, n, to_py(op["val"]))
            elif a == "delete":
                delattr(self.m, n)
            elif a == "get":
                return {"t": "val", "val": tok(getattr(self.m, n))}
            elif a == "get_extra":
                return {"t": "val", "val": tok(self.m.get_extra(n))}
            elif a == "get_nested":
                return {"t": "val", "val": tok(self.m.get_extra(f"{n}.b"))}
            elif a == "in_dir":
                return {"t": "bool", "b": n in dir(self.m)}
            elif a == "save":
                buf = io.BytesIO()
                torch.save(self.m.state_dict(), buf)      # serialised at once: the extras alias the live dict
                self.blob = buf.getvalue()
            elif a == "load":
                r = self.m.load_state_dict(torch.load(io.BytesIO(self.blob), weights_only=False), strict=False)
                return {"t": "load", "missing": len(r.missing_keys), "unexpected": len(r.unexpected_keys)}
            elif a == "pickle":
                self.flip += 1
                self.m = pickle.loads(pickle.dumps(self.m)) if self.flip % 2 else copy.deepcopy(self.m)
            else:
                raise KeyError(a)
            return {"t": "ok"}
        except (AttributeError, KeyError, TypeError, RuntimeError, ValueError) as e:
            if isinstance(e, KeyError) and a not in ("reg_extra", "reg_buffer", "reg_param", "add_module"):
                raise
            return {"t": "err", "e": type(e).__name__}

    def project(self):
        m = self.m
        f = lambda d: {n: (tok(d[n]) if n in d else dict(NIL)) for n in self.names}  # noqa: E731
        saved = {"has": False, "x": {n: dict(NIL) for n in self.names}, "t": {n: dict(NIL) for n in self.names}, "c": []}
        if self.blob is not None:
            sd = torch.load(io.BytesIO(self.blob), weights_only=False)
            ex = sd.get("_extra_state", {})
            saved = {"has": True, "x": f(ex), "t": f({k: v for k, v in sd.items() if k in self.names}),
                     "c": sorted(n for n in self.names if f"{n}._extra_state" in sd)}
        return {"d": f(m.__dict__), "x": f(m._extras), "p": f(m._parameters), "b": f(m._buffers), "m": f(m._modules),
                "saved": saved}
