"""Adaptor for spec/MonitorKindsCore.tla: real inferno monitors on a probe module.

State projection (same fields as the spec state): c, tr, x, preh, posth, reg, known, rec, calls."""
from __future__ import annotations
from .core import setup_repo_path

setup_repo_path()
import torch  # noqa: E402
from inferno.core.infrastructure import Module  # noqa: E402
from inferno import observe  # noqa: E402

NONE = -1


def tok(v):
    if v is None:
        return NONE
    return int(round(float(v)))


class Probe(Module):
    """attribute x (None before the first call), nested sub.y; forward(v): x := v, sub.y := 2v, returns v + 100"""

    def __init__(self):
        super().__init__()
        self.x = None
        self.sub = Module()
        self.sub.y = None

    def forward(self, v):
        self.x = v.clone()
        self.sub.y = v * 2
        return v + 100


class LogReducer(observe.Reducer):
    """probe reducer: logs the arguments of every call and every clear"""

    def __init__(self):
        super().__init__()
        self.log = []

    def clear(self, **kwargs):
        self.log.append([-9])

    def view(self, *a, **k):
        return None

    def dump(self, *a, **k):
        return None

    def peek(self, *a, **k):
        return None

    def push(self, *a, **k):
        return None

    def forward(self, *inputs, **kwargs):
        self.log.append([tok(i) for i in inputs])


def _odd(v):
    return v is not None and int(round(float(v))) % 2 == 1


def _filters(c):
    kind = c["kind"]
    if c["filt"] == "default":
        return None
    if kind == "input":
        return lambda args: _odd(args[0])
    if kind in ("output", "state"):
        return _odd
    if kind == "multi":
        return lambda t: _odd(t[0])
    return lambda final, initial: _odd(final)


def _maps(c):
    kind = c["kind"]
    if c["map"] == "default":
        return None
    dbl = lambda a: None if a is None else a * 2  # noqa: E731
    if kind in ("input", "multi"):
        return lambda t: tuple(dbl(a) for a in t)
    if kind in ("output", "state"):
        return lambda x: (dbl(x),)
    return lambda final, initial: (dbl(final), dbl(initial))


class MonitorImpl:
    def __init__(self, c: dict):
        self.c = c
        self.p = Probe()
        self.calls = 0
        self.known = bool(c["attach"])
        self.red = LogReducer()
        kind = c["kind"]
        kw = dict(train_update=c["tu"], eval_update=c["eu"], prepend=c["prepend"], filter_=_filters(c), map_=_maps(c))
        if kind in ("state", "multi"):
            kw["as_prehook"] = c["pre"]
        if kind == "diff" and c["op"] == "add":
            kw["op_"] = lambda f, i: f + i
        cls = {"input": observe.InputMonitor, "output": observe.OutputMonitor, "state": observe.StateMonitor,
               "multi": observe.MultiStateMonitor, "diff": observe.DifferenceMonitor}[kind]
        mod = self.p if c["attach"] else None
        if c["via"] == "partial":
            if kind == "multi":
                ctor = cls.partialconstructor(self.red, ("x", "sub.y"), **kw)
                self.m = ctor("", self.p)
            elif kind == "input":
                # the partial constructor of InputMonitor resolves `attr` to the SUBMODULE whose inputs are recorded
                self.holder = Module()
                self.holder.inner = self.p
                self.m = cls.partialconstructor(self.red, **kw)("inner", self.holder)
            elif kind == "output":
                self.holder = Module()
                self.holder.inner = self.p
                self.m = cls.partialconstructor(self.red, **kw)("inner", self.holder)
            else:
                self.m = cls.partialconstructor(self.red, **kw)("x", self.p)
        else:
            if kind == "multi":
                self.m = cls(self.red, "", ("x", "sub.y"), mod, **kw)
            elif kind in ("state", "diff"):
                self.m = cls(self.red, "x", mod, **kw)
            else:
                self.m = cls(self.red, mod, **kw)
        self._mut_pre = None
        self._mut_post = None

    # ---- mutator hooks (stand-ins for state hooks / user hooks)
    @staticmethod
    def _premut(module, args):
        if module.x is not None:
            module.x = module.x + 1000
        return (args[0] + 10,)

    @staticmethod
    def _postmut(module, args, output):
        module.x = module.x + 2000
        return output + 5000

    def apply(self, op: dict):
        a = op["a"]
        try:
            if a == "call":
                self.calls += 1
                out = self.p(torch.tensor(float(op["v"])))
                return {"t": "out", "v": tok(out)}
            if a == "register":
                self.m.register()
            elif a == "register_mod":
                self.m.register(self.p)
                self.known = True
            elif a == "deregister":
                self.m.deregister()
            elif a == "add_mut":
                if op["w"] == "pre":
                    self._mut_pre = self.p.register_forward_pre_hook(self._premut)
                else:
                    self._mut_post = self.p.register_forward_hook(self._postmut)
            elif a == "train":
                self.p.train(bool(op["m"]))
            elif a == "clear":
                self.m.clear()
            else:
                raise AssertionError(a)
            return {"t": "ok"}
        except (RuntimeError, TypeError, ValueError, AttributeError, KeyError, IndexError) as e:
            return {"t": "err", "e": type(e).__name__}

    def _hooks(self, d, mine):
        out = []
        for k, f in d.items():
            out.append("mut" if f is mine else "mon")
        return out

    def project(self) -> dict:
        return {
            "c": self.c, "tr": bool(self.p.training), "x": tok(self.p.x),
            "preh": self._hooks(self.p._forward_pre_hooks, self._premut),
            "posth": self._hooks(self.p._forward_hooks, self._postmut),
            "reg": bool(self.m.registered), "known": self.known,
            "rec": [list(r) for r in self.red.log], "calls": self.calls,
        }
