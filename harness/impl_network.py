"""Adaptor for spec/NetworkCore.tla: a real two-layer network (two Serial(LinearDense + DeltaCurrent, LIF) layers)
trained by one real STDP trainer registered on both cells, in the dyadic recipe (membrane and trace decays exactly
1/2, unit synaptic charge), projected to exact scaled integers."""
from __future__ import annotations
import math
from .core import setup_repo_path, MachineryFailure

setup_repo_path()
import torch  # noqa: E402
import inferno  # noqa: E402
from inferno import neural, learn  # noqa: E402

SENT = 1073741823
REST, RESET, THETA = -2, -4, 4
W1 = {"a": [[16, 0], [8, 8]], "b": [[8, 8], [16, -8]]}
W2 = {"a": [[8, 8]], "b": [[16, 8]]}


def recipe_exact(dt: float) -> bool:
    tau = dt / math.log(2.0)
    return float(inferno.exp(-dt / tau)) == 0.5 and bool((torch.exp(torch.tensor(-dt / tau)) == 0.5))


class NetworkImpl:
    def __init__(self, c: dict, dt: float = 1.0):
        self.c, self.dt = c, float(dt)
        self.S, self.T = int(c["S"]), int(c["T"])
        tau = self.dt / math.log(2.0)
        rec = c["Recipe"]
        self.lr_post, self.lr_pre = float(c["LrPost"]), -float(c["LrPre"])

        def layer(w, nin, nout):
            conn = neural.LinearDense((nin,), (nout,), self.dt, synapse=neural.DeltaCurrent.partialconstructor(self.dt),
                                      weight_init=lambda t: torch.tensor(w, dtype=torch.float32), batch_size=1)
            conn.updater = conn.defaultupdater()
            lif = neural.LIF((nout,), self.dt, rest_v=float(REST), reset_v=float(RESET), thresh_v=float(THETA),
                             refrac_t=c["RefSteps"] * self.dt, time_constant=tau, resistance=1.0, batch_size=1)
            return neural.Serial(conn, lif)

        self.l1 = layer(W1[rec], 2, 2)
        self.l2 = layer(W2[rec], 2, 1)
        self.hooks = []
        if c.get("Clamp", "none") == "box":
            # the quickstart's weight bounding: a Clamping hook on each updater (kept alive: a collected hook deregisters)
            for lay in (self.l1, self.l2):
                h = neural.Clamping(lay.connection.updater, "parent.weight", min=0.0, max=16.0)
                h.register()
                self.hooks.append(h)
        self.trainer = learn.STDP(lr_post=self.lr_post, lr_pre=self.lr_pre, tc_post=tau, tc_pre=tau)
        self.trainer.register_cell("one", self.l1.cell)
        self.trainer.register_cell("two", self.l2.cell)
        self.last = [None, None]
        self.stepped = [False, False]
        self.steps = 0

    # ---- operations
    def apply(self, op: dict):
        a = op["a"]
        if a == "step":
            x = torch.tensor([[bool(v) for v in op["x"]]])
            s1 = self.l1(x)
            s2 = self.l2(s1)
            self.trainer()
            self.last = [s1.detach().reshape(-1).clone(), s2.detach().reshape(-1).clone()]
            self.stepped = [True, True]
            self.steps += 1
            return {"t": "spikes", "s1": [bool(v) for v in self.last[0]], "s2": [bool(v) for v in self.last[1]]}
        if a == "update":
            self.l1.connection.update()
            self.l2.connection.update()
        elif a == "tupdate":
            self.trainer.update()
        elif a == "ttrain":
            self.trainer.train(bool(op["b"]))
        elif a == "clear":
            self.l1.clear()
            self.l2.clear()
            self.trainer.clear()
            self.last = [None, None]
            self.stepped = [False, False]
        else:
            raise MachineryFailure(f"unknown operation {op}")
        return {"t": "ok"}

    # ---- projection
    def _sc(self, x: float, scale: int) -> int:
        y = float(x) * scale
        r = round(y)
        return int(r) if (abs(y - r) < 2 ** -8 and abs(r) < 2 ** 30) else SENT

    def _neurons(self, lif, li):
        v = lif.voltage.detach().reshape(-1).tolist()
        r = lif.refrac.detach().reshape(-1).tolist()
        at = lif.spike.detach().reshape(-1).tolist()
        out = []
        for e in range(len(v)):
            q = r[e] / self.dt
            spk = bool(self.last[li][e]) if self.last[li] is not None else False
            out.append({"r": int(q) if q == int(q) and q >= 0 else -7, "lag": False, "spk": spk,
                        "attr": bool(at[e]) if self.stepped[li] else False, "v": self._sc(v[e], self.S), "ad": 0})
        return out

    def _trace(self, cell, name, amp, n):
        mon = self.trainer.get_monitor(cell, name)
        val = mon.peek()
        if val is None:
            return [0] * n
        return [self._sc(x / amp, self.T) for x in val.detach().reshape(-1).tolist()]

    def _parts(self, conn):
        acc = conn.updater.weight
        shape = conn.weight.shape

        def mat(t):
            if t is None:
                return [[0] * shape[1] for _ in range(shape[0])]
            return [[self._sc(x, self.S) for x in row] for row in t.detach().reshape(shape).tolist()]
        return mat(acc.pos), mat(acc.neg)

    def project(self) -> dict:
        c1, c2 = self.l1.connection, self.l2.connection
        a_post, a_pre = abs(self.lr_post), abs(self.lr_pre)
        t0 = self._trace("one", "trace_pre", a_post, 2)
        t1 = self._trace("one", "trace_post", a_pre, 2)
        t1b = self._trace("two", "trace_pre", a_post, 2)
        t2 = self._trace("two", "trace_post", a_pre, 1)
        if t1 != t1b:
            t1 = [SENT] * 2         # the two cells disagree about the spikes of the layer between them
        p1, q1 = self._parts(c1)
        p2, q2 = self._parts(c2)
        return {"w1": [[self._sc(x, self.S) for x in row] for row in c1.weight.detach().tolist()],
                "w2": [[self._sc(x, self.S) for x in row] for row in c2.weight.detach().tolist()],
                "n1": self._neurons(self.l1.neuron, 0), "n2": self._neurons(self.l2.neuron, 1),
                "t0": t0, "t1": t1, "t2": t2, "p1": p1, "q1": q1, "p2": p2, "q2": q2,
                "training": bool(self.trainer.training), "hist": [], "old": 0, "steps": self.steps}
