"""Adaptor between the NeuronCore specification vocabulary and the real inferno neuron
classes (LIF, ALIF, GLIF1, GLIF2, QIF, Izhikevich, EIF, AdEx).

Times are ticks (`tick` milliseconds each; a step is D ticks, the refractory period R
ticks).  Two modes:

* category mode: before each step the harness evaluates the DOCUMENTED update equation in
  float64 from the public state (voltage, refrac, adaptations, current threshold) - only to
  classify the integrated voltage against the threshold as lt / ge / near - and after the
  step says which of the candidate voltages (reset / kept / integrated / integrated with a
  masked input) the observed voltage equals;
* dyadic mode (linear family): decay exactly 1/2, integer parameters, voltages reported
  exactly as integers scaled by 2^K.
"""
from __future__ import annotations
import math
import numpy as np
from .core import setup_repo_path

setup_repo_path()
import torch  # noqa: E402
import inferno  # noqa: E402
from inferno.neural import LIF, ALIF, GLIF1, GLIF2, QIF, Izhikevich, EIF, AdEx  # noqa: E402

torch.set_num_threads(1)

EPS32 = 2.0 ** -23
CLASSES = {"LIF": LIF, "ALIF": ALIF, "GLIF1": GLIF1, "GLIF2": GLIF2, "QIF": QIF, "Izhikevich": Izhikevich,
           "EIF": EIF, "AdEx": AdEx}
FAMILY = {"LIF": "linear", "ALIF": "linear", "GLIF1": "linear", "GLIF2": "linear", "QIF": "quadratic",
          "Izhikevich": "quadratic", "EIF": "exponential", "AdEx": "exponential"}
ADAPTIVE_THRESH = {"ALIF", "GLIF2"}
ADAPTIVE_CURRENT = {"Izhikevich", "AdEx"}
ADAPTIVE = ADAPTIVE_THRESH | ADAPTIVE_CURRENT

# real-valued recipes (documented domains: rest < thresh, reset < thresh, rest < crit <= thresh ...)
RECIPES = {
    "LIF": [dict(rest_v=-60.0, reset_v=-65.0, thresh_v=-50.0, time_constant=20.0, resistance=1.0),
            dict(rest_v=-70.0, reset_v=-72.5, thresh_v=-51.3, time_constant=7.3, resistance=2.5)],
    "GLIF1": [dict(rest_v=-60.0, reset_v=-65.0, thresh_v=-50.0, time_constant=20.0, resistance=1.0),
              dict(rest_v=-64.0, reset_v=-60.0, thresh_v=-48.0, time_constant=2.0, resistance=0.5)],
    "ALIF": [dict(rest_v=-60.0, reset_v=-65.0, thresh_eq_v=-50.0, tc_membrane=20.0, tc_adaptation=(20.0, 7.3),
                  spike_increment=(2.0, 0.5), resistance=1.0),
             dict(rest_v=-70.0, reset_v=-71.0, thresh_eq_v=-55.0, tc_membrane=7.3, tc_adaptation=30.0,
                  spike_increment=1.5, resistance=2.0)],
    "GLIF2": [dict(rest_v=-60.0, reset_v_add=2.0, reset_v_mul=0.5, thresh_eq_v=-50.0, tc_membrane=20.0,
                   rc_adaptation=(0.05, 0.2), spike_increment=(1.0, 0.25), resistance=1.0),
              dict(rest_v=-70.0, reset_v_add=5.0, reset_v_mul=0.1, thresh_eq_v=-52.0, tc_membrane=7.3,
                   rc_adaptation=0.1, spike_increment=2.0, resistance=1.5)],
    "QIF": [dict(rest_v=-60.0, crit_v=-50.0, affinity=0.04, reset_v=-65.0, thresh_v=-30.0, time_constant=10.0,
                 resistance=1.0),
            dict(rest_v=-65.0, crit_v=-45.0, affinity=0.1, reset_v=-70.0, thresh_v=-45.0, time_constant=7.3,
                 resistance=2.0)],
    "Izhikevich": [dict(rest_v=-60.0, crit_v=-50.0, affinity=0.04, reset_v=-65.0, thresh_v=-30.0, tc_membrane=10.0,
                        tc_adaptation=(50.0, 20.0), voltage_coupling=(0.2, -0.1), spike_increment=(1.0, 0.5),
                        resistance=1.0),
                   dict(rest_v=-65.0, crit_v=-45.0, affinity=0.1, reset_v=-70.0, thresh_v=-40.0, tc_membrane=7.3,
                        tc_adaptation=30.0, voltage_coupling=0.05, spike_increment=2.0, resistance=2.0)],
    "EIF": [dict(rest_v=-60.0, rheobase_v=-50.0, sharpness=2.0, reset_v=-65.0, thresh_v=-30.0, time_constant=10.0,
                 resistance=1.0),
            dict(rest_v=-65.0, rheobase_v=-52.0, sharpness=1.0, reset_v=-68.0, thresh_v=-40.0, time_constant=7.3,
                 resistance=2.0)],
    "AdEx": [dict(rest_v=-60.0, rheobase_v=-50.0, sharpness=2.0, reset_v=-65.0, thresh_v=-30.0, tc_membrane=10.0,
                  tc_adaptation=(50.0, 20.0), voltage_coupling=(0.2, -0.1), spike_increment=(1.0, 0.5),
                  resistance=1.0),
             dict(rest_v=-65.0, rheobase_v=-52.0, sharpness=1.0, reset_v=-68.0, thresh_v=-40.0, tc_membrane=7.3,
                  tc_adaptation=30.0, voltage_coupling=0.05, spike_increment=2.0, resistance=2.0)],
}


# regimes in which a REFRACTORY neuron reaches its threshold by itself:
#  * quadratic / exponential neurons whose reset voltage lies above the critical / rheobase voltage: the
#    membrane climbs during the refractory period when it is not locked;
#  * adaptive thresholds with negative spike increments: the adapted threshold sinks below the reset voltage;
#  * GLIF2 with a reset map that does not bring the voltage below the threshold.
RECIPES["QIF"].append(dict(rest_v=-60.0, crit_v=-50.0, affinity=1.0, reset_v=-45.0, thresh_v=-30.0, time_constant=10.0,
                           resistance=1.0))
RECIPES["Izhikevich"].append(dict(rest_v=-60.0, crit_v=-50.0, affinity=1.0, reset_v=-45.0, thresh_v=-30.0,
                                  tc_membrane=10.0, tc_adaptation=50.0, voltage_coupling=0.02, spike_increment=0.5,
                                  resistance=1.0))
RECIPES["EIF"].append(dict(rest_v=-60.0, rheobase_v=-50.0, sharpness=2.0, reset_v=-43.0, thresh_v=-30.0,
                           time_constant=5.0, resistance=1.0))
RECIPES["AdEx"].append(dict(rest_v=-60.0, rheobase_v=-50.0, sharpness=2.0, reset_v=-43.0, thresh_v=-30.0,
                            tc_membrane=5.0, tc_adaptation=50.0, voltage_coupling=0.02, spike_increment=0.5,
                            resistance=1.0))
RECIPES["ALIF"].append(dict(rest_v=-60.0, reset_v=-52.0, thresh_eq_v=-50.0, tc_membrane=20.0, tc_adaptation=(40.0, 15.0),
                            spike_increment=(-2.0, -1.5), resistance=1.0))
RECIPES["GLIF2"].append(dict(rest_v=-60.0, reset_v_add=-1.0, reset_v_mul=1.0, thresh_eq_v=-50.0, tc_membrane=20.0,
                             rc_adaptation=(0.03, 0.1), spike_increment=(-1.5, -1.0), resistance=1.0))


def is_dyadic(x: float) -> bool:
    """x is a multiple of 2^-10 of modest size: float32 arithmetic on such numbers is exact."""
    y = x * 1024.0
    return abs(x) < 2 ** 12 and y == math.floor(y)


def build(cls: str, shape, batch: int, dt: float, refrac_t: float, params: dict, batch_reduction=None):
    kw = dict(params)
    kw["refrac_t"] = refrac_t
    kw["batch_size"] = batch
    if cls in ADAPTIVE and batch_reduction is not None:
        kw["batch_reduction"] = batch_reduction
    return CLASSES[cls](tuple(shape), dt, **kw)


def _tc(n, cls):
    return n.time_constant if cls in ("LIF", "GLIF1", "QIF", "EIF") else n.tc_membrane


def forward(n, cls: str, inputs, lock: bool, adapt: bool):
    if cls in ADAPTIVE:
        return n(inputs, adapt=adapt, refrac_lock=lock)
    return n(inputs, refrac_lock=lock)


# ------------------------------------------------------------------ documented equations, float64
def ref_integrate(n, cls: str, v: np.ndarray, cur: np.ndarray):
    """V(t + dt) per the documented update equation, evaluated in float64.
    Returns (value, magnitude) - magnitude bounds the sum of absolute values of the terms,
    from which the float32 error margin is derived."""
    fam = FAMILY[cls]
    dt, tau, res, rest = float(n.step_time), float(_tc(n, cls)), float(n.resistance), float(n.rest_v)
    with np.errstate(over="ignore", invalid="ignore"):
        ext = res * cur
        if fam == "linear":
            q = math.exp(-dt / tau)
            val = (v - rest - ext) * q + rest + ext
            mag = np.abs(v) + 2 * abs(rest) + 3 * np.abs(ext) + np.abs(val)
        elif fam == "quadratic":
            a, crit = float(n.affinity), float(n.crit_v)
            k = dt / tau
            dyn = a * (v - rest) * (v - crit)
            val = v + k * (dyn + ext)
            mag = (np.abs(v) + k * (a * (np.abs(v) + abs(rest)) * (np.abs(v) + abs(crit)) * 3 + np.abs(ext) * 2)
                   + np.abs(val))
        else:
            sharp, rheo = float(n.sharpness), float(n.rheobase_v)
            k = dt / tau
            x = (v - rheo) / sharp
            ex = sharp * np.exp(np.minimum(x, 700.0))
            val = v + k * (-(v - rest) + ex + ext)
            mag = (np.abs(v) + k * ((np.abs(v) + abs(rest)) * 2 + ex * (3 + 2 * np.abs(x) + (abs(rheo) + np.abs(v)) / sharp)
                                    + np.abs(ext) * 2) + np.abs(val))
    return val, mag


def margin(mag):
    return 64 * EPS32 * mag + 1e-6


def same_value(obs: np.ndarray, ref: np.ndarray, tol: np.ndarray):
    """observed float32 value equals the float64 reference within the error margin (both
    overflowing to the same side counts as equal)."""
    with np.errstate(invalid="ignore", over="ignore"):
        close = np.abs(obs - ref) <= tol
        big = (np.abs(ref) > 1e37) & (np.abs(obs) > 1e36) & (np.sign(ref) == np.sign(obs))
    return close | big


class NeuronProbe:
    """Drives a real neuron module step by step and projects every step, per element, to the
    NeuronCore vocabulary (category mode)."""

    def __init__(self, cls, shape, batch, D, R, tick, lock, adapt, params, lax, batch_reduction=None,
                 module=None, dt_built=None, f64=False):
        self.cls, self.shape, self.batch = cls, tuple(shape), batch
        self.D, self.R, self.tick, self.lock, self.adapt, self.lax = D, R, float(tick), lock, adapt, lax
        self.dt = D * self.tick
        self.refrac_t = R * self.tick
        self.params = params
        if module is not None:
            self.n = module
        elif dt_built is None:
            self.n = build(cls, shape, batch, self.dt, self.refrac_t, params, batch_reduction)
        else:
            # built with another step time and brought to `dt` through the public setter: the step contract must hold
            # with the step time the neuron reports (constants derived from dt must follow the setter)
            self.n = build(cls, shape, batch, dt_built, self.refrac_t, params, batch_reduction)
            self.n.dt = self.dt
        if f64:
            # the whole group moved to double precision through Module.to: the step contract (and the spike flag derived
            # from the refractory state) must hold as it does in single precision
            self.n = self.n.to(torch.float64)
        self.E = batch * int(math.prod(self.shape))
        self.nan_seen = False

    # ---- public state
    def thresholds(self) -> np.ndarray:
        """current threshold per element = equilibrium + sum of adaptations (broadcast over batch)"""
        n = self.n
        if self.cls in ADAPTIVE_THRESH:
            th = float(n.thresh_eq_v) + n.threshold_adaptation.detach().double().sum(-1).numpy()
            return np.broadcast_to(th, (self.batch,) + self.shape).reshape(-1).copy()
        return np.full(self.E, float(n.thresh_v))

    def effective_current(self, inputs: torch.Tensor) -> np.ndarray:
        cur = inputs.detach().double().numpy()
        if self.cls in ADAPTIVE_CURRENT:
            cur = cur - self.n.current_adaptation.detach().double().sum(-1).numpy()
        return cur.reshape(-1).copy()

    def adaptation_sum(self) -> np.ndarray:
        if self.cls in ADAPTIVE_CURRENT:
            w = self.n.current_adaptation.detach().double().sum(-1).numpy()
            return np.broadcast_to(w, (self.batch,) + self.shape).reshape(-1).copy()
        return np.zeros(self.E)

    def voltages(self) -> np.ndarray:
        return self.n.voltage.detach().double().reshape(-1).numpy().copy()

    def refracs(self) -> np.ndarray:
        return self.n.refrac.detach().double().reshape(-1).numpy().copy()

    def ticks(self, refrac: np.ndarray):
        """refrac (ms) -> (ticks, lag, negative).  Strict mode: exact multiples of a tick only
        (anything else is reported as -7, which no specified outcome has)."""
        q = refrac / self.tick
        rt = np.rint(q)
        neg = refrac < 0
        if self.lax:
            lag = (rt == 0) & (refrac > 0)
            bad = np.abs(q - rt) > 0.05
        else:
            lag = np.zeros_like(neg)
            bad = q != rt
        rt = np.where(bad | neg, -7, rt)
        return rt.astype(int), lag, neg

    def init_state(self):
        attr = self.n.spike.detach().reshape(-1).numpy()
        rt, lag, neg = self.ticks(self.refracs())
        return [{"r": int(rt[e]), "lag": bool(lag[e]), "spk": False, "attr": bool(attr[e]), "v": 0, "ad": 0}
                for e in range(self.E)]

    def config(self):
        return {"D": self.D, "R": self.R, "lock": self.lock, "lax": self.lax, "attrmode": "stored", "dy": False,
                "rest": 0, "reset": 0, "theta": 0, "glif": False, "mul2": 0, "add": 0, "adapt": False, "inc": 0}

    def target_current(self, target_v: np.ndarray) -> np.ndarray:
        """external current that makes the documented equation yield `target_v` (used for the
        adversarial near-threshold drives)"""
        n, cls = self.n, self.cls
        v = self.voltages()
        dt, tau, res, rest = float(n.step_time), float(_tc(n, cls)), float(n.resistance), float(n.rest_v)
        fam = FAMILY[cls]
        with np.errstate(over="ignore", invalid="ignore"):
            if fam == "linear":
                q = math.exp(-dt / tau)
                ext = (target_v - rest - (v - rest) * q) / (1 - q)
            elif fam == "quadratic":
                k = dt / tau
                ext = (target_v - v) / k - float(n.affinity) * (v - rest) * (v - float(n.crit_v))
            else:
                k = dt / tau
                sharp = float(n.sharpness)
                ext = (target_v - v) / k + (v - rest) - sharp * np.exp(np.minimum((v - float(n.rheobase_v)) / sharp, 80.0))
        cur = ext / res + self.adaptation_sum()
        return np.nan_to_num(cur, nan=0.0, posinf=1e6, neginf=-1e6)

    def refractory_next(self):
        """per element: will it (surely) still be refractory in the next step / surely be free?
        (undecided - None - when the lax float model may go either way)"""
        r0 = self.refracs()
        d = r0 - self.dt
        if self.lax:
            sure_nf = d > 0.25 * self.tick
            sure_f = d < -0.25 * self.tick
        else:
            sure_nf = d > 0
            sure_f = d <= 0
        return sure_nf, sure_f

    def poke_refractory(self, rng, prob=0.35):
        """Through the public `voltage` setter, move some elements that will still be refractory in
        the next step to a voltage whose refractory evolution (kept when locked, integrated with a
        masked input otherwise) lies at / above or just below the current threshold.  Returns the
        list of (element, voltage) assignments (for replays)."""
        sure_nf, _ = self.refractory_next()
        idx = [e for e in range(self.E) if sure_nf[e] and rng.random() < prob]
        if not idx:
            return []
        th = self.thresholds()
        v = self.voltages()
        out = []
        for e in idx:
            above = rng.random() < 0.7
            if above:
                cands = [th[e] + d for d in (rng.uniform(0.5, 4.0), 20.0, 100.0, 1000.0)]
            else:
                cands = [th[e] - d for d in (rng.uniform(0.5, 6.0),)]
            pick = cands[0]
            if not self.lock:
                # unlocked: the voltage integrates a masked input for every remaining refractory step; it
                # must stay finite (the property is quantified over NaN-free executions) and, for an
                # "above" poke, the first such step must still end at / above threshold
                r0 = float(self.refracs()[e])
                n_nf = max(1, int(math.ceil(r0 / self.dt - 1e-6)) - 1) + (1 if self.lax else 0)
                pick = None
                for c in cands:
                    vv = v.copy()
                    vv[e] = float(np.float32(c))
                    ok, first = True, None
                    for k in range(n_nf):
                        vi0, m0 = ref_integrate(self.n, self.cls, vv, np.zeros_like(vv))
                        if not np.isfinite(vi0[e]) or abs(vi0[e]) > 1e30:
                            ok = False
                            break
                        if k == 0:
                            first = (vi0[e], m0[e])
                        vv[e] = vi0[e]
                    if ok and (not above or first[0] >= th[e] + margin(first[1] + abs(th[e]))):
                        pick = c
                        break
                if pick is None:
                    continue
            v[e] = float(np.float32(pick))
            out.append((e, float(v[e])))
        self.n.voltage = torch.tensor(v, dtype=self.n.voltage.dtype).reshape((self.batch,) + self.shape)
        return out

    def apply_pokes(self, pokes):
        if not pokes:
            return
        v = self.voltages()
        for e, val in pokes:
            v[e] = val
        self.n.voltage = torch.tensor(v, dtype=self.n.voltage.dtype).reshape((self.batch,) + self.shape)

    def step(self, inputs: torch.Tensor, freeze: str | None = None):
        """one forward() call; returns the per-element events (or None once a NaN was seen:
        the property is quantified over NaN-free executions).  `freeze` steps an adapting neuron with its
        adaptations frozen for this call: "false" passes adapt=False, "eval" switches the module to eval mode and
        passes adapt=None (the threshold in force is still equilibrium + current adaptations)."""
        n, cls = self.n, self.cls
        inputs = inputs.to(n.voltage.dtype)
        v0 = self.voltages()
        r0 = self.refracs()
        th = self.thresholds()
        sure_nf, sure_f = self.refractory_next()
        cur = self.effective_current(inputs)
        vint, mag = ref_integrate(n, cls, v0, cur)
        vint0, mag0 = ref_integrate(n, cls, v0, np.zeros_like(cur))
        tol = margin(mag + np.abs(th))
        tol0 = margin(mag0)
        with np.errstate(invalid="ignore"):
            cat = np.where(np.abs(vint - th) <= tol, "near", np.where(vint >= th, "ge", "lt"))
        if np.isnan(vint).any() or np.isnan(vint0).any() or np.isnan(v0).any():
            self.nan_seen = True
            return None
        if freeze == "eval" and cls in ADAPTIVE:
            was = n.training
            n.eval()
            try:
                ret = forward(n, cls, inputs, self.lock, None)
            finally:
                n.train(was)
        else:
            ret = forward(n, cls, inputs, self.lock, False if freeze == "false" else self.adapt)
        spk = ret.detach().reshape(-1).numpy().astype(bool)
        attr = n.spike.detach().reshape(-1).numpy().astype(bool)
        v1 = self.voltages()
        r1 = self.refracs()
        if np.isnan(v1).any():
            self.nan_seen = True
            return None
        rt, lag, neg = self.ticks(r1)
        # candidate voltages
        if cls == "GLIF2":
            rest = float(n.rest_v)
            resetv = rest + float(n.reset_v_mul) * (vint - rest) - float(n.reset_v_add)
            with np.errstate(invalid="ignore", over="ignore"):
                m_reset = same_value(v1, resetv, margin(mag * (1 + abs(float(n.reset_v_mul))) + abs(float(n.reset_v_add))))
        else:
            m_reset = v1 == float(np.float32(float(n.reset_v)))
        m_keep = v1 == v0
        m_int = same_value(v1, vint, tol)
        m_int0 = same_value(v1, vint0, tol0)
        # what a refractory element's voltage does: kept (locked) or integrated with a masked input
        with np.errstate(invalid="ignore"):
            if self.lock:
                tk = margin(np.abs(v0) + np.abs(th))
                effcat = np.where(np.abs(v0 - th) <= tk, "near", np.where(v0 >= th, "ge", "lt"))
            else:
                tk = margin(mag0 + np.abs(th))
                effcat = np.where(np.abs(vint0 - th) <= tk, "near", np.where(vint0 >= th, "ge", "lt"))
        evs = []
        for e in range(self.E):
            free = True if sure_f[e] else (False if sure_nf[e] else None)
            evs.append({"op": {"cat": str(cat[e])}, "ret": {"spk": bool(spk[e])},
                        "st": {"r": int(rt[e]), "lag": bool(lag[e]), "rneg": bool(neg[e]), "attr": bool(attr[e]),
                               "vm": {"reset": bool(m_reset[e]), "keep": bool(m_keep[e]), "int": bool(m_int[e]),
                                      "int0": bool(m_int0[e])}},
                        "raw": {"v0": float(v0[e]), "v1": float(v1[e]), "vint": float(vint[e]), "th": float(th[e]),
                                "r0": float(r0[e]), "r1": float(r1[e]), "cur": float(cur[e]), "free": free,
                                "effcat": str(effcat[e])}})
        return evs


# ------------------------------------------------------------------ dyadic mode (binding A)
SENT = 1073741823   # "not representable on the dyadic grid": no specified outcome carries it


class DyadicNeuron:
    """A real linear-family neuron with decay exactly 1/2 and integer parameters, driven by
    the operations of NeuronMC's dyadic mode; state projected to exact scaled integers."""

    def __init__(self, c: dict, cls: str, scale: int, tick: float, shape=(2,), batch=1, waive_attr=False):
        self.c, self.cls, self.S, self.tick = c, cls, scale, float(tick)
        self.waive_attr = waive_attr   # second pass only, after a SpikeAttr deviation has been reported
        self.shape, self.batch = tuple(shape), batch
        D, R = c["D"], c["R"]
        dt = D * self.tick
        tau = dt / math.log(2.0)
        S = float(scale)
        rest, reset, theta = c["rest"] / S, c["reset"] / S, c["theta"] / S
        if cls in ("LIF", "GLIF1"):
            p = dict(rest_v=rest, reset_v=reset, thresh_v=theta, time_constant=tau, resistance=1.0)
        elif cls == "ALIF":
            p = dict(rest_v=rest, reset_v=reset, thresh_eq_v=theta, tc_membrane=tau, tc_adaptation=tau,
                     spike_increment=c["inc"] / S, resistance=1.0)
        elif cls == "GLIF2":
            p = dict(rest_v=rest, reset_v_add=c["add"] / S, reset_v_mul=c["mul2"] / 2.0, thresh_eq_v=theta,
                     tc_membrane=tau, rc_adaptation=1.0 / tau, spike_increment=c["inc"] / S, resistance=1.0)
        else:
            raise KeyError(cls)
        self.n = build(cls, self.shape, batch, dt, R * self.tick, p)
        self.last = None
        self.stepped = False

    @staticmethod
    def recipe_exact(cls: str, dt: float) -> bool:
        """the float recipe really gives a decay of exactly 1/2 (else the recipe is skipped)"""
        tau = dt / math.log(2.0)
        if float(inferno.exp(-dt / tau)) != 0.5:
            return False
        if cls == "ALIF":
            return bool((inferno.exp(-dt / torch.tensor([tau])) == 0.5).all())
        if cls == "GLIF2":
            return bool((inferno.exp(-dt / (1 / torch.tensor([1.0 / tau]))) == 0.5).all())
        return True

    def apply(self, op):
        x = torch.full((self.batch,) + self.shape, op["cur"] / float(self.S))
        s = forward(self.n, self.cls, x, self.c["lock"], self.c["adapt"]) if self.cls in ADAPTIVE else \
            self.n(x, refrac_lock=self.c["lock"])
        self.last = s.detach().reshape(-1).clone()
        self.stepped = True
        return self._ret

    def _scaled(self, x: float) -> int:
        y = x * self.S
        r = round(y)
        return int(r) if (abs(y - r) < 2 ** -8 and abs(r) < 2 ** 30) else SENT

    def _elems(self):
        n = self.n
        v = n.voltage.detach().reshape(-1).tolist()
        r = n.refrac.detach().reshape(-1).tolist()
        a = n.spike.detach().reshape(-1).tolist()
        if self.cls in ADAPTIVE_THRESH:
            ad = n.threshold_adaptation.detach().double().sum(-1)
            ad = ad.expand((self.batch,) + self.shape).reshape(-1).tolist()
        else:
            ad = [0.0] * len(v)
        out = []
        for e in range(len(v)):
            q = r[e] / self.tick
            rt = int(q) if q == int(q) and q >= 0 else -7
            spk = bool(self.last[e]) if self.last is not None else False
            out.append({"r": rt, "lag": False, "spk": spk,
                        # before the first step there is no "most recent step": not judged
                        "attr": (spk if self.waive_attr else bool(a[e])) if self.stepped else False,
                        "v": self._scaled(v[e]), "ad": self._scaled(ad[e])})
        return out

    def project(self):
        els = self._elems()
        pick = els[0]
        for x in els[1:]:
            if x != els[0]:
                pick = x     # elements received the same drive: any difference is a deviation
                break
        self._picked = pick
        return {"c": self.c, "m": pick}

    @property
    def _ret(self):
        # the return value is compared through its determined fields only (see props/neuron_common)
        els = self._elems()
        pick = els[0]
        for x in els[1:]:
            if x != els[0]:
                pick = x
                break
        return {"spk": pick["spk"]}
