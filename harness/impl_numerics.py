"""Adaptor between the Numerics specifications (spec/NumericsMC.tla, spec/DistTrace.tla) and
the real inferno helpers: evaluates victor_purpura_pair_dist, isi, the interp_* / extrap_*
kernels and the inferno.stats distributions, and compares with / logs for the specification."""
from __future__ import annotations
import math
import numpy as np
from .core import setup_repo_path, MachineryFailure

setup_repo_path()
import torch  # noqa: E402

torch.set_num_threads(1)
import inferno  # noqa: E402
from inferno import functional as inf_f  # noqa: E402
from inferno.stats import Poisson, Normal, LogNormal  # noqa: E402

INF = float("inf")
Q = 1_000_000


# --------------------------------------------------------------------------- Victor-Purpura
def vp_check(group, unit: float, report) -> int:
    """group: all emitted records of one pair of trains {a, b, q2, d2} (one per cost).
    Times are a*unit and the costs q/unit, so the distance is unchanged."""
    a, b = group[0]["a"], group[0]["b"]
    t0 = torch.tensor([x * unit for x in a], dtype=torch.float32)
    t1 = torch.tensor([x * unit for x in b], dtype=torch.float32)
    n = 0
    costs = []
    for rec in group:
        q = INF if rec["q2"] == -1 else rec["q2"] / 2.0 / unit
        costs.append(q)
        want = rec["d2"] / 2.0
        n += 1
        try:
            got = inferno.victor_purpura_pair_dist(t0, t1, q)
            ok = tuple(got.shape) == (1,) and float(got[0]) == want
            obs = got.tolist()
        except Exception as ex:
            ok, obs = False, type(ex).__name__
        if not ok:
            report("VPScalarCost", {"t0": t0.tolist(), "t1": t1.tolist(), "cost": q, "specified": want, "observed": obs})
    # a very large FINITE cost on large spike times: once cost * (smallest time difference) >= 2 the distance no longer
    # depends on the cost, so it must equal the specified distance of the largest saturated cost of the group
    sat = [rec for rec in group if rec["q2"] != -1 and rec["q2"] >= 4]
    if sat:
        want = max(sat, key=lambda r: r["q2"])["d2"] / 2.0
        for huge, scale in ((1e36, 512.0), (3e30, 4096.0)):
            n += 1
            try:
                got = inferno.victor_purpura_pair_dist(t0 * scale, t1 * scale, huge)
                ok = tuple(got.shape) == (1,) and float(got[0]) == want
                obs = got.tolist()
            except Exception as ex:
                ok, obs = False, type(ex).__name__
            if not ok:
                report("VPHugeCost", {"t0": (t0 * scale).tolist(), "t1": (t1 * scale).tolist(), "cost": huge,
                                      "specified": want, "observed": obs})
    n += 1
    try:
        got = inferno.victor_purpura_pair_dist(t0, t1, torch.tensor(costs, dtype=torch.float32))
        want = [rec["d2"] / 2.0 for rec in group]
        ok = got.tolist() == want
        obs = got.tolist()
    except Exception as ex:
        ok, obs = False, type(ex).__name__
    if not ok:
        report("VPTensorCost", {"t0": t0.tolist(), "t1": t1.tolist(), "cost": costs, "specified": want, "observed": obs})
    # spike times given as integer step indices (e.g. straight from torch.nonzero), costs fractional: the same distances
    if all(float(x * unit).is_integer() for x in list(a) + list(b)):
        for dt_ in (torch.int64, torch.int32):
            n += 1
            i0, i1 = t0.to(dt_), t1.to(dt_)
            try:
                got = inferno.victor_purpura_pair_dist(i0, i1, torch.tensor(costs, dtype=torch.float32))
                want = [rec["d2"] / 2.0 for rec in group]
                ok = [float(v) for v in got.tolist()] == want
                obs = got.tolist()
                if ok:
                    for rec, q in zip(group, costs):
                        g1 = inferno.victor_purpura_pair_dist(i0, i1, q)
                        if tuple(g1.shape) != (1,) or float(g1[0]) != rec["d2"] / 2.0:
                            ok, obs, want = False, g1.tolist(), rec["d2"] / 2.0
                            break
            except Exception as ex:
                ok, obs = False, type(ex).__name__
            if not ok:
                report("VPIntegerTimes", {"t0": i0.tolist(), "t1": i1.tolist(), "dtype": str(dt_), "cost": costs,
                                          "specified": want, "observed": obs})
                break
    return n


# --------------------------------------------------------------------------- ISI
def isi_check(rec, dt: float, report) -> int:
    ras = rec["ras"]
    E, T, width = len(ras), len(ras[0]), rec["width"]
    want = np.array([[np.nan if v == -1 else v * dt for v in row] for row in rec["rows"]], dtype=np.float64).reshape(E, width)
    x = torch.tensor(ras, dtype=torch.bool)                     # E x T : time last
    n = 0

    def cmp(name, fn, shape, expect):
        nonlocal n
        n += 1
        try:
            got = fn()
            g = got.detach().numpy().astype(np.float64)
            ok = tuple(got.shape) == tuple(shape) and torch.is_floating_point(got) and \
                np.array_equal(g, expect.reshape(shape), equal_nan=True)
            obs = {"shape": list(got.shape), "values": got.tolist()}
        except Exception as ex:
            ok, obs = False, {"raised": type(ex).__name__, "msg": str(ex)[:200]}
        if not ok:
            report(name, {"raster": ras, "dt": dt, "specified": {"shape": list(shape), "values": rec["rows"]}, "observed": obs})

    cmp("IsiTimeLast", lambda: inferno.isi(x, dt, time_first=False), (E, width), want)
    cmp("IsiTimeFirst", lambda: inferno.isi(x.t().contiguous(), dt, time_first=True), (width, E), want.T)
    if E == 2:   # a two-dimensional population: 1 x 2 and 2 x 1
        cmp("IsiTimeLast", lambda: inferno.isi(x.reshape(1, 2, T), dt, time_first=False), (1, 2, width), want)
        cmp("IsiTimeFirst", lambda: inferno.isi(x.t().reshape(T, 2, 1), dt, time_first=True), (width, 2, 1), want.T)
    return n


# --------------------------------------------------------------------------- interpolation pairs
INTERP = {"previous": inf_f.interp_previous, "next": inf_f.interp_next, "nearest": inf_f.interp_nearest,
          "linear": inf_f.interp_linear}
EXTRAP = {"previous": inf_f.extrap_previous, "next": inf_f.extrap_next, "neighbors": inf_f.extrap_neighbors,
          "nearest": inf_f.extrap_nearest, "linear_forward": inf_f.extrap_linear_forward,
          "linear_backward": inf_f.extrap_linear_backward}


def _pow2(k: int) -> bool:
    return k >= 1 and (k & (k - 1)) == 0


def adjust_fn(name: str, vscale: float):
    return {"id": None, "plus12": (lambda v: v + 12.0 / vscale), "double": (lambda v: 2.0 * v), "neg": (lambda v: -v)}[name]


KNOWN_KWARGS = {"adjust", "time_constant", "rate_constant"}


def signature_guard():
    """The specification enumerates the optional keyword arguments of the shipped kernels; a
    keyword the specification does not know makes the check incomplete (machinery failure)."""
    import inspect
    found = {}
    for name in dir(inf_f):
        if name.startswith(("interp_", "extrap_")):
            ps = inspect.signature(getattr(inf_f, name)).parameters.values()
            kws = {p.name for p in ps if p.kind == p.KEYWORD_ONLY}
            found[name] = sorted(kws)
            if not kws <= KNOWN_KWARGS:
                raise MachineryFailure(f"{name} has keyword arguments {sorted(kws - KNOWN_KWARGS)} unknown to the specification")
    takes_adjust = sorted(n for n, k in found.items() if "adjust" in k)
    if takes_adjust != ["extrap_linear_backward", "extrap_linear_forward"]:
        raise MachineryFailure(f"kernels taking `adjust` changed: {takes_adjust}")
    return found


def _ip_tensors(recs, tick, vscale):
    f32 = lambda key, s=1.0: torch.tensor([r[key] * s for r in recs], dtype=torch.float32)
    return f32("sample", 1 / vscale), f32("prev", 1 / vscale), f32("next", 1 / vscale), f32("t", tick)


def _ip_exact(recs, x, DT):
    # float32-exact cases: every division is by a power of two
    div = [r["t"] if x == "linear_forward" else (DT - r["t"]) if x == "linear_backward" else 1 for r in recs]
    return np.array([_pow2(d) for d in div])


def _ip_compare(name, got, recs, key, vscale, exact, report, ctx):
    want = np.array([r[key] / vscale for r in recs], dtype=np.float64)
    g = got.detach().numpy().astype(np.float64)
    if g.shape != want.shape:
        report(name, dict(ctx, observed_shape=list(g.shape)))
        return
    bad = np.where(exact, g != want, ~np.isclose(g, want, rtol=1e-5, atol=1e-6))
    if bad.any():
        k = int(np.argmax(bad))
        report(name, dict(ctx, record=recs[k], specified=float(want[k]), observed=float(g[k]),
                          compared="exactly" if exact[k] else "rtol 1e-5"))


def ip_check(recs, DT: int, tick: float, vscale: float, report) -> int:
    """recs: emitted records of ONE (interpolation, extrapolation, adjust) triple; evaluated in one
    vectorised call of the standalone functions."""
    i, x, adj = recs[0]["i"], recs[0]["x"], recs[0]["adj"]
    dt = DT * tick
    sample, prev, nxt, at = _ip_tensors(recs, tick, vscale)
    exact = _ip_exact(recs, x, DT)
    kw = {"adjust": adjust_fn(adj, vscale)} if adj != "id" else {}
    ctx = {"pair": [i, x], "adjust": adj, "tick": tick, "vscale": vscale, "path": "standalone"}
    try:
        b0, b1 = EXTRAP[x](sample, at, prev, nxt, dt, **kw)
        val = INTERP[i](b0, b1, at, dt)
    except Exception as ex:
        report("InterpPairs", dict(ctx, raised=type(ex).__name__, msg=str(ex)[:200]))
        return 2
    for name, got, key in (("ExtrapPrev", b0, "b0"), ("ExtrapNext", b1, "b1"), ("RoundTrip", val, "val")):
        _ip_compare(name, got, recs, key, vscale, exact, report, ctx)
    return 2


def ip_record_check(recs, DT: int, tick: float, vscale: float, report) -> int:
    """The same records through a real RecordTensor: the older / newer observations are pushed,
    the sample is inserted at time dt - t before the newest observation with the extrapolation
    (and its keyword arguments), the two slots are read back, and the same time is selected with
    the matching interpolation.  Only strictly-between times (on-grid times bypass the kernels)."""
    from inferno.core.infrastructure import Module, RecordTensor
    recs = [r for r in recs if 0 < r["t"] < DT]
    if not recs:
        return 0
    i, x, adj = recs[0]["i"], recs[0]["x"], recs[0]["adj"]
    dt = DT * tick
    sample, prev, nxt, at = _ip_tensors(recs, tick, vscale)
    exact = _ip_exact(recs, x, DT)
    kw = {"adjust": adjust_fn(adj, vscale)} if adj != "id" else None
    ctx = {"pair": [i, x], "adjust": adj, "tick": tick, "vscale": vscale, "path": "RecordTensor.insert/select"}
    owner = Module()
    RecordTensor.create(owner, "rec", dt, 3 * dt, torch.zeros(len(recs), dtype=torch.float32))
    rec = owner.rec
    try:
        if rec.recordsz < 3:
            raise MachineryFailure(f"record of size {rec.recordsz}")
        rec.push(torch.full((len(recs),), 7.0))
        rec.push(prev)
        rec.push(nxt)
        time = dt - at                                 # time before the newest observation
        rec.insert(sample, time, EXTRAP[x], offset=1, extrap_kwargs=kw)
        older, newer = rec.read(2).clone(), rec.read(1).clone()
        val = rec.select(time, INTERP[i], offset=1)
    except MachineryFailure:
        raise
    except Exception as ex:
        report("InterpPairs", dict(ctx, raised=type(ex).__name__, msg=str(ex)[:200]))
        return 1
    for name, got, key in (("ExtrapPrev", older, "b0"), ("ExtrapNext", newer, "b1"), ("RoundTrip", val, "val")):
        _ip_compare(name, got, recs, key, vscale, exact, report, ctx)
    return 1


def ipx_check(recs, DT: int, tick: float, report) -> int:
    dt = DT * tick
    n = 0
    for tau in (2.0, 7.3, dt / math.log(2.0)):
        for kind in ("expdecay", "expratedecay"):
            kw = {"time_constant": tau} if kind == "expdecay" else {"rate_constant": 1.0 / tau}
            ext = getattr(inf_f, "extrap_" + kind)
            itp = getattr(inf_f, "interp_" + kind)
            sample = torch.tensor([0.75, -2.0, 3.5], dtype=torch.float32)
            for r in recs:
                n += 1
                at = torch.full((3,), r["t"] * tick, dtype=torch.float32)
                try:
                    b0, b1 = ext(sample, at, torch.zeros(3), torch.zeros(3), dt, **kw)
                    val = itp(b0, b1, at, dt, **kw)
                except Exception as ex:
                    report("InterpPairsExp", {"kind": kind, "raised": type(ex).__name__, "msg": str(ex)[:200]})
                    continue
                s = sample.numpy().astype(np.float64)
                for name, got, xk in (("ExtrapPrev", b0, "x0"), ("ExtrapNext", b1, "x1"), ("RoundTrip", val, "xv")):
                    want = s * math.exp(r[xk] * tick / tau)
                    if not np.allclose(got.numpy().astype(np.float64), want, rtol=1e-5, atol=1e-6):
                        report(name, {"kind": kind, "tau": tau, "record": r, "specified": want.tolist(), "observed": got.tolist()})
    return n


# --------------------------------------------------------------------------- distributions
def _q(values, bad: list, name: str) -> list[int]:
    """quantise; a NaN / inf / unrepresentable value is recorded in `bad` (clause Finite) and
    logged as 0 - it is never silently turned into a number the laws could accept"""
    out = []
    for v in np.asarray(values, dtype=np.float64).reshape(-1):
        if not np.isfinite(v) or abs(v) * Q >= 2 ** 31 - 1:
            if name not in bad:
                bad.append(name)
            out.append(0)
        else:
            out.append(int(round(v * Q)))
    return out


def _call(errs, name, fn):
    try:
        return fn()
    except RecursionError:
        errs.append(name + ":RecursionError")
    except Exception as ex:   # noqa: BLE001
        errs.append(name + ":" + type(ex).__name__)
    return None


def _np(t):
    return t.detach().numpy().astype(np.float64)


def poisson_events(rates: list[float], K: int):
    """One event per rate.  Every function is called twice: with the scalar rate (fields den,
    cdf, ...) and ONCE for all rates with tensor parameters broadcast against the support column
    (fields denb, cdfb: degenerate and regular entries mixed in one call)."""
    k = torch.arange(0, K + 1, dtype=torch.float32)
    rt = torch.tensor(rates, dtype=torch.float32)
    berrs: list[str] = []
    bpmf = _call(berrs, "pmf[broadcast]", lambda: Poisson.pmf(k[:, None], rt[None, :]))
    bcdf = _call(berrs, "cdf[broadcast]", lambda: Poisson.cdf(k[:, None], rt[None, :]))
    bmean = _call(berrs, "mean[tensor]", lambda: Poisson.mean(rt))
    out = []
    for j, rate in enumerate(rates):
        errs = list(berrs)
        bad: list[str] = []
        pmf = _call(errs, "pmf", lambda: Poisson.pmf(k, rate))
        lpmf = _call(errs, "logpmf", lambda: Poisson.logpmf(k, rate))
        cdf = _call(errs, "cdf", lambda: Poisson.cdf(k, rate))
        lcdf = _call(errs, "logcdf", lambda: Poisson.logcdf(k, rate))
        mean = _call(errs, "mean", lambda: Poisson.mean(rate))
        var = _call(errs, "variance", lambda: Poisson.variance(rate))
        ret = {"errs": errs, "nonfinite": bad}
        if not errs:
            ret.update(den=_q(_np(pmf), bad, "pmf"), eld=_q(np.exp(_np(lpmf)), bad, "exp(logpmf)"), cdf=_q(_np(cdf), bad, "cdf"),
                       elc=_q(np.exp(_np(lcdf)), bad, "exp(logcdf)"), mean=_q(_np(mean), bad, "mean")[0],
                       var=_q(_np(var), bad, "variance")[0],
                       denb=_q(_np(bpmf)[:, j], bad, "pmf[broadcast]"), cdfb=_q(_np(bcdf)[:, j], bad, "cdf[broadcast]"),
                       meanb=_q(_np(bmean)[j], bad, "mean[tensor]")[0])
        out.append({"op": {"a": "poisson", "K": K, "rate": rate}, "ret": ret, "st": 0})
    return out


def cont_events(kind: str, params: list[tuple[float, float]], n: int = 256, hd: int = 16, sub: int = 4):
    """One event per (loc, scale) on the STANDARDISED grid z_i = (i - n/2)/hd, i.e. x = loc + scale z
    (ln x for lognormal).  Logged densities are multiplied by scale (and by x for lognormal: the
    density of z), the first moment is (mean - loc)/scale and the second var/scale^2 (normal);
    lognormal moments are float64 quadratures of the logged density divided by the stated mean /
    variance (expected 1).  Scalar-parameter calls (den, cdf) and one broadcast call with tensor
    parameters for all parameter sets (denb, cdfb)."""
    dist = Normal if kind == "normal" else LogNormal
    z = (np.arange(n + 1) - n // 2) / hd
    locs = np.array([p[0] for p in params], dtype=np.float64)
    scales = np.array([p[1] for p in params], dtype=np.float64)
    U = locs[None, :] + scales[None, :] * z[:, None]
    X = U if kind == "normal" else np.exp(U)
    xt = torch.tensor(X, dtype=torch.float32)
    lt, st_ = torch.tensor(locs, dtype=torch.float32), torch.tensor(scales, dtype=torch.float32)
    berrs: list[str] = []
    bpdf = _call(berrs, "pdf[broadcast]", lambda: dist.pdf(xt, lt[None, :], st_[None, :]))
    bcdf = _call(berrs, "cdf[broadcast]", lambda: dist.cdf(xt, lt[None, :], st_[None, :]))
    out = []
    for j, (loc, scale) in enumerate(params):
        errs = list(berrs)
        bad: list[str] = []
        x = xt[:, j].contiguous()
        xs = _np(x)
        jac = scale * (np.ones_like(xs) if kind == "normal" else xs)
        pdf = _call(errs, "pdf", lambda: dist.pdf(x, loc, scale))
        lpdf = _call(errs, "logpdf", lambda: dist.logpdf(x, loc, scale))
        cdf = _call(errs, "cdf", lambda: dist.cdf(x, loc, scale))
        lcdf = _call(errs, "logcdf", lambda: dist.logcdf(x, loc, scale))
        if kind == "normal":
            mean = _call(errs, "mean", lambda: dist.mean(loc))
            var = _call(errs, "variance", lambda: dist.variance(scale))
        else:
            mean = _call(errs, "mean", lambda: dist.mean(loc, scale))
            var = _call(errs, "variance", lambda: dist.variance(loc, scale))
        rt = _call(errs, "params_mv", lambda: dist.params_mv(mean, var)) if mean is not None and var is not None else None
        ret = {"errs": errs, "nonfinite": bad}
        if not errs:
            den = _np(pdf) * jac
            m, v = float(mean), float(var)
            ret.update(den=_q(den, bad, "pdf"), eld=_q(np.exp(_np(lpdf)) * jac, bad, "exp(logpdf)"), cdf=_q(_np(cdf), bad, "cdf"),
                       elc=_q(np.exp(_np(lcdf)), bad, "exp(logcdf)"),
                       denb=_q(_np(bpdf)[:, j] * jac, bad, "pdf[broadcast]"), cdfb=_q(_np(bcdf)[:, j], bad, "cdf[broadcast]"),
                       # round trip of the parameters, in units of the scale
                       rtloc=_q((float(rt[0]) - loc) / scale, bad, "params_mv.loc")[0],
                       rtscale=_q(float(rt[1]) / scale, bad, "params_mv.scale")[0])
            if kind == "normal":
                ret.update(mean=_q((m - loc) / scale, bad, "mean")[0], var=_q(v / scale ** 2, bad, "variance")[0], m1r=Q, m2r=Q)
            else:
                w = den / hd
                m1 = float(np.sum(xs * w))
                m2 = float(np.sum((xs - m1) ** 2 * w))
                ret.update(mean=0, var=Q, m1r=_q(m1 / m if m else np.nan, bad, "mean")[0],
                           m2r=_q(m2 / v if v else np.nan, bad, "variance")[0])
        out.append({"op": {"a": kind, "n": n, "hd": hd, "sub": sub, "loc": loc, "scale": scale,
                           "narrow": int(kind == "lognormal" and scale < 2.0 ** -6)}, "ret": ret, "st": 0})
    return out
