"""Adaptor between the Numerics specifications (spec/NumericsMC.tla, spec/DistTrace.tla) and
the real inferno helpers: evaluates victor_purpura_pair_dist, isi, the interp_* / extrap_*
kernels and the inferno.stats distributions, and compares with / logs for the specification."""
from __future__ import annotations
import math
import numpy as np
from .core import setup_repo_path, MachineryFailure

setup_repo_path()
import torch  # noqa: E402

torch.set_num_threads(1)
import inferno  # noqa: E402
from inferno import functional as inf_f  # noqa: E402
from inferno.stats import Poisson, Normal, LogNormal  # noqa: E402

INF = float("inf")
Q = 1_000_000


# --------------------------------------------------------------------------- Victor-Purpura
def vp_check(group, unit: float, report) -> int:
    """group: all emitted records of one pair of trains {a, b, q2, d2} (one per cost).
    Times are a*unit and the costs q/unit, so the distance is unchanged."""
    a, b = group[0]["a"], group[0]["b"]
    t0 = torch.tensor([x * unit for x in a], dtype=torch.float32)
    t1 = torch.tensor([x * unit for x in b], dtype=torch.float32)
    n = 0
    costs = []
    for rec in group:
        q = INF if rec["q2"] == -1 else rec["q2"] / 2.0 / unit
        costs.append(q)
        want = rec["d2"] / 2.0
        n += 1
        try:
            got = inferno.victor_purpura_pair_dist(t0, t1, q)
            ok = tuple(got.shape) == (1,) and float(got[0]) == want
            obs = got.tolist()
        except Exception as ex:
            ok, obs = False, type(ex).__name__
        if not ok:
            report("VPScalarCost", {"t0": t0.tolist(), "t1": t1.tolist(), "cost": q, "specified": want, "observed": obs})
    n += 1
    try:
        got = inferno.victor_purpura_pair_dist(t0, t1, torch.tensor(costs, dtype=torch.float32))
        want = [rec["d2"] / 2.0 for rec in group]
        ok = got.tolist() == want
        obs = got.tolist()
    except Exception as ex:
        ok, obs = False, type(ex).__name__
    if not ok:
        report("VPTensorCost", {"t0": t0.tolist(), "t1": t1.tolist(), "cost": costs, "specified": want, "observed": obs})
    return n


# --------------------------------------------------------------------------- ISI
def isi_check(rec, dt: float, report) -> int:
    ras = rec["ras"]
    E, T, width = len(ras), len(ras[0]), rec["width"]
    want = np.array([[np.nan if v == -1 else v * dt for v in row] for row in rec["rows"]], dtype=np.float64).reshape(E, width)
    x = torch.tensor(ras, dtype=torch.bool)                     # E x T : time last
    n = 0

    def cmp(name, fn, shape, expect):
        nonlocal n
        n += 1
        try:
            got = fn()
            g = got.detach().numpy().astype(np.float64)
            ok = tuple(got.shape) == tuple(shape) and torch.is_floating_point(got) and \
                np.array_equal(g, expect.reshape(shape), equal_nan=True)
            obs = {"shape": list(got.shape), "values": got.tolist()}
        except Exception as ex:
            ok, obs = False, {"raised": type(ex).__name__, "msg": str(ex)[:200]}
        if not ok:
            report(name, {"raster": ras, "dt": dt, "specified": {"shape": list(shape), "values": rec["rows"]}, "observed": obs})

    cmp("IsiTimeLast", lambda: inferno.isi(x, dt, time_first=False), (E, width), want)
    cmp("IsiTimeFirst", lambda: inferno.isi(x.t().contiguous(), dt, time_first=True), (width, E), want.T)
    if E == 2:   # a two-dimensional population: 1 x 2 and 2 x 1
        cmp("IsiTimeLast", lambda: inferno.isi(x.reshape(1, 2, T), dt, time_first=False), (1, 2, width), want)
        cmp("IsiTimeFirst", lambda: inferno.isi(x.t().reshape(T, 2, 1), dt, time_first=True), (width, 2, 1), want.T)
    return n


# --------------------------------------------------------------------------- interpolation pairs
INTERP = {"previous": inf_f.interp_previous, "next": inf_f.interp_next, "nearest": inf_f.interp_nearest,
          "linear": inf_f.interp_linear}
EXTRAP = {"previous": inf_f.extrap_previous, "next": inf_f.extrap_next, "neighbors": inf_f.extrap_neighbors,
          "nearest": inf_f.extrap_nearest, "linear_forward": inf_f.extrap_linear_forward,
          "linear_backward": inf_f.extrap_linear_backward}


def _pow2(k: int) -> bool:
    return k >= 1 and (k & (k - 1)) == 0


def ip_check(recs, DT: int, tick: float, vscale: float, report) -> int:
    """recs: emitted records of ONE matching pair (i, x); evaluated in one vectorised call."""
    i, x = recs[0]["i"], recs[0]["x"]
    dt = DT * tick
    f32 = lambda key, s=1.0: torch.tensor([r[key] * s for r in recs], dtype=torch.float32)
    sample, prev, nxt = f32("sample", 1 / vscale), f32("prev", 1 / vscale), f32("next", 1 / vscale)
    at = f32("t", tick)
    # float32-exact cases: every division is by a power of two
    div = [r["t"] if x == "linear_forward" else (DT - r["t"]) if x == "linear_backward" else 1 for r in recs]
    exact = np.array([_pow2(d) for d in div])
    n = 2
    try:
        b0, b1 = EXTRAP[x](sample, at, prev, nxt, dt)
        val = INTERP[i](b0, b1, at, dt)
    except Exception as ex:
        report("InterpPairs", {"pair": [i, x], "raised": type(ex).__name__, "msg": str(ex)[:200]})
        return n
    for name, got, key in (("ExtrapPrev", b0, "b0"), ("ExtrapNext", b1, "b1"), ("RoundTrip", val, "val")):
        want = np.array([r[key] / vscale for r in recs], dtype=np.float64)
        g = got.detach().numpy().astype(np.float64)
        if g.shape != want.shape:
            report(name, {"pair": [i, x], "observed_shape": list(g.shape)})
            continue
        bad = np.where(exact, g != want, ~np.isclose(g, want, rtol=1e-5, atol=1e-6))
        if bad.any():
            k = int(np.argmax(bad))
            report(name, {"pair": [i, x], "record": recs[k], "tick": tick, "vscale": vscale, "specified": float(want[k]),
                          "observed": float(g[k]), "compared": "exactly" if exact[k] else "rtol 1e-5"})
    return n


def ipx_check(recs, DT: int, tick: float, report) -> int:
    dt = DT * tick
    n = 0
    for tau in (2.0, 7.3, dt / math.log(2.0)):
        for kind in ("expdecay", "expratedecay"):
            kw = {"time_constant": tau} if kind == "expdecay" else {"rate_constant": 1.0 / tau}
            ext = getattr(inf_f, "extrap_" + kind)
            itp = getattr(inf_f, "interp_" + kind)
            sample = torch.tensor([0.75, -2.0, 3.5], dtype=torch.float32)
            for r in recs:
                n += 1
                at = torch.full((3,), r["t"] * tick, dtype=torch.float32)
                try:
                    b0, b1 = ext(sample, at, torch.zeros(3), torch.zeros(3), dt, **kw)
                    val = itp(b0, b1, at, dt, **kw)
                except Exception as ex:
                    report("InterpPairsExp", {"kind": kind, "raised": type(ex).__name__, "msg": str(ex)[:200]})
                    continue
                s = sample.numpy().astype(np.float64)
                for name, got, xk in (("ExtrapPrev", b0, "x0"), ("ExtrapNext", b1, "x1"), ("RoundTrip", val, "xv")):
                    want = s * math.exp(r[xk] * tick / tau)
                    if not np.allclose(got.numpy().astype(np.float64), want, rtol=1e-5, atol=1e-6):
                        report(name, {"kind": kind, "tau": tau, "record": r, "specified": want.tolist(), "observed": got.tolist()})
    return n


# --------------------------------------------------------------------------- distributions
def _q(values) -> list[int]:
    out = []
    for v in np.asarray(values, dtype=np.float64).reshape(-1):
        if not np.isfinite(v) or abs(v) * Q >= 2 ** 31 - 1:
            return [-777777]        # not representable: any law over it fails visibly
        out.append(int(round(v * Q)))
    return out


def _call(errs, name, fn):
    try:
        return fn()
    except RecursionError:
        errs.append(name + ":RecursionError")
    except Exception as ex:   # noqa: BLE001
        errs.append(name + ":" + type(ex).__name__)
    return None


def poisson_event(rate: float, K: int):
    errs: list[str] = []
    k = torch.arange(0, K + 1, dtype=torch.float32)
    pmf = _call(errs, "pmf", lambda: Poisson.pmf(k, rate))
    lpmf = _call(errs, "logpmf", lambda: Poisson.logpmf(k, rate))
    cdf = _call(errs, "cdf", lambda: Poisson.cdf(k, rate))
    lcdf = _call(errs, "logcdf", lambda: Poisson.logcdf(k, rate))
    mean = _call(errs, "mean", lambda: Poisson.mean(rate))
    var = _call(errs, "variance", lambda: Poisson.variance(rate))
    ret = {"errs": errs}
    if not errs:
        ret.update(den=_q(pmf), eld=_q(np.exp(lpmf.numpy().astype(np.float64))), cdf=_q(cdf),
                   elc=_q(np.exp(lcdf.numpy().astype(np.float64))), mean=_q(mean)[0], var=_q(var)[0])
    return {"op": {"a": "poisson", "K": K, "rate": rate}, "ret": ret, "st": 0}


def cont_event(kind: str, loc: float, scale: float, n: int = 256, per_sigma: int = 16, sub: int = 4):
    dist = Normal if kind == "normal" else LogNormal
    hd = per_sigma / scale
    if hd != int(hd):
        raise MachineryFailure(f"grid spacing 1/{hd} is not the reciprocal of an integer")
    hd = int(hd)
    sub = max(d for d in (4, 2, 1) if hd % d == 0 and d <= sub)   # moments grid: spacing sub/hd, 1/spacing an integer
    if n % sub or hd > 128:
        raise MachineryFailure(f"unsupported grid n={n} hd={hd} sub={sub}")
    errs: list[str] = []
    u = loc + (np.arange(n + 1) - n // 2) / hd                       # grid in x (normal) / ln x (lognormal)
    xs = u if kind == "normal" else np.exp(u)
    x = torch.tensor(xs, dtype=torch.float32)
    jac = np.ones_like(xs) if kind == "normal" else x.numpy().astype(np.float64)   # density of ln x = pdf(x) * x
    pdf = _call(errs, "pdf", lambda: dist.pdf(x, loc, scale))
    lpdf = _call(errs, "logpdf", lambda: dist.logpdf(x, loc, scale))
    cdf = _call(errs, "cdf", lambda: dist.cdf(x, loc, scale))
    lcdf = _call(errs, "logcdf", lambda: dist.logcdf(x, loc, scale))
    if kind == "normal":
        mean = _call(errs, "mean", lambda: dist.mean(loc))
        var = _call(errs, "variance", lambda: dist.variance(scale))
    else:
        mean = _call(errs, "mean", lambda: dist.mean(loc, scale))
        var = _call(errs, "variance", lambda: dist.variance(loc, scale))
    rt = _call(errs, "params_mv", lambda: dist.params_mv(mean, var)) if mean is not None and var is not None else None
    ret = {"errs": errs}
    if not errs:
        den = pdf.numpy().astype(np.float64) * jac
        ret.update(den=_q(den), eld=_q(np.exp(lpdf.numpy().astype(np.float64)) * jac), cdf=_q(cdf),
                   elc=_q(np.exp(lcdf.numpy().astype(np.float64))), mean=_q(mean)[0], var=_q(var)[0],
                   loc=_q(loc)[0], scale=_q(scale)[0], rtloc=_q(rt[0])[0], rtscale=_q(rt[1])[0], m1=0, m2=0)
        if kind == "lognormal":
            # float64 quadrature (in ln x) of the logged density: first and second central moment
            h = 1.0 / hd
            w = den * h
            m1 = float(np.sum(xs * w))
            m2 = float(np.sum((xs - m1) ** 2 * w))
            ret.update(m1=_q(m1)[0], m2=_q(m2)[0])
    return {"op": {"a": kind, "n": n, "hd": hd, "sub": sub, "loc": loc, "scale": scale}, "ret": ret, "st": 0}
