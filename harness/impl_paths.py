"""Adaptor between spec/PathAlgebraMC.tla and the real inferno Layer / Cell: rebuilds each
emitted registry on a real layer through the public add_* / del_* methods and evaluates every
emitted (cell, path) case with Cell.realign_attribute and rgetattr."""
from __future__ import annotations
from collections import deque
from .core import setup_repo_path, MachineryFailure

setup_repo_path()
import torch  # noqa: E402

torch.set_num_threads(1)
from inferno.neural import Layer, LinearDense, DeltaCurrent, LIF  # noqa: E402
from inferno._internal import rgetattr  # noqa: E402

HELD = [("c1", "n1"), ("c1", "n2"), ("c2", "n1")]


class _PlainLayer(Layer):
    def wiring(self, inputs, **kwargs):
        return {}


def key(reg) -> tuple:
    return (tuple(sorted(reg["conns"])), tuple(sorted(reg["neurons"])), tuple(sorted(tuple(x) for x in reg["cells"])))


class LayerImpl:
    def __init__(self):
        self.layer = _PlainLayer()
        for c in ("c1", "c2"):
            conn = LinearDense(2, 2, 1.0, synapse=DeltaCurrent.partialconstructor(1.0))
            conn.updater = conn.defaultupdater()
            self.layer.add_connection(c, conn)
        for n in ("n1", "n2"):
            self.layer.add_neuron(n, LIF((2,), 1.0, rest_v=-60.0, reset_v=-65.0, thresh_v=-50.0, refrac_t=2.0,
                                         time_constant=20.0))
        self.cells = {h: self.layer.add_cell(*h) for h in HELD}     # the objects stay alive after deletion

    def apply(self, op):
        try:
            if op["a"] == "del_cell":
                self.layer.del_cell(op["c"], op["n"])
            elif op["a"] == "del_connection":
                self.layer.del_connection(op["c"])
            elif op["a"] == "del_neuron":
                self.layer.del_neuron(op["n"])
            else:
                raise KeyError(op["a"])
        except Exception as ex:   # noqa: BLE001
            return {"t": "err", "e": type(ex).__name__}
        return {"t": "ok"}

    def project(self):
        ly = self.layer
        return {"conns": [k for k, _ in ly.named_connections], "neurons": [k for k, _ in ly.named_neurons],
                "cells": [list(k) for k, _ in ly.named_cells]}

    def realign(self, c, n, segs):
        attr = ".".join(segs)
        cell = self.cells[(c, n)]
        try:
            out = cell.realign_attribute(attr)
        except Exception as ex:   # noqa: BLE001
            return {"t": "err", "e": type(ex).__name__}, None
        # resolution: from the layer with the rewritten path, from the cell with the original one
        same = None
        try:
            a = rgetattr(self.layer, out)
        except AttributeError:
            a = AttributeError
        try:
            b = rgetattr(cell, attr) if attr else cell
        except AttributeError:
            b = AttributeError
        if a is AttributeError or b is AttributeError:
            same = "undefined" if (a is b) else "one-sided"
        elif isinstance(a, torch.Tensor) and isinstance(b, torch.Tensor):
            same = "same" if (a.shape == b.shape and torch.equal(a, b)) else "different"
        else:
            same = "same" if (a is b or (isinstance(a, (bool, int, float, str)) and a == b)) else "different"
        return {"t": "ok", "v": out.split(".") if out else []}, same


def replay(recs, report, corrupt=False):
    """recs: emitted lines {s, ops, table}.  Returns (states visited, registry edges, path cases)."""
    states = {key(r["s"]): r for r in recs}
    init = key(LayerImpl().project())
    if init not in states:
        raise MachineryFailure(f"initial layer registry {init} not among the emitted states")
    paths = {init: []}
    q = deque([init])
    nstates = nedges = ncases = 0
    while q:
        k = q.popleft()
        rec = states[k]
        nstates += 1
        for o in rec["ops"]:
            impl = LayerImpl()
            for p in paths[k]:
                impl.apply(p)
            ret = impl.apply(o["op"])
            nedges += 1
            want = o["res"]
            k2 = key(impl.project())
            wret = {"t": want["ret"]["t"]} | ({"e": want["ret"]["e"]} if want["ret"]["t"] == "err" else {})
            if ret != wret or k2 != key(want["st"]):
                report("RegistryOp", {"path": paths[k], "op": o["op"], "specified": want, "observed": {"ret": ret, "st": impl.project()}})
            elif k2 not in paths and k2 in states:
                paths[k2] = paths[k] + [o["op"]]
                q.append(k2)
        impl = LayerImpl()
        for p in paths[k]:
            impl.apply(p)
        if key(impl.project()) != k:
            report("PathState", {"path": paths[k], "specified": rec["s"], "observed": impl.project()})
            continue
        for j, case in enumerate(rec["table"]):
            want = case["res"]
            if corrupt and j == 5 and want["t"] == "ok":
                want = dict(want, v=want["v"] + ["x"])
            got, same = impl.realign(case["c"], case["n"], case["p"])
            ncases += 1
            w = {"t": "ok", "v": want["v"]} if want["t"] == "ok" else {"t": "err", "e": want["e"]}
            if got != w:
                report("Realign", {"registry": rec["s"], "cell": [case["c"], case["n"]], "attr": ".".join(case["p"]),
                                   "specified": w, "observed": got, "after": paths[k]})
            elif got["t"] == "ok":
                expect = "same" if case["def"] else "undefined"
                if same != expect:
                    report("Resolves", {"registry": rec["s"], "cell": [case["c"], case["n"]], "attr": ".".join(case["p"]),
                                        "rewritten": ".".join(got["v"]), "specified": expect, "observed": same})
    if nstates != len(states):
        report("Unreached", {"emitted": len(states), "reached": nstates})
    return nstates, nedges, ncases
