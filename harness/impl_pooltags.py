"""Adaptor for spec/PoolTagsTrace.tla: registration traces of REAL trainers of every shipped class on cells that share a
neuron group, share a connection, or live on different layers.  For every monitor of every registered cell the trace
records what the trainer asks for that cell (tags, configuration, unique - read off a SOLO trainer of the same class and
hyperparameters on the same cell, where nothing can be aliased) and what the SHARED trainer actually bound (object
identity, configuration of that object).  No hook in the library is needed."""
from __future__ import annotations
import inspect
import json
from .core import setup_repo_path, MachineryFailure

setup_repo_path()
import torch  # noqa: E402
import inferno  # noqa: E402,F401
from inferno import neural, learn  # noqa: E402
from inferno.functional import exp_stdp_post_kernel, exp_stdp_pre_kernel  # noqa: E402

DT = 1.0
# fields of a reducer that do not change what it computes
NOT_SEMANTIC = {"inplace", "training"}


# ------------------------------------------------------------------ trainer classes and hyperparameters
def trainer_classes():
    import pkgutil, importlib
    import inferno.learn.trainers as pkg
    out = {}
    for m in pkgutil.iter_modules(pkg.__path__):
        mod = importlib.import_module(f"{pkg.__name__}.{m.name}")
        for n, c in vars(mod).items():
            if (inspect.isclass(c) and issubclass(c, learn.IndependentCellTrainer) and c is not learn.IndependentCellTrainer
                    and c.__module__ == mod.__name__ and not inspect.isabstract(c)):
                out[n] = c
    return dict(sorted(out.items()))


def _exp_post2(t, learning_rate, time_constant):      # another kernel function object (same mathematics, scaled)
    return 0.5 * exp_stdp_post_kernel(t, learning_rate, time_constant)


def base_hp(cls) -> dict:
    hp = {}
    for k, p in inspect.signature(cls.__init__).parameters.items():
        if k in ("self", "kwargs") or p.kind in (p.VAR_KEYWORD, p.VAR_POSITIONAL):
            continue
        if k.startswith("lr_"):
            hp[k] = 0.125 if "triplet" in k else (-0.5 if ("pre" in k or "neg" in k) else 0.75)
        elif k.startswith("tc_"):
            hp[k] = 40.0 if "slow" in k else (30.0 if "elig" in k else 20.0)
        elif k == "kernel_post":
            hp[k] = exp_stdp_post_kernel
        elif k == "kernel_pre":
            hp[k] = exp_stdp_pre_kernel
        elif k == "kernel_post_kwargs":
            hp[k] = {"learning_rate": 0.75, "time_constant": 20.0}
        elif k == "kernel_pre_kwargs":
            hp[k] = {"learning_rate": -0.5, "time_constant": 20.0}
        elif k == "plasticity":
            hp[k] = 0.25
        elif k == "target":
            hp[k] = 5.0
        elif k == "param":
            hp[k] = "weight"
        elif p.default is not inspect._empty:
            hp[k] = p.default
        else:
            raise MachineryFailure(f"{cls.__name__}: no recipe for required hyperparameter {k!r}")
    return hp


def alternatives(k: str, v):
    """Other values of hyperparameter k (each differing from v)."""
    if k.startswith("lr_"):
        return [v * 2.0, -v]
    if k.startswith("tc_"):
        return [v * 2.0] if "slow" in k else [v * 0.5]      # keeps slow > fast
    if k in ("kernel_post_kwargs", "kernel_pre_kwargs"):
        return [dict(v, learning_rate=v["learning_rate"] * 2.0), dict(v, time_constant=v["time_constant"] * 0.5)]
    if k == "kernel_post":
        return [_exp_post2]
    if k == "kernel_pre":
        return []
    if k in ("plasticity", "target"):
        return [v * 2.0]
    if k == "param":
        return []
    if k == "trace_mode":
        return ["nearest" if v == "cumulative" else "cumulative"]
    if isinstance(v, bool):
        return [not v]
    if k == "interp_tolerance":
        return [0.25]
    if k in ("batch_reduction", "field_reduction"):
        return [torch.amax]
    return []


# ------------------------------------------------------------------ canonical descriptions
def _canon(v):
    if isinstance(v, torch.Tensor):
        return ["tensor", list(v.shape), [round(float(x), 9) for x in v.detach().reshape(-1).tolist()]]
    if isinstance(v, bool) or v is None or isinstance(v, str):
        return v
    if isinstance(v, (int, float)):
        return round(float(v), 9)
    if isinstance(v, (list, tuple)):
        return [_canon(x) for x in v]
    if isinstance(v, dict):
        return {str(k): _canon(x) for k, x in sorted(v.items(), key=lambda kv: str(kv[0]))}
    if callable(v):
        code = getattr(v, "__code__", None)
        return ["fn", getattr(v, "__qualname__", type(v).__name__), code.co_firstlineno if code else None]
    return ["obj", type(v).__name__]


def config_of(mon) -> str:
    """What a monitor DOES: its class, where it hooks and when it runs, its reducer's class and every number, flag and
    string the reducer computes with, the length of its record.  Callables bound to a particular cell (reshape methods
    of the connection) are described by name only."""
    red = mon.reducer
    fields = {}
    for k, v in vars(red).items():
        if k.startswith("_") or k in NOT_SEMANTIC or k == "data_":
            continue
        if isinstance(v, (torch.nn.Module,)):
            continue
        if callable(v) and not isinstance(v, torch.Tensor):
            v = ["fn", getattr(getattr(v, "__func__", v), "__qualname__", type(v).__name__)]
        fields[k] = v
    for k, b in red.named_buffers(recurse=False):
        if b.numel() == 1 and not k.startswith("_"):
            fields["buf:" + k] = b
    hookinfo = {}
    for k, v in vars(mon).items():
        if k.endswith("observed_attr") or k.endswith("observed_attrs"):
            hookinfo["attr"] = v
    for k in ("trainexec", "evalexec"):
        if hasattr(mon, k):
            hookinfo[k] = bool(getattr(mon, k))
    doc = {"monitor": type(mon).__name__, "hook": hookinfo, "reducer": type(red).__name__, "fields": fields,
           "duration": float(red.duration), "dt": float(red.dt),
           "inclusive": bool(getattr(red.data_, "inclusive", False)) if hasattr(red, "data_") else None}
    return json.dumps(_canon(doc), sort_keys=True)


def tags_of(mon):
    t = getattr(mon, "_tags", None)
    return None if t is None else json.dumps(_canon(t), sort_keys=True)


# ------------------------------------------------------------------ layers with shared components
def _conn(delay, bias=False):
    c = neural.LinearDense((2,), (2,), DT, synapse=neural.DeltaCurrent.partialconstructor(1.0), delay=delay,
                           bias=bias, batch_size=1)
    c.updater = c.defaultupdater()
    return c


def _neuron():
    return neural.LIF((2,), DT, rest_v=-60.0, reset_v=-65.0, thresh_v=-50.0, refrac_t=0.0, time_constant=20.0, batch_size=1)


class Site:
    """Two Bicliques of identical structure (3 connections x 2 neuron groups; c0, c1 with delays, c2 without) - the
    second one has the same names, hence the same attribute paths, on ANOTHER basis.  Cells:
       "a" = L1(c0, n0)   "b" = L1(c1, n0)  shares a's neuron group    "c" = L1(c0, n1)  shares a's connection
       "d" = L1(c1, n1)   "e" = L1(c2, n0)  no delays                  "x" = L2(c0, n0)  same paths as a, other layer"""
    CELLS = {"a": (0, "c0", "n0"), "b": (0, "c1", "n0"), "c": (0, "c0", "n1"), "d": (0, "c1", "n1"),
             "e": (0, "c2", "n0"), "x": (1, "c0", "n0")}

    def __init__(self):
        self.layers = [neural.Biclique([("c0", _conn(2.0)), ("c1", _conn(3.0)), ("c2", _conn(None))],
                                       [("n0", _neuron()), ("n1", _neuron())]) for _ in range(2)]

    def cell(self, name):
        li, cn, nn = self.CELLS[name]
        return self.layers[li].get_cell(cn, nn)

    def basis(self, name):
        return self.CELLS[name][0] + 1


class PoolRun:
    """One shared trainer + the solo trainers that tell what each cell asks for."""

    def __init__(self, cls, ctor_hp: dict):
        self.cls = cls
        self.site = Site()
        self.solo_site = Site()              # an identical structure (same names, same paths) for the solo trainers
        self.trainer = cls(**ctor_hp)
        self.ctor_hp = ctor_hp
        self.ids = {}
        self.keep = []

    def _obj(self, mon):
        k = id(mon)
        if k not in self.ids:
            self.ids[k] = len(self.ids) + 1
            self.keep.append(mon)           # keep alive: identities stay unique
        return self.ids[k]

    def register(self, name: str, overrides: dict):
        """-> the events of registering cell `name` (per-cell overrides of the constructor's hyperparameters)"""
        solo = self.cls(**self.ctor_hp)
        try:
            solo.register_cell(name, self.solo_site.cell(name), **overrides)
        except RuntimeError as ex:
            if "does not contain required parameter" not in str(ex):
                raise
            return None                      # e.g. a delay-learning rule on a connection without delays
        self.trainer.register_cell(name, self.site.cell(name), **overrides)
        evs = []
        want = dict(solo.monitor_pool_.named_monitors_of(name))
        got = dict(self.trainer.monitor_pool_.named_monitors_of(name))
        if list(want) != list(got):
            raise MachineryFailure(f"{self.cls.__name__}: solo and shared trainers install different monitors")
        for mname, wm in want.items():
            gm = got[mname]
            tg = tags_of(wm)
            evs.append({"a": "add", "cell": name, "basis": self.site.basis(name), "name": mname,
                        "tags": tg if tg is not None else "", "unique": tg is None, "cfg": config_of(wm),
                        "obj": self._obj(gm), "got": config_of(gm)})
        return evs

    def delete(self, name: str):
        self.trainer.del_cell(name)
        return [{"a": "del", "cell": name}]


def unit_description(trainer, name: str) -> str:
    """What cell `name` is trained with: the auxiliary state (every public field, callables by qualified name, tensor
    keyword arguments held in sub-modules) and every monitor's tags and configuration."""
    unit = trainer.get_unit(name)
    st = unit.state
    fields = {}
    if st is not None:
        for k, v in vars(st).items():
            if k.startswith("_") or k == "training":
                continue
            fields[k] = v
        for k, b in st.named_buffers():
            fields["buf:" + k] = b
        for k, q in st.named_parameters():
            fields["par:" + k] = q
    mons = {m: [tags_of(mon), config_of(mon)] for m, mon in trainer.monitor_pool_.named_monitors_of(name)}
    return json.dumps(_canon({"state": fields, "monitors": mons}), sort_keys=True)


def override_equivalence(cls, base: dict, k: str, alt, cell: str):
    """-> (description via constructor, description via register_cell override) of `cell` trained with base | {k: alt}"""
    sa, sb = Site(), Site()               # (kept alive: a cell refers to its layer weakly)
    a = cls(**dict(base, **{k: alt}))
    try:
        a.register_cell(cell, sa.cell(cell))
    except RuntimeError as ex:
        if "does not contain required parameter" not in str(ex):
            raise
        return None
    b = cls(**base)
    b.register_cell(cell, sb.cell(cell), **{k: alt})
    return unit_description(a, cell), unit_description(b, cell)
