"""Adaptor between the RecordCore specification vocabulary and the real
inferno.core.infrastructure.RecordTensor.

Values are integers in halves (v/2 is the float), times are ticks (tick seconds
each), observations are flat tuples of E values laid out on `shape` row-major."""
from __future__ import annotations
import math
from .core import setup_repo_path

setup_repo_path()
import torch  # noqa: E402
from torch import nn  # noqa: E402
from inferno.core.infrastructure import Module, RecordTensor  # noqa: E402

torch.set_num_threads(1)

DT = {"f": torch.float32, "i": torch.int64, "b": torch.bool}
DTN = {torch.float32: "f", torch.float64: "f", torch.int64: "i", torch.int32: "i", torch.bool: "b"}
SENTINEL = 99.0  # returned by the probe interpolation (198 halves, never a payload)


def to_tensor(vals, d, shape):
    t = torch.tensor([v / 2 for v in vals], dtype=torch.float32).reshape(shape)
    return t.to(DT[d])


def halves(t):
    out = []
    for x in t.detach().reshape(-1).tolist():
        y = float(x) * 2
        r = round(y)
        out.append(int(r) if abs(y - r) < 1e-6 else -777)
    return out


class RecordImpl:
    """A real RecordTensor on a real Module, driven through its public API."""

    def __init__(self, hdr: dict):
        self.hdr = dict(hdr)
        self.tick = float(hdr.get("tick", 0.25))
        self.shape = tuple(hdr.get("shape", (hdr.get("E0", 1),)))
        self.E0 = int(math.prod(self.shape)) if self.shape else 1
        self.param = bool(hdr.get("param", False))
        # integer dtype of tensor-valued offsets (any integer tensor is a legitimate offset)
        self.offdt = {"int64": torch.int64, "int32": torch.int32, "int16": torch.int16, "int8": torch.int8,
                      "uint8": torch.uint8}[hdr.get("offdt", "int64")]
        kind, dty = hdr["kind"], hdr.get("dty", "f")
        self.dtk0, self.durk0, self.incl0 = hdr["dtk"], hdr["durk"], bool(hdr["incl"])
        if kind == "none":
            value = None
        elif kind == "empty":
            value = torch.empty(0, dtype=DT[dty])
            if self.param:
                value = nn.Parameter(value, requires_grad=False)
        elif kind == "uninit":
            value = (nn.UninitializedParameter(requires_grad=False, dtype=DT[dty]) if self.param
                     else nn.UninitializedBuffer(dtype=DT[dty]))
        else:
            value = torch.zeros(self.shape, dtype=DT[dty])
            if self.param:
                value = nn.Parameter(value, requires_grad=False)
        # the caller's initial tensor stays the caller's: a plain tensor handed to create() is never written to later
        # (a record of size 1 built from a view of it would alias it - seeded C01-m13)
        self._given = value if (isinstance(value, torch.Tensor) and not isinstance(value, nn.Parameter)
                                and not isinstance(value, nn.UninitializedBuffer) and value.numel()) else None
        self._given_copy = None if self._given is None else self._given.clone()
        self.owner = Module()
        # duration as given by the header (float seconds): dur_s lets callers choose a
        # value whose quotient by dt is robust to rounding
        dt_s = hdr.get("dt_s", self.dtk0 * self.tick)
        dur_s = hdr.get("dur_s", self.durk0 * self.tick)
        RecordTensor.create(self.owner, "rec", dt_s, dur_s, value, inclusive=self.incl0,
                            persist_temporal=bool(hdr.get("persist_temporal", False)))
        self.rec = self.owner.rec
        self.econ = -1
        self.track_temporal = bool(hdr.get("track_temporal", False))

    # ---- projection
    def project(self) -> dict:
        r = self.rec
        v = r.value
        if v is None:
            kind, dty = "none", "-"
        elif isinstance(v, (nn.UninitializedBuffer, nn.UninitializedParameter)):
            kind, dty = "uninit", DTN.get(v.dtype, str(v.dtype))
        elif r.ignored:
            kind, dty = "empty", DTN.get(v.dtype, str(v.dtype))
        else:
            kind, dty = "ready", DTN.get(v.dtype, str(v.dtype))
        st = {"kind": kind, "dty": dty, "n": int(r.recordsz), "ptr": int(r.pointer)}
        if kind == "ready":
            st["store"] = [halves(v[i]) for i in range(v.shape[0])]
        else:
            st["store"] = []
        if self.track_temporal:
            st["dtk"] = _ticks(r.dt, self.tick)
            st["durk"] = _ticks(r.duration, self.tick)
            st["incl"] = bool(r.inclusive)
        else:
            st["dtk"], st["durk"], st["incl"] = self.dtk0, self.durk0, self.incl0
        st["econ"] = self.econ_reported()
        return st

    def econ_reported(self) -> int:
        c = self.rec.constraints
        return int(c[0]) if 0 in c else -1

    def cur_shape(self):
        s = self.rec.shape
        return tuple(s) if s is not None else self.shape

    # ---- operations
    def apply(self, o: dict) -> dict:
        try:
            ret = self._apply(o)
        except (RuntimeError, ValueError, TypeError, IndexError, AttributeError, AssertionError) as e:
            return {"t": "err", "e": type(e).__name__}
        if getattr(self, "_given", None) is not None and not torch.equal(self._given, self._given_copy):
            return {"t": "err", "e": "CallerTensorModified"}
        return ret

    def _obs(self, v, d):
        shape = self.cur_shape() if len(v) == math.prod(self.cur_shape() or (1,)) else (len(v),)
        return to_tensor(v, d, shape)

    def _range_obs(self, vs, d):
        # vs: time-major list of observations -> tensor S x L
        shape = self.cur_shape()
        E = math.prod(shape) if shape else 1
        if any(len(x) != E for x in vs):
            shape = (len(vs[0]),)
        t = torch.stack([to_tensor(x, d, shape) for x in vs], -1)
        return t

    def _apply(self, o: dict) -> dict:
        r, a = self.rec, o["a"]
        if a == "push":
            r.push(self._obs(o["v"], o["d"]), inplace=o["inpl"])
            return {"t": "ok"}
        if a == "latest_set":
            r.latest = self._obs(o["v"], o["d"])
            return {"t": "ok"}
        if a == "pop":
            x = r.pop()
            return {"t": "none"} if x is None else {"t": "val", "v": halves(x)}
        if a == "peek":
            x = r.peek()
            return {"t": "none"} if x is None else {"t": "val", "v": halves(x)}
        if a == "latest_get":
            x = r.latest
            return {"t": "none"} if x is None else {"t": "val", "v": halves(x)}
        if a == "latest_del":
            del r.latest
            return {"t": "ok"}
        if a == "read":
            return {"t": "val", "v": halves(r.read(o["k"]))}
        if a == "write":
            r.write(self._obs(o["v"], o["d"]), o["k"], inplace=o["inpl"])
            return {"t": "ok"}
        if a == "incr":
            return {"t": "int", "i": int(r.incr(o["p"]))}
        if a == "decr":
            return {"t": "int", "i": int(r.decr(o["p"]))}
        if a == "align":
            r.align(o["i"])
            return {"t": "ok"}
        if a == "reset":
            f = o["fill"]
            r.reset(None if f == -1 else (f // 2 if f % 2 == 0 else f / 2))
            return {"t": "ok"}
        if a == "readrange":
            if o["tens"]:
                off = torch.tensor(o["kv"], dtype=self.offdt)
                shape = self.cur_shape()
                if len(o["kv"]) == (math.prod(shape) if shape else 1):
                    off = off.reshape(shape)
            else:
                off = o["k"]
            x = r.readrange(o["L"], off, forward=o["fwd"])
            L = x.shape[-1]
            return {"t": "range", "vs": [halves(x[..., j]) for j in range(L)]}
        if a == "writerange":
            obs = self._range_obs(o["vs"], o["d"])
            if o["tens"]:
                off = torch.tensor(o["kv"], dtype=self.offdt)
                shape = self.cur_shape()
                if len(o["kv"]) == (math.prod(shape) if shape else 1):
                    off = off.reshape(shape)
            else:
                off = o["k"]
            r.writerange(obs, off, forward=o["fwd"], inplace=o["inpl"])
            return {"t": "ok"}
        if a == "initialize":
            f = o["fill"]
            r.initialize(self.shape if o["E"] == self.E0 else (o["E"],), fill=(f // 2 if f % 2 == 0 else f / 2))
            return {"t": "ok"}
        if a == "deinit":
            r.deinitialize(o["uninit"])
            return {"t": "ok"}
        if a == "assign_none":
            r.value = None
            return {"t": "ok"}
        if a == "select":
            return self._select(o)
        if a == "insert":
            return self._insert(o)
        if a == "set_dt":
            r.dt = o["x"] * self.tick if "x_s" not in o else o["x_s"]
            return {"t": "ok"}
        if a == "set_duration":
            r.duration = o["x"] * self.tick if "x_s" not in o else o["x_s"]
            return {"t": "ok"}
        if a == "set_inclusive":
            r.inclusive = bool(o["x"])
            return {"t": "ok"}
        if a == "valid":
            return {"t": "bool", "b": bool(r.valid)}
        if a == "recon":
            r.reconstrain(0, None if o["size"] == -1 else o["size"])
            return {"t": "ok"}
        raise KeyError(a)

    def _times(self, o):
        if o["tens"]:
            t = torch.tensor([x * self.tick for x in o["tauv"]], dtype=torch.float32)
            shape = self.cur_shape()
            if len(o["tauv"]) == (math.prod(shape) if shape else 1):
                t = t.reshape(shape)
            return t
        return o["tau"] * self.tick

    def _el(self, sample_at):
        out = []
        for x in sample_at.detach().reshape(-1).tolist():
            q = x / self.tick
            out.append(int(round(q)) if abs(q - round(q)) < 0.02 else -777)
        return out

    def _select(self, o):
        r = self.rec
        seen = {}

        def probe(prev_data, next_data, sample_at, step_time, **kw):
            seen["prev"], seen["next"], seen["at"], seen["dt"] = prev_data.clone(), next_data.clone(), sample_at.clone(), step_time
            return torch.full(prev_data.shape, SENTINEL, dtype=torch.float32)

        tol = (o["tol2"] / 2) * self.tick
        res = r.select(self._times(o), probe, tolerance=tol, offset=o["off"])
        flat = res.detach().reshape(-1).tolist()
        out = []
        if seen:
            prev, nxt, el = halves(seen["prev"]), halves(seen["next"]), self._el(seen["at"])
            dtk = _ticks(seen["dt"], self.tick)
        for e, x in enumerate(flat):
            if seen and abs(x - SENTINEL) < 1e-6:
                out.append({"x": "in", "od": prev[e], "nw": nxt[e], "el": el[e]})
                if dtk != _ticks(r.dt, self.tick):
                    out[-1]["el"] = -778
            else:
                y = x * 2
                out.append({"x": "ex", "v": int(round(y)) if abs(y - round(y)) < 1e-6 else -777})
        return {"t": "sel", "r": out}

    def _insert(self, o):
        r = self.rec
        seen = {}
        d = r.dt
        D = _ticks(d, self.tick)

        def probe(sample, sample_at, prev_data, next_data, step_time, **kw):
            seen["sample"], seen["prev"], seen["next"] = sample.clone(), prev_data.clone(), next_data.clone()
            seen["at"], seen["dt"] = sample_at.clone(), step_time
            p = torch.tensor([v / 2 for v in o["pv"]], dtype=torch.float32).reshape(prev_data.shape)
            n = torch.tensor([v / 2 for v in o["nv"]], dtype=torch.float32).reshape(next_data.shape)
            return p, n

        tol = (o["tol2"] / 2) * self.tick
        r.insert(self._obs(o["v"], "f"), self._times(o), probe, tolerance=tol, offset=o["off"], inplace=o["inpl"])
        E = len(o["v"])
        if not seen:
            return {"t": "ins", "r": [{"x": "ex"} for _ in range(E)]}
        prev, nxt, el = halves(seen["prev"]), halves(seen["next"]), self._el(seen["at"])
        smp = halves(seen["sample"])
        out = []
        for e in range(E):
            if 0 < el[e] < D:
                rec = {"x": "in", "od": prev[e], "nw": nxt[e], "el": el[e]}
                if smp[e] != o["v"][e] or _ticks(seen["dt"], self.tick) != D:
                    rec["el"] = -778
                out.append(rec)
            elif el[e] == D or el[e] == 0:
                out.append({"x": "ex"})
            else:
                out.append({"x": "in", "od": prev[e], "nw": nxt[e], "el": el[e]})
        return {"t": "ins", "r": out}


def _ticks(x, tick):
    q = float(x) / tick
    r = round(q)
    return int(r) if abs(q - r) < 1e-6 * max(1.0, abs(q)) else -777
