"""Adaptors for spec/RecordPersist.tla: (1)+(3) two real Modules each owning a real RecordTensor
plus a serialised checkpoint, (2) a real Module whose ShapedTensor / RecordTensor attributes are
created, unbound, dropped and garbage collected.

Everything is observed through the public API (state_dict / load_state_dict, the RecordTensor
properties, hasattr on the documented linked attribute names)."""
from __future__ import annotations
import gc, io, math, sys, weakref
from .core import setup_repo_path

setup_repo_path()
import torch  # noqa: E402
from torch import nn  # noqa: E402
from inferno.core.infrastructure import Module, RecordTensor, ShapedTensor  # noqa: E402
from .impl_record import RecordImpl, DT, DTN, to_tensor, halves, _ticks  # noqa: E402

torch.set_num_threads(1)


class OwnerImpl(RecordImpl):
    """RecordImpl with the persistence flags and `live` handed to the constructor."""

    def __init__(self, hdr: dict):
        self.hdr = dict(hdr)
        self.tick = float(hdr.get("tick", 0.25))
        self.shape = tuple(hdr.get("shape", (hdr.get("E0", 1),)))
        self.E0 = int(math.prod(self.shape)) if self.shape else 1
        self.param = bool(hdr.get("param", False))
        kind, dty = hdr["kind"], hdr.get("dty", "f")
        self.dtk0, self.durk0, self.incl0 = hdr["dtk"], hdr["durk"], bool(hdr["incl"])
        if kind == "none":
            value = None
        elif kind == "empty":
            value = torch.empty(0, dtype=DT[dty])
            if self.param:
                value = nn.Parameter(value, requires_grad=False)
        elif kind == "uninit":
            value = (nn.UninitializedParameter(requires_grad=False, dtype=DT[dty]) if self.param
                     else nn.UninitializedBuffer(dtype=DT[dty]))
        else:
            value = torch.zeros(self.shape, dtype=DT[dty])
            if self.param:
                value = nn.Parameter(value, requires_grad=False)
        self.owner = Module()
        RecordTensor.create(self.owner, "rec", self.dtk0 * self.tick, self.durk0 * self.tick, value,
                            inclusive=self.incl0, persist_data=bool(hdr.get("pdata", True)),
                            persist_constraints=bool(hdr.get("pcons", False)),
                            persist_temporal=bool(hdr.get("ptmp", False)), live=bool(hdr.get("live", False)))
        self.rec = self.owner.rec
        self.econ = -1
        self.track_temporal = True

    def apply(self, o: dict) -> dict:
        a = o["a"]
        if a not in ("assign", "initialize_d"):
            return RecordImpl.apply(self, o)
        try:
            r = self.rec
            if a == "assign":
                if o["kind"] == "ready":
                    v = torch.tensor([[x / 2 for x in row] for row in o["vs"]], dtype=torch.float32).to(DT[o["d"]])
                elif o["kind"] == "empty":
                    v = torch.empty(0, dtype=DT[o["d"]])
                else:
                    v = (nn.UninitializedParameter(requires_grad=False, dtype=DT[o["d"]]) if self.param
                         else nn.UninitializedBuffer(dtype=DT[o["d"]]))
                r.value = v
                return {"t": "ok"}
            f = o["fill"]
            fill = bool(f) if o["fk"] == "b" else (f // 2 if f % 2 == 0 else f / 2)
            r.initialize((o["E"],), dtype=None if o["dt"] == "-" else DT[o["dt"]], fill=fill)
            return {"t": "ok"}
        except (RuntimeError, ValueError, TypeError, IndexError, AttributeError, AssertionError) as e:
            return {"t": "err", "e": type(e).__name__}


class PersistImpl:
    """Two owners constructed with the same arguments and one checkpoint (bytes)."""

    def __init__(self, hdr: dict):
        self.hdr = dict(hdr)
        self.A, self.B = OwnerImpl(hdr), OwnerImpl(hdr)
        self.rec0 = self.A.project()
        self.blob = None
        self.ghost = None
        self.tick = self.A.tick

    def apply(self, o: dict) -> dict:
        a = o["a"]
        if a == "on":
            return getattr(self, o["who"]).apply(o["op"])
        impl = getattr(self, o["who"])
        try:
            if a == "save":
                buf = io.BytesIO()
                torch.save(impl.owner.state_dict(), buf)     # serialised at once: the extras dict is the live one
                self.blob, self.ghost = buf.getvalue(), impl.project()
                return {"t": "ok"}
            if a == "load":
                sd = torch.load(io.BytesIO(self.blob), weights_only=False)   # a fresh copy per load
                impl.owner.load_state_dict(sd)
                return {"t": "ok"}
        except (RuntimeError, ValueError, TypeError, IndexError, AttributeError, AssertionError, KeyError) as e:
            return {"t": "err", "e": type(e).__name__}
        raise KeyError(a)

    def _snap(self) -> dict:
        if self.blob is None:
            return {"some": False, "data": "no", "store": [], "ptr": 0, "tmp": False, "dtk": 0, "durk": 0, "incl": False,
                    "con": False, "n": 0, "econ": -1, "src": self.rec0}
        sd = torch.load(io.BytesIO(self.blob), weights_only=False)
        ex = sd.get("_extra_state", {})
        out = {"some": True}
        if "_rec_data" in sd:
            v = sd["_rec_data"]
            if v.ndim >= 2 or v.numel():
                out["data"], out["store"] = "ready", [halves(v[i]) for i in range(v.shape[0])]
            else:
                out["data"], out["store"] = "empty", []
        else:
            out["data"], out["store"] = "no", []
        out["ptr"] = int(ex["_rec_pointer"]) if "_rec_pointer" in ex else -999      # the write position must be there
        out["tmp"] = "_rec_dt" in ex
        out["dtk"] = _ticks(ex["_rec_dt"], self.tick) if "_rec_dt" in ex else 0
        out["durk"] = _ticks(ex["_rec_duration"], self.tick) if "_rec_duration" in ex else 0
        out["incl"] = bool(ex["_rec_inclusive"]) if "_rec_inclusive" in ex else False
        out["con"] = "_rec_constraints" in ex
        cons = ex.get("_rec_constraints", {})
        out["n"] = int(cons.get(0, 0)) if out["con"] else 0
        out["econ"] = int(cons.get(1, -1)) if out["con"] else -1
        out["src"] = self.ghost
        return out

    def project(self) -> dict:
        h = self.hdr
        return {"A": self.A.project(), "B": self.B.project(), "snap": self._snap(),
                "cfg": {"pdata": bool(h.get("pdata", True)), "pcons": bool(h.get("pcons", False)),
                        "ptmp": bool(h.get("ptmp", False)), "param": bool(h.get("param", False)),
                        "live": bool(h.get("live", False))}}


SUFFIXES = ("attr", "data", "constraints", "dt", "duration", "inclusive", "pointer")


class FinImpl:
    """A Module whose tensor attributes are created / unbound / dropped; explicit gc.collect()."""

    _frozen = False

    def __init__(self, hdr: dict):
        if not FinImpl._frozen:
            # every operation below ends with gc.collect(): keep the (large, immortal) heap of the harness, torch and
            # the parsed graphs out of those collections
            gc.collect()
            gc.freeze()
            FinImpl._frozen = True
        self.hdr = dict(hdr)
        self.names = sorted(hdr["names"])
        self.param = bool(hdr.get("param", False))
        self.owner = Module()
        # attributes that belong to nobody's tensor: they must survive everything
        self.owner.register_buffer("_other_data", torch.arange(3.0))
        self.owner.register_extra("_other_pointer", 5)
        self.owner._other_dt = 0.5
        for nm in self.names:
            self.owner.register_buffer(f"_{nm}x_data", torch.ones(1))      # a longer name with the same prefix
        self.objs = []      # [name, rec, weakref, strong | None]
        self.k = 0

    def _value(self):
        self.k += 1
        if self.param:
            return nn.Parameter(torch.zeros(2), requires_grad=False)
        return [torch.zeros(2), None, torch.empty(0), nn.UninitializedBuffer()][self.k % 4]

    def apply(self, o: dict) -> dict:
        a = o["a"]
        caught = []
        old_hook = sys.unraisablehook
        sys.unraisablehook = lambda u: caught.append(type(u.exc_value).__name__)
        try:
            try:
                if a == "create":
                    nm = o["name"]
                    if o["rec"]:
                        RecordTensor.create(self.owner, nm, 1.0, 2.0, self._value(), persist_constraints=self.k % 2 == 0,
                                            persist_temporal=self.k % 3 == 0)
                    else:
                        v = self._value()
                        ShapedTensor.create(self.owner, nm, v, persist_constraints=self.k % 2 == 0)
                    obj = self.owner.__dict__[nm]
                    self.objs.append([nm, bool(o["rec"]), weakref.ref(obj), obj if o["hold"] else None])
                    del obj
                elif a == "del_attr":
                    delattr(self.owner, o["name"])
                elif a == "drop":
                    for ob in self.objs:
                        if ob[0] == o["name"]:
                            ob[3] = None
                elif a == "del_owner":
                    self.owner = None
                else:
                    raise KeyError(a)
                ret = {"t": "ok"}
            except (RuntimeError, ValueError, TypeError, AttributeError, KeyError, AssertionError) as e:
                if a not in ("create", "del_attr", "drop", "del_owner"):
                    raise
                ret = {"t": "err", "e": type(e).__name__}
            gc.collect()
            gc.collect()
        finally:
            sys.unraisablehook = old_hook
        if caught:
            ret = {"t": "err", "e": "Unraisable:" + caught[0]}
        return ret

    def project(self) -> dict:
        ow = self.owner
        attrs = {}
        for nm in self.names:
            d = {}
            for k in SUFFIXES:
                d[k] = False if ow is None else (nm in ow.__dict__ if k == "attr" else hasattr(ow, f"_{nm}_{k}"))
            attrs[nm] = d
        objs = []
        for nm, rec, ref, strong in self.objs:
            obj = ref()
            if obj is None:
                continue
            objs.append({"name": nm, "rec": rec, "bound": ow is not None and ow.__dict__.get(nm) is obj,
                         "held": strong is not None})
            del obj
        other = True
        if ow is not None:
            other = (torch.equal(ow._other_data, torch.arange(3.0)) and ow._other_pointer == 5 and ow._other_dt == 0.5
                     and "_other_pointer" in ow._extras
                     and all(hasattr(ow, f"_{nm}x_data") for nm in self.names))
        return {"attrs": attrs, "objs": objs, "owner": ow is not None, "other": bool(other),
                "wipes": bool(self.hdr.get("wipes", False))}

    def usable(self) -> bool:
        """every bound tensor attribute answers its basic queries"""
        if self.owner is None:
            return True
        for nm in self.names:
            obj = self.owner.__dict__.get(nm)
            if obj is None:
                continue
            try:
                _ = (obj.constraints, obj.value, obj.valid)
                if isinstance(obj, RecordTensor):
                    _ = (obj.recordsz, obj.pointer, obj.dt, obj.duration, obj.inclusive)
            except Exception:
                return False
        return True
