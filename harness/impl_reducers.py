"""Adaptor between the ReducersCore specification vocabulary and the real inferno reducers
(inferno/observe/reducers) and functional traces (inferno/core/trace.py).

An observation of one element is {"x": int (units), "m": bool (matches)}; times are ticks
(D ticks per step, tick = dt / D seconds).  Values come back as python floats; the expectation
is a symbolic value evaluated by `Params.value`."""
from __future__ import annotations
import math
from fractions import Fraction
from .core import setup_repo_path
from . import symeval

setup_repo_path()
import torch  # noqa: E402
import inferno  # noqa: E402
from inferno import observe as obs  # noqa: E402

torch.set_num_threads(1)

TRACE_KINDS = {"near", "cum", "snear", "scum", "cnear", "ccum"}
EVENT_KINDS = {"ev_inf", "ev_nan", "ev_zero"}
# which graph (specification kind) serves which implementation class
SPEC_KIND = {"near": "near", "cum": "cum", "snear": "snear", "scum": "scum", "cnear": "snear", "ccum": "scum",
             "ev_inf": "ev_inf", "ev_nan": "ev_nan", "ev_zero": "ev_zero", "pass": "pass", "ema": "ema", "ca": "ca"}
CLASS = {"near": "NearestTraceReducer", "cum": "CumulativeTraceReducer", "snear": "ScaledNearestTraceReducer",
         "scum": "ScaledCumulativeTraceReducer", "cnear": "ConditionalNearestTraceReducer",
         "ccum": "ConditionalCumulativeTraceReducer", "ev_inf": "EventReducer", "ev_nan": "EventReducer",
         "ev_zero": "EventReducer", "pass": "PassthroughReducer", "ema": "EMAReducer", "ca": "CAReducer"}


class Params:
    """A concrete parameter set: how symbolic constants and bases are valued."""

    def __init__(self, dt=1.0, D=4, tau=20.0, A=1.0, S=0.5, u=1.0, alpha=0.5, target=1, obsmode="float",
                 exact=False, f64=False):
        self.f64 = bool(f64)            # observations (hence the reducer's record) and view times in double precision
        self.dt, self.D, self.tau, self.A, self.S, self.u, self.alpha = dt, D, tau, A, S, u, alpha
        self.target, self.obsmode, self.exact = target, obsmode, exact
        self.tick = dt / D
        self.consts = {"A": A, "S": S * u, "U": u, "UA": u * alpha}
        self.bases = {"q": math.exp(-self.tick / tau), "r": (1.0 - alpha) ** (1.0 / D) if alpha < 1 else 0.0}

    def asdict(self):
        return {"dt": self.dt, "D": self.D, "tau": self.tau, "A": self.A, "S": self.S, "u": self.u,
                "alpha": self.alpha, "target": self.target, "obsmode": self.obsmode, "exact": self.exact, "f64": self.f64}

    def value(self, v):
        """(value, magnitude) of a symbolic value of the Reducers specification"""
        if isinstance(v, list):
            return symeval.eval_sym(v, self.consts, self.bases)
        if "k" in v:
            if v["k"] == "t":
                return v["t"] * self.tick, 0.0
            return (math.inf, 0.0) if v["k"] == "inf" else (math.nan, 0.0)
        if "num" in v:
            x = v["num"] / v["den"] * self.u
            return x, abs(x)
        if "lin" in v:
            od, m1 = self.value(v["od"])
            nw, m2 = self.value(v["nw"])
            return od + (nw - od) * v["el"] / self.D, max(m1, m2, abs(od), abs(nw))
        raise TypeError(f"not a symbolic value: {v!r}")


class ReducerImpl:
    """A real reducer driven through its public API."""

    def __init__(self, hdr: dict):
        self.hdr = hdr
        self.rk = hdr["rk"]                      # implementation kind (one of CLASS)
        self.P: Params = hdr["params"]
        self.shape = tuple(hdr.get("shape", (hdr.get("E", 1),)))
        self.E = int(math.prod(self.shape))
        P = self.P
        dur = hdr["durk"] * P.tick
        kw = dict(duration=dur, inclusive=bool(hdr["incl"]), inplace=bool(hdr.get("inplace", False)))
        self._mask = None
        self.crit_args = []

        def criterion(x):
            self.crit_args.append(x)
            return self._mask

        cls = getattr(obs, CLASS[self.rk])
        if self.rk in ("near", "cum"):
            if P.obsmode == "bool":
                tgt, tol = True, None
            elif P.obsmode in ("tol", "edge"):
                tgt, tol = P.target * P.u, 0.25 * P.u
            else:
                tgt, tol = P.target * P.u, None
            self.red = cls(P.dt, P.tau, P.A, tgt, tol, **kw)
        elif self.rk in ("snear", "scum"):
            self.red = cls(P.dt, P.tau, P.A, P.S, criterion, **kw)
        elif self.rk in ("cnear", "ccum"):
            self.red = cls(P.dt, P.tau, P.A, P.S, **kw)
        elif self.rk in EVENT_KINDS:
            self.red = cls(P.dt, criterion, {"ev_inf": "inf", "ev_nan": "nan", "ev_zero": "zero"}[self.rk], **kw)
        elif self.rk == "pass":
            self.red = cls(P.dt, **kw)
        elif self.rk == "ema":
            self.red = cls(P.dt, P.alpha, **kw)
        elif self.rk == "ca":
            self.red = cls(P.dt, **kw)
        else:
            raise KeyError(self.rk)
        self.nobs = 0

    # ---- inputs
    def _obs_tensor(self, v):
        P = self.P
        if self.rk in ("near", "cum") and P.obsmode == "bool":
            return torch.tensor([bool(o["x"] == P.target) for o in v], dtype=torch.bool).reshape(self.shape)
        vals = []
        for i, o in enumerate(v):
            x = o["x"] * P.u
            if self.rk in ("near", "cum") and P.obsmode == "tol":
                # inside / outside the tolerance band around the target, never near its edge
                x = x + (0.2 * P.u if (i + self.nobs) % 2 == 0 else -0.2 * P.u)
            if self.rk in ("near", "cum") and P.obsmode == "edge":
                # matching observations sit exactly ON the edge of the tolerance band (documented: |h - h*| <= eps)
                x = x + (0.25 * P.u if (i + self.nobs) % 2 == 0 else -0.25 * P.u)
            vals.append(x)
        return torch.tensor(vals, dtype=torch.float64 if P.f64 else torch.float32).reshape(self.shape)

    def _mask_tensor(self, v):
        return torch.tensor([bool(o["m"]) for o in v], dtype=torch.bool).reshape(self.shape)

    # ---- operations
    def apply(self, o: dict) -> dict:
        try:
            return self._apply(o)
        except (RuntimeError, ValueError, TypeError, IndexError, AttributeError, AssertionError) as e:
            return {"t": "err", "e": type(e).__name__}

    def _apply(self, o):
        r, a = self.red, o["a"]
        if a == "obs":
            x = self._obs_tensor(o["v"])
            if self.rk in ("cnear", "ccum"):
                r(x, self._mask_tensor(o["v"]))
            else:
                self._mask = self._mask_tensor(o["v"])
                n0 = len(self.crit_args)
                r(x)
                if self.rk in ("snear", "scum") or self.rk in EVENT_KINDS:
                    # the criterion must have been handed the observation itself
                    if len(self.crit_args) != n0 + 1 or not torch.equal(self.crit_args[-1], x):
                        return {"t": "err", "e": "CriterionArgs"}
                    del self.crit_args[:]
            self.nobs += 1
            return {"t": "ok"}
        if a == "clear":
            r.clear(keepshape=bool(o["keep"]))
            return {"t": "ok"}
        if a == "setdt":
            r.dt = o["x"] * self.P.tick
            return {"t": "ok"}
        if a == "peek":
            x = r.peek()
            y = r.latest
            if (x is None) != (y is None) or (x is not None and not torch.equal(
                    torch.nan_to_num(x, nan=-12345.0), torch.nan_to_num(y, nan=-12345.0))):
                return {"t": "err", "e": "LatestDiffersFromPeek"}
            return {"t": "none"} if x is None else {"t": "val", "v": _flat(x)}
        if a == "dump":
            x = r.dump()
            return {"t": "none"} if x is None else {"t": "dump", "vs": [_flat(x[i]) for i in range(x.shape[0])]}
        if a == "view":
            tol = (o["tol2"] / 2) * self.P.tick
            if o["tens"]:
                t = torch.tensor([z * self.P.tick for z in o["tauv"]],
                                 dtype=torch.float64 if self.P.f64 else torch.float32).reshape(self.shape)
            else:
                t = o["tau"] * self.P.tick
            x = r.view(t, tol)
            return {"t": "none"} if x is None else {"t": "view", "r": _flat(x)}
        raise KeyError(a)

    # ---- projection (the state named by the property's anchors: data_ and _initial)
    def project(self) -> dict:
        r = self.red
        rec = r.data_
        ready = not rec.ignored
        return {"init": r.peek() is None, "kind": "ready" if ready else "empty", "n": int(rec.recordsz),
                "ptr": int(rec.pointer),
                "store": [_flat(rec.value[i]) for i in range(rec.value.shape[0])] if ready else []}


def _flat(t):
    return [float(x) for x in t.detach().reshape(-1).tolist()]


class Matcher:
    """Compares specified outcomes (symbolic) with observed ones (floats) for one parameter set."""

    def __init__(self, P: Params):
        self.P = P

    def _vals(self, exp, got, what):
        if len(exp) != len(got):
            return f"{what}: {len(got)} elements, expected {len(exp)}"
        for i, (e, g) in enumerate(zip(exp, got)):
            x, mag = self.P.value(e)
            if not symeval.close(x, g, mag):
                return f"{what}[{i}]: observed {g!r}, expected {x!r}"
        return None

    def ret(self, exp, got):
        if exp.get("t") != got.get("t"):
            return f"return kind {got} instead of {exp.get('t')}"
        t = exp["t"]
        if t == "err":
            return None if exp["e"] == got.get("e") else f"raised {got.get('e')} instead of {exp['e']}"
        if t == "val":
            return self._vals(exp["v"], got["v"], "peek")
        if t == "view":
            return self._vals(exp["r"], got["r"], "view")
        if t == "dump":
            if len(exp["vs"]) != len(got["vs"]):
                return f"dump of {len(got['vs'])} rows, expected {len(exp['vs'])}"
            for j, (e, g) in enumerate(zip(exp["vs"], got["vs"])):
                w = self._vals(e, g, f"dump[{j}]")
                if w:
                    return w
        return None

    def state(self, exp, got):
        m = exp["m"]
        ring = m["ring"]
        if bool(m["init"]) != got["init"]:
            return f"initial={got['init']}, expected {m['init']}"
        if ring["kind"] != got["kind"]:
            return f"storage {got['kind']}, expected {ring['kind']}"
        if ring["n"] != got["n"]:
            return f"record size {got['n']}, expected {ring['n']}"
        if ring["kind"] == "ready":
            if ring["ptr"] != got["ptr"]:
                return f"pointer {got['ptr']}, expected {ring['ptr']}"
            if len(ring["store"]) != len(got["store"]):
                return "storage length"
            for i, (e, g) in enumerate(zip(ring["store"], got["store"])):
                w = self._vals(e, g, f"store[{i}]")
                if w:
                    return w
        return None


# ---------------------------------------------------------------- functional entry points
_FOLDS = [0]


def functional_fold(kind: str, variant: str, P: Params, hist):
    """Fold a history (list of one-element observations) through the functional API
    inferno.trace_* / exp_trace_* / exprate_trace_*; returns the final float value."""
    tr = None
    # every other fold uses the documented tolerance band: matching observations are moved off the target by up to
    # 0.2 u (tolerance 0.25 u), the others stay at least 0.8 u away - the classification, hence the trace, is the same
    _FOLDS[0] += 1
    banded = _FOLDS[0] % 2 == 1 and kind in ("near", "cum")
    for i, o in enumerate(hist):
        jitter = ((i * 7 + _FOLDS[0]) % 5 - 2) * 0.1 * P.u if banded else 0.0
        x = torch.tensor([o["x"] * P.u + jitter], dtype=torch.float32)
        decay = math.exp(-P.dt / P.tau)
        if kind in ("near", "cum"):
            name = "trace_nearest" if kind == "near" else "trace_cumulative"
            common = dict(amplitude=P.A, target=P.target * P.u, tolerance=(0.25 * P.u if banded else None))
            if variant == "plain":
                tr = getattr(inferno, name)(x, tr, decay=decay, **common)
            elif variant == "exp":
                tr = getattr(inferno, "exp_" + name)(x, tr, step_time=P.dt, time_constant=P.tau, **common)
            else:
                tr = getattr(inferno, "exprate_" + name)(x, tr, step_time=P.dt, rate_constant=1.0 / P.tau, **common)
        elif kind in ("snear", "scum"):
            name = "trace_nearest_scaled" if kind == "snear" else "trace_cumulative_scaled"
            m = torch.tensor([bool(o["m"])])
            tr = getattr(inferno, name)(x, tr, decay=decay, amplitude=P.A, scale=P.S, matchfn=lambda z, m=m: m)
        else:
            raise KeyError(kind)
    return float(tr.reshape(-1)[0])
