"""Adaptor for C09 (SplitCore): runs the REAL trainers of inferno.learn on small cells
(Serial(LinearDense + DeltaCurrent, ExactNeuron with forced postsynaptic spikes),
`connection.updater = connection.defaultupdater()`) and reads what they hand to the
updater (`updater.<param>.pos/.neg`) after `trainer(...)`.

Vocabulary shared with spec/SplitCore.tla: a configuration is (kind, r1, r2) with r the
sign class (-1, 0, 1) of the two learning rates (T1 is the causal term, governed by the
first rate); a call is {"form": "none"} | {"form": "scalar", "s": c} |
{"form": "tensor", "sv": [c..]} | {"form": "elems", ...} | {"form": "rates", "d": [c..]}.
Magnitudes are dyadic floats, decay constants are dt/ln 2 (decay 1/2 per step).
"""
from __future__ import annotations
import math
from .core import setup_repo_path, MachineryFailure

setup_repo_path()
import torch  # noqa: E402
from inferno.extra import ExactNeuron  # noqa: E402
from inferno.neural import DeltaCurrent, LinearDense, Serial  # noqa: E402
import inferno.learn as L  # noqa: E402
import inferno.functional as F  # noqa: E402
from inferno.learn.trainers import two_factor_stdp as _tf  # noqa: E402

torch.set_num_threads(1)

DT = 1.0
TAU = DT / math.log(2.0)
B, NI, NO = 2, 3, 2
MAG1, MAG2 = 0.25, 0.5           # |rate| of the first / second learning rate
SIG_SCALAR, SIG_TENSOR, SCALE = 0.5, (0.5, 0.25), 2.0
DELAYS = [[0.0, 1.0, 2.0], [1.0, 0.0, 1.0]]
REDS = {"sum": torch.sum, "mean": torch.mean, "amax": torch.amax}


def _rate(c, mag):
    return float(c) * mag


def _stable(name):
    return getattr(_tf, name, None)


KINDS = {
    # name: (class, parameter, factors, needs delays, constructor(r1, r2, f))
    "STDP": (L.STDP, "weight", 2, False,
             lambda a, b, f, **o: L.STDP(a, b, TAU, TAU, batch_reduction=f, **o)),
    "StableSTDP": (_stable("StableSTDP"), "weight", 2, False,
                   lambda a, b, f, **o: _stable("StableSTDP")(a, b, TAU, TAU, batch_reduction=f, **o)),
    "TripletSTDP": (L.TripletSTDP, "weight", 2, False,
                    lambda a, b, f, **o: L.TripletSTDP(a, 0.125, b, 0.125, TAU, 2 * TAU, TAU, 2 * TAU,
                                                       batch_reduction=f, **o)),
    "StableTripletSTDP": (_stable("StableTripletSTDP"), "weight", 2, False,
                          lambda a, b, f, **o: _stable("StableTripletSTDP")(a, 0.125, b, 0.125, TAU, 2 * TAU, TAU,
                                                                           2 * TAU, batch_reduction=f, **o)),
    "DelayAdjustedSTDP": (L.DelayAdjustedSTDP, "weight", 2, True,
                          lambda a, b, f, **o: L.DelayAdjustedSTDP(a, b, TAU, TAU, batch_reduction=f)),
    "DelayAdjustedSTDPD": (L.DelayAdjustedSTDPD, "delay", 2, True,
                           lambda a, b, f, **o: L.DelayAdjustedSTDPD(a, b, TAU, TAU, batch_reduction=f)),
    "MSTDP": (L.MSTDP, "weight", 3, False,
              lambda a, b, f, **o: L.MSTDP(a, b, TAU, TAU, batch_reduction=f, **o)),
    "MSTDPET": (L.MSTDPET, "weight", 3, False,
                lambda a, b, f, **o: L.MSTDPET(a, b, TAU, TAU, TAU, batch_reduction=f, **o)),
    "DelayAdjustedMSTDP": (L.DelayAdjustedMSTDP, "weight", 3, True,
                           lambda a, b, f, **o: L.DelayAdjustedMSTDP(a, b, TAU, TAU, batch_reduction=f)),
    "DelayAdjustedMSTDPD": (L.DelayAdjustedMSTDPD, "delay", 3, True,
                            lambda a, b, f, **o: L.DelayAdjustedMSTDPD(a, b, TAU, TAU, batch_reduction=f)),
    "KernelSTDP": (L.KernelSTDP, "weight", 2, False,
                   lambda a, b, f, **o: L.KernelSTDP(F.exp_stdp_post_kernel, F.exp_stdp_pre_kernel,
                                                     {"learning_rate": a, "time_constant": TAU},
                                                     {"learning_rate": b, "time_constant": TAU}, batch_reduction=f)),
    "DelayAdjustedKernelSTDP": (L.DelayAdjustedKernelSTDP, "weight", 2, True,
                                lambda a, b, f, **o: L.DelayAdjustedKernelSTDP(
                                    F.exp_stdp_post_kernel, F.exp_stdp_pre_kernel,
                                    {"learning_rate": a, "time_constant": TAU},
                                    {"learning_rate": b, "time_constant": TAU}, batch_reduction=f)),
    "DelayAdjustedKernelSTDPD": (L.DelayAdjustedKernelSTDPD, "delay", 2, True,
                                 lambda a, b, f, **o: L.DelayAdjustedKernelSTDPD(
                                     F.exp_stdp_post_kernel, F.exp_stdp_pre_kernel,
                                     {"learning_rate": a, "time_constant": TAU},
                                     {"learning_rate": b, "time_constant": TAU}, batch_reduction=f)),
    "HomeoWeight": (L.LinearHomeostasis, "weight", 1, False,
                    lambda a, b, f, **o: L.LinearHomeostasis(a, None, "weight", batch_reduction=f)),
    "HomeoBias": (L.LinearHomeostasis, "bias", 1, False,
                  lambda a, b, f, **o: L.LinearHomeostasis(a, None, "bias", batch_reduction=f)),
    "HomeoDelay": (L.LinearHomeostasis, "delay", 1, True,
                   lambda a, b, f, **o: L.LinearHomeostasis(a, None, "delay", batch_reduction=f)),
}
KINDS = {k: v for k, v in KINDS.items() if v[0] is not None}
NO_ZERO_RATE = {"TripletSTDP", "StableTripletSTDP"}     # pair rate 0 divides by zero in the trace amplitudes
CLAMP_KINDS = {"KernelSTDP", "DelayAdjustedKernelSTDP", "DelayAdjustedKernelSTDPD"}
HOMEO_KINDS = {"HomeoWeight", "HomeoBias", "HomeoDelay"}
HOMEO_TARGET = [[0.5, 0.25]]          # per output, shape (1, NO)


def site_of(kind):
    return f"{KINDS[kind][0].__name__}.forward"


def make_layer(kind):
    cls, param, factors, needs_delay, _ = KINDS[kind]
    delay = 3.0 if (needs_delay or param == "delay") else None
    neuron = ExactNeuron((NO,), DT, rest_v=-60.0, thresh_v=-45.0, batch_size=B)
    conn = LinearDense((NI,), (NO,), DT, synapse=DeltaCurrent.partialconstructor(1.0), delay=delay,
                       bias=(param == "bias"), batch_size=B,
                       weight_init=lambda w: torch.full_like(w, 0.5),
                       bias_init=lambda b: torch.full_like(b, 0.25),
                       delay_init=(lambda d: torch.tensor(DELAYS)) if delay is not None else None)
    conn.updater = conn.defaultupdater()
    return Serial(conn, neuron)


def histories(rng, steps):
    """Spike histories: (name, [(pre[B,NI], post[B,NO]) ...]).  Anchors: one causal pair
    (all inputs spike, two steps later - beyond every delay - all outputs spike) and one
    anti-causal pair."""
    g = torch.Generator().manual_seed(rng.randrange(2 ** 31))
    rnd = [(torch.rand(B, NI, generator=g) < 0.45, torch.rand(B, NO, generator=g) < 0.45) for _ in range(steps)]
    z_i, z_o = torch.zeros(B, NI, dtype=torch.bool), torch.zeros(B, NO, dtype=torch.bool)
    o_i, o_o = torch.ones(B, NI, dtype=torch.bool), torch.ones(B, NO, dtype=torch.bool)
    causal = [(o_i, z_o), (z_i, z_o), (z_i, z_o), (z_i, o_o), (z_i, z_o)]
    anti = [(z_i, o_o), (z_i, z_o), (z_i, z_o), (o_i, z_o), (z_i, z_o), (z_i, z_o), (z_i, z_o)]
    return [("random", rnd), ("causal", causal), ("anticausal", anti)]


def call_kwargs(kind, call):
    """Numeric arguments of trainer(...) for a symbolic call."""
    form = call["form"]
    if form in ("none", "elems"):
        return {}
    if form == "scalar":
        return {"signal": float(call["s"]) * SIG_SCALAR, "scale": SCALE}
    if form == "tensor":
        return {"signal": torch.tensor([float(c) * m for c, m in zip(call["sv"], SIG_TENSOR)]), "scale": SCALE}
    if form == "onehot":       # reference: unit reward for one sample, zero for the others
        v = [0.0] * B
        v[call["b"]] = 1.0
        return {"signal": torch.tensor(v), "scale": 1.0}
    if form == "rates":
        return {"target": torch.tensor(HOMEO_TARGET)}
    raise MachineryFailure(f"unknown call {call}")


class Probe:
    """Recording bounding function (DESIGN 2.4 device 5): logs the part it was handed and
    returns it scaled by a power of two, so the applied change shows which part reached
    which bound."""

    def __init__(self, factor):
        self.factor = factor
        self.got = []

    def __call__(self, param, update, limit, **kwargs):
        self.got.append(update.detach().clone())
        return update * self.factor


class Run:
    """One real trainer on one real cell, stepped through a spike history; at every step
    the trainer is invoked once per call variant on a cleared accumulator."""

    def __init__(self, kind, r1, r2, red, **opts):
        cls, self.param, self.factors, _, make = KINDS[kind]
        self.kind = kind
        self.layer = make_layer(kind)
        self.trainer = make(_rate(r1, MAG1), _rate(r2, MAG2), REDS[red], **opts)
        self.trainer.register_cell("cell", self.layer.cell)
        self.acc = getattr(self.layer.updater, self.param)
        self.count = 0
        self.psum = torch.zeros(B, NO)

    def step(self, pre, post):
        self.layer(pre, neuron_kwargs={"override": post})
        self.count += 1
        self.psum += post.float()

    def parts(self, call):
        """trainer(call) on a cleared accumulator -> (pos, neg) as detached tensors / None."""
        delattr(self.layer.updater, self.param)
        self.trainer(**call_kwargs(self.kind, call))
        p, n = self.acc.pos, self.acc.neg
        return (None if p is None else p.detach().clone(), None if n is None else n.detach().clone())

    def param_value(self):
        return getattr(self.layer.connection, self.param).detach().clone()

    def apply_with_probes(self, call):
        """trainer(call) then connection.update() with recording bounds installed."""
        up, lo = Probe(2.0), Probe(4.0)
        self.acc.upperbound(up, 1.0)
        self.acc.lowerbound(lo, 0.0)
        pos, neg = self.parts(call)
        before = self.param_value()
        self.layer.connection.update()
        after = self.param_value()
        self.acc.upperbound(None)
        self.acc.lowerbound(None)
        return pos, neg, up.got, lo.got, before, after

    def homeo_k(self, r1):
        """k = plasticity * (target - rate) / target (sign reversed for delays), reduced over
        the receptive dimension, per sample: the documented formula evaluated from the
        forced spike history (rate = cumulative average of the postsynaptic spikes)."""
        target = torch.tensor(HOMEO_TARGET)
        rate = self.psum / self.count
        k = (target - rate) / target * _rate(r1, MAG1)
        if self.param == "delay":
            k = -k
        return k          # (B, NO)
