"""Adaptor for C09 (SplitCore): runs the REAL trainers of inferno.learn on small cells
(Serial(LinearDense + DeltaCurrent, ExactNeuron with forced postsynaptic spikes),
`connection.updater = connection.defaultupdater()`) and reads what they hand to the
updater (`updater.<param>.pos/.neg`) after `trainer(...)`.

Vocabulary shared with spec/SplitCore.tla: a configuration is (kind, r1, r2) with r the
sign class (-1, 0, 1) of the two learning rates (T1 is the causal term, governed by the
first rate); a call is {"form": "none"} | {"form": "scalar", "s": c} |
{"form": "tensor", "sv": [c..]} | {"form": "elems", ...} | {"form": "rates", "d": [c..]}.
Magnitudes are dyadic floats, decay constants are dt/ln 2 (decay 1/2 per step).
"""
from __future__ import annotations
import math
from .core import setup_repo_path, MachineryFailure

setup_repo_path()
import torch  # noqa: E402
from inferno.extra import ExactNeuron  # noqa: E402
from inferno.neural import DeltaCurrent, LinearDense, Serial  # noqa: E402
import inferno.learn as L  # noqa: E402
import inferno.functional as F  # noqa: E402
from inferno.learn.trainers import two_factor_stdp as _tf  # noqa: E402

torch.set_num_threads(1)

DT = 1.0
TAU = DT / math.log(2.0)
B, NI, NO = 2, 3, 2
MAG1, MAG2 = 0.25, 0.5           # |rate| of the first / second learning rate
SIG_SCALAR, SIG_TENSOR, SCALE = 0.5, (0.5, 0.25), 2.0
DELAYS = [[0.0, 1.0, 2.0], [1.0, 0.0, 1.0]]
REDS = {"sum": torch.sum, "mean": torch.mean, "amax": torch.amax}


def _rate(c, mag):
    return float(c) * mag


def _stable(name):
    return getattr(_tf, name, None)


def _kern(a, b, tc1, tc2, mode, f):
    return dict(kernel_post=F.exp_stdp_post_kernel, kernel_pre=F.exp_stdp_pre_kernel,
                kernel_post_kwargs={"learning_rate": a, "time_constant": tc1},
                kernel_pre_kwargs={"learning_rate": b, "time_constant": tc2}, batch_reduction=f)


# name: (class, parameter, factors, needs delays, hyperparameters(r1, r2, tc1, tc2, trace mode, reduction))
# the hyperparameter dictionaries are valid BOTH as constructor keywords (trainer-level defaults)
# and as register_cell(...) keywords (per-cell overrides); r1 governs the causal term T1
KINDS = {
    "STDP": (L.STDP, "weight", 2, False,
             lambda a, b, t1, t2, m, f: dict(lr_post=a, lr_pre=b, tc_post=t2, tc_pre=t1, trace_mode=m,
                                             batch_reduction=f)),
    "StableSTDP": (_stable("StableSTDP"), "weight", 2, False,
                   lambda a, b, t1, t2, m, f: dict(lr_post=a, lr_pre=b, tc_post=t2, tc_pre=t1, trace_mode=m,
                                                   batch_reduction=f)),
    "TripletSTDP": (L.TripletSTDP, "weight", 2, False,
                    lambda a, b, t1, t2, m, f: dict(lr_post_pair=a, lr_post_triplet=0.125, lr_pre_pair=b,
                                                    lr_pre_triplet=0.125, tc_post_fast=t2, tc_post_slow=2 * t2,
                                                    tc_pre_fast=t1, tc_pre_slow=2 * t1, trace_mode=m,
                                                    batch_reduction=f)),
    "StableTripletSTDP": (_stable("StableTripletSTDP"), "weight", 2, False,
                          lambda a, b, t1, t2, m, f: dict(lr_post_pair=a, lr_post_triplet=0.125, lr_pre_pair=b,
                                                          lr_pre_triplet=0.125, tc_post_fast=t2,
                                                          tc_post_slow=2 * t2, tc_pre_fast=t1, tc_pre_slow=2 * t1,
                                                          trace_mode=m, batch_reduction=f)),
    "DelayAdjustedSTDP": (L.DelayAdjustedSTDP, "weight", 2, True,
                          lambda a, b, t1, t2, m, f: dict(lr_pos=a, lr_neg=b, tc_pos=t1, tc_neg=t2,
                                                          batch_reduction=f)),
    "DelayAdjustedSTDPD": (L.DelayAdjustedSTDPD, "delay", 2, True,
                           lambda a, b, t1, t2, m, f: dict(lr_neg=a, lr_pos=b, tc_neg=t1, tc_pos=t2,
                                                           batch_reduction=f)),
    "MSTDP": (L.MSTDP, "weight", 3, False,
              lambda a, b, t1, t2, m, f: dict(lr_post=a, lr_pre=b, tc_post=t2, tc_pre=t1, trace_mode=m,
                                              batch_reduction=f)),
    "MSTDPET": (L.MSTDPET, "weight", 3, False,
                lambda a, b, t1, t2, m, f: dict(lr_post=a, lr_pre=b, tc_post=t2, tc_pre=t1, tc_eligibility=t1,
                                                trace_mode=m, batch_reduction=f)),
    "DelayAdjustedMSTDP": (L.DelayAdjustedMSTDP, "weight", 3, True,
                           lambda a, b, t1, t2, m, f: dict(lr_pos=a, lr_neg=b, tc_pos=t1, tc_neg=t2,
                                                           batch_reduction=f)),
    "DelayAdjustedMSTDPD": (L.DelayAdjustedMSTDPD, "delay", 3, True,
                            lambda a, b, t1, t2, m, f: dict(lr_neg=a, lr_pos=b, tc_neg=t1, tc_pos=t2,
                                                            batch_reduction=f)),
    "KernelSTDP": (L.KernelSTDP, "weight", 2, False, _kern),
    "DelayAdjustedKernelSTDP": (L.DelayAdjustedKernelSTDP, "weight", 2, True, _kern),
    "DelayAdjustedKernelSTDPD": (L.DelayAdjustedKernelSTDPD, "delay", 2, True, _kern),
    "HomeoWeight": (L.LinearHomeostasis, "weight", 1, False,
                    lambda a, b, t1, t2, m, f: dict(plasticity=a, target=None, param="weight", batch_reduction=f)),
    "HomeoBias": (L.LinearHomeostasis, "bias", 1, False,
                  lambda a, b, t1, t2, m, f: dict(plasticity=a, target=None, param="bias", batch_reduction=f)),
    "HomeoDelay": (L.LinearHomeostasis, "delay", 1, True,
                   lambda a, b, t1, t2, m, f: dict(plasticity=a, target=None, param="delay", batch_reduction=f)),
}
KINDS = {k: v for k, v in KINDS.items() if v[0] is not None}
NO_ZERO_RATE = {"TripletSTDP", "StableTripletSTDP"}     # pair rate 0 divides by zero in the trace amplitudes
CLAMP_KINDS = {"KernelSTDP", "DelayAdjustedKernelSTDP", "DelayAdjustedKernelSTDPD"}
HOMEO_KINDS = {"HomeoWeight", "HomeoBias", "HomeoDelay"}
HOMEO_TARGET = [[0.5, 0.25]]          # a cell's default target: per output, shape (1, NO)
CALL_TARGET = 0.375                   # target passed with the call


def site_of(kind):
    return f"{KINDS[kind][0].__name__}.forward"


class HP:
    """Numeric hyperparameters of one configuration (a trainer's defaults or a cell's
    effective values): sign classes and magnitudes of both rates, both time constants,
    trace mode, batch reduction, homeostasis target."""

    def __init__(self, r1, r2, red="sum", mag1=MAG1, mag2=MAG2, tc1=TAU, tc2=TAU, mode="cumulative",
                 target=None):
        self.r1, self.r2, self.red = r1, r2, red
        self.mag1, self.mag2, self.tc1, self.tc2, self.mode, self.target = mag1, mag2, tc1, tc2, mode, target

    def with_signs(self, r1, r2, red=None):
        return HP(r1, r2, red or self.red, self.mag1, self.mag2, self.tc1, self.tc2, self.mode, self.target)

    def kwargs(self, kind):
        d = KINDS[kind][4](_rate(self.r1, self.mag1), _rate(self.r2, self.mag2), self.tc1, self.tc2, self.mode,
                           REDS[self.red])
        if kind in HOMEO_KINDS:
            d["target"] = (None if self.target is None else float(self.target) if isinstance(self.target, (int, float))
                           else torch.tensor(self.target))
        return d

    def describe(self):
        return {"r1": self.r1, "r2": self.r2, "mag1": self.mag1, "mag2": self.mag2, "tc1": self.tc1,
                "tc2": self.tc2, "mode": self.mode, "reduction": self.red, "target": self.target}


CONN_SIZES = {"dense": (NI, NO), "dense23": (2, 3), "direct": (3, 3), "lateral": (2, 2)}


def make_layer(kind, conn="dense"):
    """Serial(connection + DeltaCurrent, ExactNeuron) with a default updater.  conn: LinearDense
    3->2, LinearDense 2->3, LinearDirect 3, LinearLateral 2."""
    from inferno.neural import LinearDirect, LinearLateral
    cls, param, factors, needs_delay, _ = KINDS[kind]
    delay = 3.0 if (needs_delay or param == "delay") else None
    n_in, n_out = CONN_SIZES[conn]
    neuron = ExactNeuron((n_out,), DT, rest_v=-60.0, thresh_v=-45.0, batch_size=B)

    def dinit(d):
        idx = torch.arange(d.numel(), dtype=torch.float32).reshape(d.shape)
        return (idx * 2.0 + torch.floor(idx / 3.0)) % 3.0        # 0,2,1 / 1,0,2 ... dyadic, <= 2 steps

    common = dict(synapse=DeltaCurrent.partialconstructor(1.0), delay=delay, bias=(param == "bias"), batch_size=B,
                  weight_init=lambda w: torch.full_like(w, 0.5), bias_init=lambda b: torch.full_like(b, 0.25),
                  delay_init=(lambda d: torch.tensor(DELAYS)) if (delay is not None and conn == "dense")
                  else (dinit if delay is not None else None))
    if conn in ("dense", "dense23"):
        c = LinearDense((n_in,), (n_out,), DT, **common)
    elif conn == "direct":
        c = LinearDirect((n_in,), DT, **common)
    else:
        c = LinearLateral((n_in,), DT, **common)
    c.updater = c.defaultupdater()
    return Serial(c, neuron)


def random_history(rng, steps, conn="dense", p=0.45):
    n_in, n_out = CONN_SIZES[conn]
    g = torch.Generator().manual_seed(rng.randrange(2 ** 31))
    return [(torch.rand(B, n_in, generator=g) < p, torch.rand(B, n_out, generator=g) < p) for _ in range(steps)]


def histories(rng, steps):
    """Spike histories: (name, [(pre[B,NI], post[B,NO]) ...]).  Anchors: one causal pair
    (all inputs spike, two steps later - beyond every delay - all outputs spike) and one
    anti-causal pair."""
    g = torch.Generator().manual_seed(rng.randrange(2 ** 31))
    rnd = [(torch.rand(B, NI, generator=g) < 0.45, torch.rand(B, NO, generator=g) < 0.45) for _ in range(steps)]
    z_i, z_o = torch.zeros(B, NI, dtype=torch.bool), torch.zeros(B, NO, dtype=torch.bool)
    o_i, o_o = torch.ones(B, NI, dtype=torch.bool), torch.ones(B, NO, dtype=torch.bool)
    causal = [(o_i, z_o), (z_i, z_o), (z_i, z_o), (z_i, o_o), (z_i, z_o)]
    anti = [(z_i, o_o), (z_i, z_o), (z_i, z_o), (o_i, z_o), (z_i, z_o), (z_i, z_o), (z_i, z_o)]
    return [("random", rnd), ("causal", causal), ("anticausal", anti)]


def call_kwargs(kind, call):
    """Numeric arguments of trainer(...) for a symbolic call."""
    form = call["form"]
    if form in ("none", "elems"):
        return {}
    # the scale is documented as "expected to be nonnegative, and its absolute value will be used": a third of the
    # calls pass it negated; the specified parts and their routing are the same (seeded C09-m5)
    import json as _json, zlib as _zlib
    sgn = -1.0 if _zlib.crc32(_json.dumps([kind, call], sort_keys=True, default=str).encode()) % 3 == 0 else 1.0
    if form == "scalar":
        return {"signal": float(call["s"]) * SIG_SCALAR, "scale": sgn * SCALE}
    if form == "tensor":
        return {"signal": torch.tensor([float(c) * m for c, m in zip(call["sv"], SIG_TENSOR)]), "scale": sgn * SCALE}
    if form == "onehot":       # reference: unit reward for one sample, zero for the others
        v = [0.0] * B
        v[call["b"]] = 1.0
        return {"signal": torch.tensor(v), "scale": 1.0}
    if form == "rates":       # target given with the call (one float for every cell) or left to the cells' defaults
        return {"target": CALL_TARGET} if call.get("tg") == "call" else {}
    raise MachineryFailure(f"unknown call {call}")


class Probe:
    """Recording bounding function (DESIGN 2.4 device 5): logs the part it was handed and
    returns it scaled by a power of two, so the applied change shows which part reached
    which bound."""

    def __init__(self, factor):
        self.factor = factor
        self.got = []

    def __call__(self, param, update, limit, **kwargs):
        self.got.append(update.detach().clone())
        return update * self.factor


class CellView:
    """One cell of a (possibly shared) trainer: its layer, its accumulator, the forced
    postsynaptic history (for the homeostasis formula)."""

    def __init__(self, kind, layer, hp: HP):
        self.kind, self.layer, self.hp = kind, layer, hp
        self.param = KINDS[kind][1]
        self.acc = getattr(layer.updater, self.param)
        n_out = layer.connection.outshape[0] if hasattr(layer.connection, "outshape") else NO
        self.count = 0
        self.psum = torch.zeros(B, n_out)

    def step(self, pre, post):
        self.layer(pre, neuron_kwargs={"override": post})
        self.count += 1
        self.psum += post.float()

    def clear(self):
        # the documented ways of emptying an accumulator, in turn: the attribute deleter, Accumulator.clear(),
        # Updater.clear() - after any of them a part that is not written again must read as absent (C09-m10)
        self._nclear = getattr(self, "_nclear", 0) + 1
        how = self._nclear % 3
        if how == 0:
            delattr(self.layer.updater, self.param)
        elif how == 1:
            self.acc.clear()
        else:
            self.layer.updater.clear()

    def read(self):
        p, n = self.acc.pos, self.acc.neg
        return (None if p is None else p.detach().clone(), None if n is None else n.detach().clone())

    def param_value(self):
        return getattr(self.layer.connection, self.param).detach().clone()

    def target_value(self, call):
        """The target rate this cell must use: the call's when given, else ITS OWN default."""
        t = CALL_TARGET if call.get("tg") == "call" else self.hp.target
        n_out = self.psum.shape[1]
        return [[float(t)] * n_out] if isinstance(t, (int, float)) else t

    def homeo_k(self, r1, target):
        """k = plasticity * (target - rate) / target (sign reversed for delays), per sample and
        output: the documented formula evaluated from the forced spike history (rate =
        cumulative average of the postsynaptic spikes).  target: (1, n_out) list."""
        tgt = torch.tensor(target)
        rate = self.psum / self.count
        k = (tgt - rate) / tgt * _rate(r1, self.hp.mag1)
        if self.param == "delay":
            k = -k
        return k


class MultiRun:
    """ONE real trainer constructed with default hyperparameters, with one or several cells
    registered on it - each with its own keyword overrides, connection kind and spike history.
    trainer(call) is invoked once for all cells on cleared accumulators."""

    def __init__(self, kind, defaults: HP, cells):
        """cells: list of (override keys or None for all / [] for none, effective HP, conn kind)."""
        cls = KINDS[kind][0]
        self.kind = kind
        self.trainer = cls(**defaults.kwargs(kind))
        self.cells = []
        for j, (keys, hp, conn) in enumerate(cells):
            layer = make_layer(kind, conn)
            kw = hp.kwargs(kind)
            if keys is not None:
                kw = {k: v for k, v in kw.items() if k in keys}
            self.trainer.register_cell(f"cell{j}", layer.cell, **kw)
            self.cells.append(CellView(kind, layer, hp))

    def call(self, call):
        for c in self.cells:
            c.clear()
        self.trainer(**call_kwargs(self.kind, call))
        return [c.read() for c in self.cells]


class Run(CellView):
    """One real trainer on one real cell (hyperparameters given to the constructor), stepped
    through a spike history; at every step the trainer is invoked once per call variant on a
    cleared accumulator."""

    def __init__(self, kind, r1, r2, red, hp: HP | None = None, conn="dense"):
        hp = (hp or HP(r1, r2, red)).with_signs(r1, r2, red)
        self.multi = MultiRun(kind, hp, [([], hp, conn)])
        cell = self.multi.cells[0]
        self.__dict__.update(cell.__dict__)
        self.trainer = self.multi.trainer

    def parts(self, call):
        """trainer(call) on a cleared accumulator -> (pos, neg) as detached tensors / None."""
        self.clear()
        self.trainer(**call_kwargs(self.kind, call))
        return self.read()

    def apply_with_probes(self, call):
        """trainer(call) then connection.update() with recording bounds installed."""
        up, lo = Probe(2.0), Probe(4.0)
        self.acc.upperbound(up, 1.0)
        self.acc.lowerbound(lo, 0.0)
        pos, neg = self.parts(call)
        before = self.param_value()
        self.layer.connection.update()
        after = self.param_value()
        self.acc.upperbound(None)
        self.acc.lowerbound(None)
        return pos, neg, up.got, lo.got, before, after
