"""Adaptor: builds REAL inferno cells and STDP-family trainers (C08, C18) and drives them
one simulation step at a time through the public API only:

    layer(pre_spikes, neuron_kwargs={"override": post_spikes})   # ExactNeuron's documented override
    trainer() / trainer(signal, scale)
    connection.updater.<param>.pos / .neg                         # the accumulators
    connection.update()  /  del connection.updater.<param>        # apply + clear / clear

Post-synaptic spikes are forced exactly as the repository's own trainer tests do
(test/learn/test_kernel_stdp.py).  Nothing here computes an expectation.
"""
from __future__ import annotations
import math
from .core import setup_repo_path

setup_repo_path()
import torch  # noqa: E402

import inferno  # noqa: E402,F401
from inferno.extra import ExactNeuron  # noqa: E402
from inferno.neural import DeltaCurrent, LinearDense, LinearDirect, LinearLateral, Conv2D, Serial  # noqa: E402
from inferno import learn  # noqa: E402
from inferno.learn.trainers import two_factor_stdp as _two  # noqa: E402
from inferno.functional import exp_stdp_post_kernel, exp_stdp_pre_kernel  # noqa: E402

torch.set_num_threads(1)

REDUCTIONS = {"sum": torch.sum, "mean": torch.mean}

C08_RULES = ("stdp", "stable_stdp", "triplet", "stable_triplet", "mstdp", "mstdpet")
C18_RULES = ("da_stdp", "da_stdpd", "da_mstdp", "da_mstdpd", "k_stdp", "dak_stdp", "dak_stdpd")
THREE_FACTOR = ("mstdp", "mstdpet", "da_mstdp", "da_mstdpd")
DELAY_LEARNING = ("da_stdpd", "da_mstdpd", "dak_stdpd")


def build_layer(conn: dict, dt: float, B: int, dmax_steps):
    """Serial(<connection with DeltaCurrent>, ExactNeuron); `dmax_steps` None = no delays."""
    delay = None if dmax_steps is None else dmax_steps * dt
    syn = DeltaCurrent.partialconstructor(1.0)
    k = conn["kind"]
    if k == "dense":
        c = LinearDense((conn["M"],), (conn["N"],), dt, synapse=syn, delay=delay, batch_size=B)
    elif k == "direct":
        c = LinearDirect((conn["n"],), dt, synapse=syn, delay=delay, batch_size=B)
    elif k == "lateral":
        c = LinearLateral((conn["n"],), dt, synapse=syn, delay=delay, batch_size=B)
    elif k == "conv":
        c = Conv2D(conn["H"], conn["W"], conn["C"], conn["F"], dt, conn["K"], stride=conn.get("S", 1),
                   padding=conn.get("P", 0), synapse=syn, delay=delay, batch_size=B)
    else:
        raise ValueError(k)
    n = ExactNeuron(c.outshape, dt, rest_v=-60.0, thresh_v=-45.0, batch_size=B)
    c.updater = c.defaultupdater()
    return Serial(c, n)


def make_trainer(rule: str, hp: dict, reduction: str):
    red = REDUCTIONS[reduction]
    if rule in ("stdp", "stable_stdp"):
        cls = learn.STDP if rule == "stdp" else _two.StableSTDP
        return cls(lr_post=hp["lr_post"], lr_pre=hp["lr_pre"], tc_post=hp["tc_post"], tc_pre=hp["tc_pre"],
                   delayed=hp.get("delayed", False), trace_mode=hp["mode"], batch_reduction=red)
    if rule in ("triplet", "stable_triplet"):
        cls = learn.TripletSTDP if rule == "triplet" else _two.StableTripletSTDP
        return cls(lr_post_pair=hp["lr_post_pair"], lr_post_triplet=hp["lr_post_triplet"],
                   lr_pre_pair=hp["lr_pre_pair"], lr_pre_triplet=hp["lr_pre_triplet"],
                   tc_post_fast=hp["tc_post_fast"], tc_post_slow=hp["tc_post_slow"],
                   tc_pre_fast=hp["tc_pre_fast"], tc_pre_slow=hp["tc_pre_slow"],
                   delayed=hp.get("delayed", False), trace_mode=hp["mode"], batch_reduction=red)
    if rule == "mstdp":
        return learn.MSTDP(lr_post=hp["lr_post"], lr_pre=hp["lr_pre"], tc_post=hp["tc_post"], tc_pre=hp["tc_pre"],
                           delayed=hp.get("delayed", False), trace_mode=hp["mode"], batch_reduction=red)
    if rule == "mstdpet":
        return learn.MSTDPET(lr_post=hp["lr_post"], lr_pre=hp["lr_pre"], tc_post=hp["tc_post"],
                             tc_pre=hp["tc_pre"], tc_eligibility=hp["tc_eligibility"], trace_mode=hp["mode"],
                             batch_reduction=red)
    da = dict(lr_pos=hp.get("lr_pos"), lr_neg=hp.get("lr_neg"), tc_pos=hp.get("tc_pos"), tc_neg=hp.get("tc_neg"),
              batch_reduction=red)
    if rule == "da_stdp":
        return learn.DelayAdjustedSTDP(**da)
    if rule == "da_stdpd":
        return learn.DelayAdjustedSTDPD(**da)
    if rule == "da_mstdp":
        return learn.DelayAdjustedMSTDP(**da)
    if rule == "da_mstdpd":
        return learn.DelayAdjustedMSTDPD(**da)
    if rule in ("k_stdp", "dak_stdp", "dak_stdpd"):
        # the shipped exponential half kernels; for the delay-learning variant the causal
        # branch carries eta_minus / tau_minus (class documentation of DelayAdjustedSTDPD)
        if rule == "dak_stdpd":
            post_kw = {"learning_rate": hp["lr_neg"], "time_constant": hp["tc_neg"]}
            pre_kw = {"learning_rate": hp["lr_pos"], "time_constant": hp["tc_pos"]}
        else:
            post_kw = {"learning_rate": hp["lr_pos"], "time_constant": hp["tc_pos"]}
            pre_kw = {"learning_rate": hp["lr_neg"], "time_constant": hp["tc_neg"]}
        kw = dict(kernel_post=exp_stdp_post_kernel, kernel_pre=exp_stdp_pre_kernel,
                  kernel_post_kwargs=post_kw, kernel_pre_kwargs=pre_kw, batch_reduction=red)
        if rule == "k_stdp":
            return learn.KernelSTDP(delayed=hp.get("delayed", False), **kw)
        if rule == "dak_stdp":
            return learn.DelayAdjustedKernelSTDP(**kw)
        return learn.DelayAdjustedKernelSTDPD(**kw)
    raise ValueError(rule)


class Run:
    """One real cell + one real trainer.  hdr: rule, hp, conn, dt, B, reduction,
    dmax (steps or None), delay (None | number of steps | nested list in steps, shaped like
    connection.delay)."""

    def __init__(self, hdr: dict):
        self.hdr = hdr
        self.rule = hdr["rule"]
        self.dt = float(hdr["dt"])
        self.B = int(hdr.get("B", 1))
        self.layer = build_layer(hdr["conn"], self.dt, self.B, hdr.get("dmax"))
        self.conn = self.layer.connection
        self.conn.weight = torch.zeros_like(self.conn.weight)
        if hdr.get("dmax") is not None and hdr.get("delay") is not None:
            self.set_delay(hdr["delay"])
        self.param = "delay" if self.rule in DELAY_LEARNING else "weight"
        self.trainer = make_trainer(self.rule, hdr["hp"], hdr.get("reduction", "sum"))
        self.trainer.register_cell("cell", self.layer.cell)

    def set_delay(self, steps):
        """Assign the learned delays, given in (possibly fractional) steps."""
        d = torch.as_tensor(steps, dtype=torch.float64) * self.dt
        self.conn.delay = (torch.zeros_like(self.conn.delay) + d.to(self.conn.delay.dtype)).clone()

    def step(self, x, y, signal=None, scale=1.0, apply=True):
        """x: bool [B, *inshape], y: bool [B, *outshape] -> (pos, neg) as float64 tensors shaped
        like the trained parameter (an absent part is zero)."""
        self.layer(x, neuron_kwargs={"override": y})
        if self.rule in THREE_FACTOR:
            self.trainer(signal, scale)
        else:
            self.trainer()
        acc = getattr(self.conn.updater, self.param)
        ref = getattr(self.conn, self.param)
        pos, neg = acc.pos, acc.neg
        pos = torch.zeros_like(ref, dtype=torch.float64) if pos is None else pos.detach().to(torch.float64).clone()
        neg = torch.zeros_like(ref, dtype=torch.float64) if neg is None else neg.detach().to(torch.float64).clone()
        if apply:
            self.conn.update()
        else:
            delattr(self.conn.updater, self.param)
        return pos.reshape(ref.shape), neg.reshape(ref.shape)

    def value(self):
        return getattr(self.conn, self.param).detach().to(torch.float64).clone()
