"""Adaptor: builds REAL inferno cells and STDP-family trainers (C08, C18) and drives them
one simulation step at a time through the public API only:

    layer(pre_spikes, neuron_kwargs={"override": post_spikes})   # ExactNeuron's documented override
    trainer() / trainer(signal, scale)
    connection.updater.<param>.pos / .neg                         # the accumulators
    connection.update()  /  del connection.updater.<param>        # apply + clear / clear

Post-synaptic spikes are forced exactly as the repository's own trainer tests do
(test/learn/test_kernel_stdp.py).  Nothing here computes an expectation.
"""
from __future__ import annotations
import math
from .core import setup_repo_path

setup_repo_path()
import torch  # noqa: E402

import inferno  # noqa: E402,F401
from inferno.extra import ExactNeuron  # noqa: E402
from inferno.neural import DeltaCurrent, LinearDense, LinearDirect, LinearLateral, Conv2D, Serial, Biclique  # noqa: E402
from inferno import learn  # noqa: E402
from inferno.learn.trainers import two_factor_stdp as _two  # noqa: E402
from inferno.functional import exp_stdp_post_kernel, exp_stdp_pre_kernel  # noqa: E402

torch.set_num_threads(1)

REDUCTIONS = {"sum": torch.sum, "mean": torch.mean}

C08_RULES = ("stdp", "stable_stdp", "triplet", "stable_triplet", "mstdp", "mstdpet")
C18_RULES = ("da_stdp", "da_stdpd", "da_mstdp", "da_mstdpd", "k_stdp", "dak_stdp", "dak_stdpd")
THREE_FACTOR = ("mstdp", "mstdpet", "da_mstdp", "da_mstdpd")
DELAY_LEARNING = ("da_stdpd", "da_mstdpd", "dak_stdpd")


def build_layer(conn: dict, dt: float, B: int, dmax_steps):
    """Serial(<connection with DeltaCurrent>, ExactNeuron); `dmax_steps` None = no delays."""
    delay = None if dmax_steps is None else dmax_steps * dt
    syn = DeltaCurrent.partialconstructor(1.0)
    k = conn["kind"]
    if k == "dense":
        c = LinearDense((conn["M"],), (conn["N"],), dt, synapse=syn, delay=delay, batch_size=B)
    elif k == "direct":
        c = LinearDirect((conn["n"],), dt, synapse=syn, delay=delay, batch_size=B)
    elif k == "lateral":
        c = LinearLateral((conn["n"],), dt, synapse=syn, delay=delay, batch_size=B)
    elif k == "conv":
        c = Conv2D(conn["H"], conn["W"], conn["C"], conn["F"], dt, conn["K"], stride=conn.get("S", 1),
                   padding=conn.get("P", 0), synapse=syn, delay=delay, batch_size=B)
    else:
        raise ValueError(k)
    n = ExactNeuron(c.outshape, dt, rest_v=-60.0, thresh_v=-45.0, batch_size=B)
    c.updater = c.defaultupdater()
    return Serial(c, n)


def _val(hp: dict, key: str):
    """A hyperparameter in the form requested by hp["form"][key]: python float (default),
    "t0" a 0-d tensor, "tsyn" a per-synapse tensor broadcastable against t_delta (dense:
    [N, M, 1]; only meaningful for kernel keyword arguments)."""
    v = hp[key]
    form = (hp.get("form") or {}).get(key, "float")
    if form == "t0":
        return torch.tensor(float(v), dtype=torch.float32)
    if form == "tsyn":
        return torch.tensor(v, dtype=torch.float32).unsqueeze(-1)
    return float(v)


def trainer_spec(rule: str, hp: dict, reduction: str):
    """-> (trainer class, keyword arguments).  The same keywords are accepted by the
    constructor (trainer-wide defaults) and by register_cell (per-cell overrides)."""
    red = REDUCTIONS[reduction]
    v = lambda k: _val(hp, k)   # noqa: E731
    if rule in ("stdp", "stable_stdp", "mstdp"):
        cls = {"stdp": learn.STDP, "stable_stdp": _two.StableSTDP, "mstdp": learn.MSTDP}[rule]
        return cls, dict(lr_post=v("lr_post"), lr_pre=v("lr_pre"), tc_post=v("tc_post"), tc_pre=v("tc_pre"),
                         delayed=hp.get("delayed", False), trace_mode=hp["mode"], batch_reduction=red)
    if rule in ("triplet", "stable_triplet"):
        cls = learn.TripletSTDP if rule == "triplet" else _two.StableTripletSTDP
        return cls, dict(lr_post_pair=v("lr_post_pair"), lr_post_triplet=v("lr_post_triplet"),
                         lr_pre_pair=v("lr_pre_pair"), lr_pre_triplet=v("lr_pre_triplet"),
                         tc_post_fast=v("tc_post_fast"), tc_post_slow=v("tc_post_slow"),
                         tc_pre_fast=v("tc_pre_fast"), tc_pre_slow=v("tc_pre_slow"),
                         delayed=hp.get("delayed", False), trace_mode=hp["mode"], batch_reduction=red)
    if rule == "mstdpet":
        return learn.MSTDPET, dict(lr_post=v("lr_post"), lr_pre=v("lr_pre"), tc_post=v("tc_post"),
                                   tc_pre=v("tc_pre"), tc_eligibility=v("tc_eligibility"), trace_mode=hp["mode"],
                                   batch_reduction=red)
    if rule in ("da_stdp", "da_stdpd", "da_mstdp", "da_mstdpd"):
        cls = {"da_stdp": learn.DelayAdjustedSTDP, "da_stdpd": learn.DelayAdjustedSTDPD,
               "da_mstdp": learn.DelayAdjustedMSTDP, "da_mstdpd": learn.DelayAdjustedMSTDPD}[rule]
        return cls, dict(lr_pos=v("lr_pos"), lr_neg=v("lr_neg"), tc_pos=v("tc_pos"), tc_neg=v("tc_neg"),
                         batch_reduction=red)
    if rule in ("k_stdp", "dak_stdp", "dak_stdpd"):
        # the shipped exponential half kernels; for the delay-learning variant the causal
        # branch carries eta_minus / tau_minus (class documentation of DelayAdjustedSTDPD)
        if rule == "dak_stdpd":
            post_kw = {"learning_rate": v("lr_neg"), "time_constant": v("tc_neg")}
            pre_kw = {"learning_rate": v("lr_pos"), "time_constant": v("tc_pos")}
        else:
            post_kw = {"learning_rate": v("lr_pos"), "time_constant": v("tc_pos")}
            pre_kw = {"learning_rate": v("lr_neg"), "time_constant": v("tc_neg")}
        kw = dict(kernel_post=exp_stdp_post_kernel, kernel_pre=exp_stdp_pre_kernel,
                  kernel_post_kwargs=post_kw, kernel_pre_kwargs=pre_kw, batch_reduction=red)
        if rule == "k_stdp":
            return learn.KernelSTDP, dict(kw, delayed=hp.get("delayed", False))
        return (learn.DelayAdjustedKernelSTDP if rule == "dak_stdp" else learn.DelayAdjustedKernelSTDPD), kw
    raise ValueError(rule)


def decoy(kwargs: dict) -> dict:
    """Trainer-wide defaults that differ from `kwargs` in every hyperparameter (used when the
    real values are given as per-cell overrides: none of these may leak into the cell)."""
    out = {}
    for k, val in kwargs.items():
        if k == "batch_reduction":
            out[k] = torch.amax
        elif k == "trace_mode":
            out[k] = "nearest" if val == "cumulative" else "cumulative"
        elif k == "delayed":
            out[k] = not val
        elif k in ("kernel_post", "kernel_pre"):
            out[k] = val
        elif k in ("kernel_post_kwargs", "kernel_pre_kwargs"):
            out[k] = {"learning_rate": -0.37 if k.endswith("post_kwargs") else 0.91,
                      "time_constant": torch.tensor(3.3) if k.endswith("post_kwargs") else 11.0}
        elif k.startswith("tc_"):
            out[k] = float(val) * 1.9 + 1.0          # stays positive, keeps slow > fast
        else:
            out[k] = -(float(val) * 1.7) + (0.3 if float(val) < 0 else -0.3)   # learning rates: other sign
    return out


def make_trainer(rule: str, hp: dict, reduction: str):
    cls, kw = trainer_spec(rule, hp, reduction)
    return cls(**kw)


class _CellView:
    """one (connection, neuron) cell of a Biclique, with the attributes the drivers use on a Serial layer"""

    def __init__(self, layer, cname, nname):
        self.layer = layer
        self.cell = layer.get_cell(cname, nname)
        self.connection = self.cell.connection
        self.neuron = self.cell.neuron


class MultiRun:
    """Several real cells trained by ONE real trainer.  hdrs: list of cell headers (rule, hp, conn,
    dt, B, reduction, dmax, delay); all share hdrs[0]["rule"].  via = "ctor": the trainer is built
    from hdrs[0]'s hyperparameters and cell 0 registered without overrides (further cells with
    overrides); via = "override": the trainer is built from decoy defaults and EVERY cell is
    registered with its own hyperparameters as register_cell keyword overrides."""

    def __init__(self, hdrs: list, via: str = "ctor"):
        self.hdrs = hdrs
        self.rule = hdrs[0]["rule"]
        self.param = "delay" if self.rule in DELAY_LEARNING else "weight"
        self.names = [f"cell{j}" for j in range(len(hdrs))]
        self.layers, self.dts = [], []
        specs = [trainer_spec(self.rule, h["hp"], h.get("reduction", "sum")) for h in hdrs]
        cls, kw0 = specs[0]
        self.trainer = cls(**(decoy(kw0) if via == "override" else kw0))
        # shared = True: the cells are the connections of ONE Biclique feeding ONE neuron group (same step time,
        # same postsynaptic spikes): the trainer's monitor pool may alias their monitors, and must do so only
        # where the monitors really are interchangeable
        self.shared = bool(hdrs[0].get("shared"))
        # shared = "conn": the cells are ONE connection of a Biclique paired with SEVERAL neuron groups: the
        # presynaptic-side monitors are the pooling candidates, and the cells accumulate into the one updater
        self.oneconn = hdrs[0].get("shared") == "conn"
        if self.shared:
            dt = float(hdrs[0]["dt"])
            B = int(hdrs[0].get("B", 1))
            parts = [build_layer(h["conn"], dt, B, h.get("dmax")) for h in hdrs]
            if self.oneconn:
                self.biclique = Biclique([("c", parts[0].connection)], [(f"n{j}", q.neuron) for j, q in enumerate(parts)])
            else:
                conns = [(f"c{j}", q.connection) for j, q in enumerate(parts)]
                self.biclique = Biclique(conns, [("n", parts[0].neuron)])
            self._keep = parts
        for j, h in enumerate(hdrs):
            dt = float(h["dt"])
            if self.shared:
                layer = _CellView(self.biclique, "c", f"n{j}") if self.oneconn else _CellView(self.biclique, f"c{j}", "n")
            else:
                layer = build_layer(h["conn"], dt, int(h.get("B", 1)), h.get("dmax"))
            layer.connection.weight = torch.zeros_like(layer.connection.weight)
            self.layers.append(layer)
            self.dts.append(dt)
            if h.get("dmax") is not None and h.get("delay") is not None:
                self.set_delay(h["delay"], j)
            if via == "ctor" and j == 0:
                self.trainer.register_cell(self.names[j], layer.cell)
            else:
                self.trainer.register_cell(self.names[j], layer.cell, **specs[j][1])

    def set_delay(self, steps, j: int = 0):
        """Assign the learned delays of cell j, given in (possibly fractional) steps."""
        conn = self.layers[j].connection
        d = torch.as_tensor(steps, dtype=torch.float64) * self.dts[j]
        conn.delay = (torch.zeros_like(conn.delay) + d.to(conn.delay.dtype)).clone()

    def forward_layers(self, inputs):
        if self.oneconn:
            self.biclique({"c": (inputs[0][0],)},
                          neuron_kwargs={f"n{j}": {"override": y} for j, (_, y) in enumerate(inputs)})
            return
        if self.shared:
            self.biclique({f"c{j}": (x,) for j, (x, _) in enumerate(inputs)},
                          neuron_kwargs={"n": {"override": inputs[0][1]}})
            return
        for layer, (x, y) in zip(self.layers, inputs):
            layer(x, neuron_kwargs={"override": y})

    def train(self, signal=None, scale=1.0, cells=None):
        if self.rule in THREE_FACTOR:
            if cells is None:
                self.trainer(signal, scale)
            else:
                self.trainer(signal, scale, cells=cells)
        else:
            self.trainer()

    def read_all_via_trainer(self):
        """-> ([(pos, neg) per cell], ok): the accumulated parts are read, then applied by ONE trainer.update() (every
        updater exactly once, however many cells share it), then discarded; ok = every parameter changed by exactly
        pos - neg of its updater."""
        seen, before, parts = {}, {}, []
        for j, layer in enumerate(self.layers):
            conn = layer.connection
            acc = getattr(conn.updater, self.param)
            ref = getattr(conn, self.param)
            pos = torch.zeros_like(ref, dtype=torch.float64) if acc.pos is None else acc.pos.detach().to(torch.float64).clone()
            neg = torch.zeros_like(ref, dtype=torch.float64) if acc.neg is None else acc.neg.detach().to(torch.float64).clone()
            parts.append((pos.reshape(ref.shape), neg.reshape(ref.shape)))
            if id(conn) not in seen:
                seen[id(conn)] = (conn, j)
                before[id(conn)] = ref.detach().to(torch.float64).clone()
        self.trainer.update()
        ok = True
        for cid, (conn, j) in seen.items():
            now = getattr(conn, self.param).detach().to(torch.float64)
            want = before[cid] + parts[j][0] - parts[j][1]
            # (learned delays are confined to the connection's delay range by its setter: only weights are compared)
            if self.param == "weight" and not torch.allclose(now, want, rtol=1e-5, atol=1e-6):
                ok = False
            delattr(conn.updater, self.param)          # (CellTrainer.update applies without clearing)
        return parts, ok

    def read(self, j: int = 0, apply=True):
        """-> (pos, neg) of cell j as float64 tensors (an absent part is zero); then apply + clear
        (connection.update()) or only clear."""
        conn = self.layers[j].connection
        acc = getattr(conn.updater, self.param)
        ref = getattr(conn, self.param)
        pos, neg = acc.pos, acc.neg
        pos = torch.zeros_like(ref, dtype=torch.float64) if pos is None else pos.detach().to(torch.float64).clone()
        neg = torch.zeros_like(ref, dtype=torch.float64) if neg is None else neg.detach().to(torch.float64).clone()
        if apply:
            conn.update()
        else:
            delattr(conn.updater, self.param)
        return pos.reshape(ref.shape), neg.reshape(ref.shape)

    def step(self, inputs, signal=None, scale=1.0, cells=None, apply=True):
        """inputs: one (x, y) per cell -> list of (pos, neg) per cell."""
        self.forward_layers(inputs)
        self.train(signal, scale, cells)
        return [self.read(j, apply) for j in range(len(self.layers))]

    def value(self, j: int = 0):
        return getattr(self.layers[j].connection, self.param).detach().to(torch.float64).clone()


class Run(MultiRun):
    """One real cell + one real trainer.  hdr: rule, hp, conn, dt, B, reduction, dmax (steps or
    None), delay (None | number of steps | nested list in steps, shaped like connection.delay),
    via ("ctor" | "override")."""

    def __init__(self, hdr: dict):
        MultiRun.__init__(self, [hdr], via=hdr.get("via", "ctor"))
        self.hdr = hdr
        self.dt = self.dts[0]
        self.B = int(hdr.get("B", 1))
        self.layer = self.layers[0]
        self.conn = self.layer.connection

    def step(self, x, y, signal=None, scale=1.0, apply=True):
        """x: bool [B, *inshape], y: bool [B, *outshape] -> (pos, neg) as float64 tensors shaped
        like the trained parameter (an absent part is zero)."""
        return MultiRun.step(self, [(x, y)], signal, scale, None, apply)[0]
