"""Adaptor between the SynapseHistCore specification vocabulary and the real inferno synapses
(inferno/neural/synapses): DeltaCurrent, DeltaPlusCurrent, SingleExponentialCurrent,
DoubleExponentialCurrent.

Inputs are {"s": 0/1, "j": injected units}; times are ticks (D per step, tick = dt / D seconds);
elements are the batch x shape positions flattened row-major."""
from __future__ import annotations
import math
from .core import setup_repo_path
from . import symeval

setup_repo_path()
import torch  # noqa: E402
from inferno import neural  # noqa: E402

torch.set_num_threads(1)

CLASS = {"delta": "DeltaCurrent", "dplus": "DeltaPlusCurrent", "sexp": "SingleExponentialCurrent",
         "dexp": "DoubleExponentialCurrent"}


class SynParams:
    def __init__(self, dt=1.0, D=4, Q=1.0, tau=20.0, tau_d=20.0, tau_r=5.0, ju=0.5, ob=-7.5):
        self.dt, self.D, self.Q, self.tau, self.tau_d, self.tau_r, self.ju, self.ob = dt, D, Q, tau, tau_d, tau_r, ju, ob
        self.tick = dt / D
        self.consts = {"Q/dt": Q / dt, "Q/tau": Q / tau, "Q/dd": Q / (tau_d - tau_r), "J": ju, "OB": ob}
        self.bases = {"q": math.exp(-self.tick / tau), "qd": math.exp(-self.tick / tau_d),
                      "qr": math.exp(-self.tick / tau_r)}

    def asdict(self):
        return {"dt": self.dt, "D": self.D, "Q": self.Q, "tau": self.tau, "tau_d": self.tau_d, "tau_r": self.tau_r,
                "ju": self.ju, "ob": self.ob}

    def value(self, v):
        return symeval.eval_sym(v, self.consts, self.bases)


def synapse_kwargs(cf: dict, P: SynParams, inplace=False):
    """constructor keyword arguments (besides shape / step time / batch size) for a configuration"""
    kw = dict(spike_charge=P.Q, delay=cf["dly"] * P.tick, interp_tol=(cf["tol2"] / 2) * P.tick,
              current_overbound=None if cf["cob"] == "none" else P.ob,
              spike_overbound=None if cf["sob"] == "none" else (cf["sob"] == "t"), inplace=inplace)
    if cf["sk"] in ("delta", "dplus"):
        kw["interp_mode"] = cf["smode"]
    else:
        kw["spike_interp_mode"] = cf["smode"]
    if cf["sk"] == "sexp":
        kw["time_constant"] = P.tau
    if cf["sk"] == "dexp":
        kw["tc_decay"], kw["tc_rise"] = P.tau_d, P.tau_r
    return kw


def make_synapse(cf: dict, P: SynParams, shape, batch, inplace=False):
    cls = getattr(neural, CLASS[cf["sk"]])
    return cls(shape, P.dt, batch_size=batch, **synapse_kwargs(cf, P, inplace))


class SynImpl:
    def __init__(self, hdr: dict):
        self.hdr = hdr
        self.cf = hdr["cf"]
        self.P: SynParams = hdr["params"]
        self.shape = tuple(hdr.get("shape", (hdr.get("E", 1),)))
        self.batch = int(hdr.get("batch", 1))
        self.E = self.batch * int(math.prod(self.shape))
        self.boolin = bool(hdr.get("boolin", False))
        if hdr.get("delay_via_setter") and self.cf["dly"] >= self.cf["dtk"]:
            # built with a maximum delay half a step shorter (the same number of stored steps) and brought to the
            # configured maximum through the public setter: delayed reads up to the REPORTED maximum must work
            built = dict(self.cf, dly=self.cf["dly"] - self.cf["dtk"] // 2)
            self.syn = make_synapse(built, self.P, self.shape, self.batch, bool(hdr.get("inplace", False)))
            self.syn.delay = self.cf["dly"] * self.P.tick
        elif hdr.get("dt_via_setter"):
            # built with twice the step time and brought to dt through the public setter: pulse height, decay and
            # history sizes must follow the step time the synapse reports
            import copy as _copy
            P2 = _copy.copy(self.P)
            P2.dt = self.P.dt * 2.0
            kw = synapse_kwargs(self.cf, self.P, bool(hdr.get("inplace", False)))
            self.syn = getattr(neural, CLASS[self.cf["sk"]])(self.shape, P2.dt, batch_size=self.batch, **kw)
            self.syn.dt = self.P.dt
        else:
            self.syn = make_synapse(self.cf, self.P, self.shape, self.batch, bool(hdr.get("inplace", False)))
        self.full = (self.batch,) + self.shape
        # f64: the synapse lives in double precision (Module.double()): selectors and inputs follow
        self.fdt = torch.float64 if hdr.get("f64") else torch.float32
        if hdr.get("f64"):
            self.syn = self.syn.double()

    def apply(self, o: dict) -> dict:
        try:
            return self._apply(o)
        except (RuntimeError, ValueError, TypeError, IndexError, AttributeError, AssertionError) as e:
            return {"t": "err", "e": type(e).__name__}

    def _sel(self, sel):
        return torch.tensor([z * self.P.tick for z in sel], dtype=self.fdt).reshape(self.full)

    def _apply(self, o):
        s, a = self.syn, o["a"]
        if a == "step":
            spk = torch.tensor([x["s"] for x in o["v"]], dtype=torch.bool if self.boolin else self.fdt)
            spk = spk.reshape(self.full)
            if self.cf["sk"] == "dplus":
                inj = torch.tensor([x["j"] * self.P.ju for x in o["v"]], dtype=self.fdt).reshape(self.full)
                r = s(spk, inj)
            else:
                r = s(spk)
            return {"t": "cur", "v": _flat(r)}
        if a == "clear":
            s.clear()
            return {"t": "ok"}
        if a == "current":
            return {"t": "cur", "v": _flat(s.current)}
        if a == "spike":
            return {"t": "spk", "v": _bits(s.spike)}
        if a == "current_at":
            return {"t": "cur", "v": _flat(s.current_at(self._sel(o["sel"])))}
        if a == "pos_at":
            return {"t": "cur", "v": _flat(s.pos_current_at(self._sel(o["sel"])))}
        if a == "neg_at":
            return {"t": "cur", "v": _flat(s.neg_current_at(self._sel(o["sel"])))}
        if a == "spike_at":
            r = s.spike_at(self._sel(o["sel"]))
            if r.dtype != torch.bool:
                return {"t": "err", "e": f"dtype:{r.dtype}"}
            return {"t": "spk", "v": _bits(r)}
        raise KeyError(a)

    def _ring(self, rec, bits):
        v = rec.value
        return {"n": int(rec.recordsz), "ptr": int(rec.pointer),
                "store": [(_bits if bits else _flat)(v[i]) for i in range(v.shape[0])]}

    def project(self) -> dict:
        s, sk = self.syn, self.cf["sk"]
        st = {"spk": self._ring(s.spike_, True)}
        if sk in ("dplus", "sexp"):
            st["c1"] = self._ring(s.current_, False)
        if sk == "dexp":
            st["c1"] = self._ring(s.pos_current_, False)
            st["c2"] = self._ring(s.neg_current_, False)
        return st


def _flat(t):
    return [float(x) for x in t.detach().reshape(-1).tolist()]


def _bits(t):
    return [int(bool(x)) for x in t.detach().reshape(-1).tolist()]


class SynMatcher:
    def __init__(self, P):
        self.P = P

    def _vals(self, exp, got, what):
        if len(exp) != len(got):
            return f"{what}: {len(got)} elements, expected {len(exp)}"
        for i, (e, g) in enumerate(zip(exp, got)):
            x, mag = self.P.value(e)
            if not symeval.close(x, g, mag):
                return f"{what}[{i}]: observed {g!r}, expected {x!r}"
        return None

    def ret(self, exp, got):
        if exp.get("t") != got.get("t"):
            return f"return {got} instead of kind {exp.get('t')}"
        if exp["t"] == "err":
            return None if exp["e"] == got.get("e") else f"raised {got.get('e')} instead of {exp['e']}"
        if exp["t"] == "cur":
            return self._vals(exp["v"], got["v"], "current")
        if exp["t"] == "spk":
            return None if list(exp["v"]) == list(got["v"]) else f"spikes {got['v']}, expected {list(exp['v'])}"
        return None

    def _ring(self, exp, got, name, bits):
        if got is None:
            return f"{name}: no such record"
        if exp["n"] != got["n"]:
            return f"{name}: record size {got['n']}, expected {exp['n']}"
        if exp["ptr"] != got["ptr"]:
            return f"{name}: pointer {got['ptr']}, expected {exp['ptr']}"
        if len(exp["store"]) != len(got["store"]):
            return f"{name}: storage length"
        for i, (e, g) in enumerate(zip(exp["store"], got["store"])):
            if bits:
                if list(e) != list(g):
                    return f"{name}[{i}]: {g}, expected {list(e)}"
            else:
                w = self._vals(e, g, f"{name}[{i}]")
                if w:
                    return w
        return None

    def state(self, exp, got):
        m = exp["m"]
        w = self._ring(m["spk"], got.get("spk"), "spike_", True)
        if w:
            return w
        for c in ("c1", "c2"):
            if m[c].get("kind") == "ready":
                w = self._ring(m[c], got.get(c), c, False)
                if w:
                    return w
        return None
