"""Adaptor between the UpdaterCore specification vocabulary (C10) and the real
inferno.neural.modeling.Updater / Accumulator bound to a real connection
(LinearDense + DeltaCurrent, `connection.updater = ...`).

Values are integers scaled by S (a power of two): the float is v / S.  Tensors are flat
tuples (row major).  `None` is the empty list.

Observation points (properties.jsonl C10): parameter values (`connection.<p>`),
`Accumulator.pos/.neg`, `Accumulator.update(param)`.  The pending lists are read from
`Accumulator._pos/_neg` (named as the property's state anchor); they are only READ.
Whether and when the code caches its reductions is NOT observed or demanded: the
projection shows what the two reads return.
The reduction name and the bounding configuration in the projection are the harness' own
record of the configuration calls it made (they are inputs, not observations): the
observable consequences of that configuration are the values returned by read / peek /
update from every state.
"""
from __future__ import annotations
from .core import setup_repo_path, MachineryFailure

setup_repo_path()
import torch  # noqa: E402
from inferno.neural import LinearDense, DeltaCurrent, Updater  # noqa: E402
from inferno import functional as F  # noqa: E402

torch.set_num_threads(1)

NOLIM = -999999
OFFGRID = -777777

NONE_HALF = {"k": "none", "lim": 0, "pw": 0, "rg": 0}
NONE_FULL = {"k": "none", "mx": 0, "mn": 0, "pu": 0, "pl": 0}

UPPER = {"mult": F.bound_upper_multiplicative, "smult": F.bound_upper_scaled_multiplicative,
         "pow": F.bound_upper_power, "spow": F.bound_upper_scaled_power, "sharp": F.bound_upper_sharp}
LOWER = {"mult": F.bound_lower_multiplicative, "smult": F.bound_lower_scaled_multiplicative,
         "pow": F.bound_lower_power, "spow": F.bound_lower_scaled_power, "sharp": F.bound_lower_sharp}
FULL = {"mult": F.bound_multiplicative, "smult": F.bound_scaled_multiplicative,
        "pow": F.bound_power, "spow": F.bound_scaled_power, "sharp": F.bound_sharp}


class Reductions:
    """The shipped torch reductions wrapped in recording callables (which stack was handed
    over, along which dimension)."""

    def __init__(self):
        self.calls = []
        # the shipped torch reductions, and custom ones that are NOT the identity on a single part
        self.table = {n: self._wrap(n, f) for n, f in
                      (("sum", torch.sum), ("mean", torch.mean), ("amax", torch.amax), ("amin", torch.amin),
                       ("sum2", lambda x, dim: 2.0 * x.sum(dim)),
                       ("clip", lambda x, dim: x.sum(dim).clamp(max=0.5)),
                       ("sumsq", lambda x, dim: (x * x).sum(dim)))}

    def _wrap(self, name, fn):
        def red(x, dim):
            self.calls.append((name, tuple(x.shape), dim))
            return fn(x, dim)
        red.__name__ = f"probe_{name}"
        return red


class UpdaterImpl:
    """hdr: S, shape {param: [dims]}, w0 {param: [scaled ints]}, red0, in/out sizes."""

    def __init__(self, hdr: dict, conn=None):
        self.hdr = hdr
        self.S = int(hdr["S"])
        self.params = list(hdr["params"])
        self.reds = Reductions()
        self.ctor_error = None
        self.fdt = torch.float64 if hdr.get("f64") else torch.float32     # f64: the connection lives in double precision
        red0 = hdr.get("red0", "default")
        if conn is not None:
            # an existing connection whose updater is already installed (trainers contribute to it)
            self.conn = conn
        else:
            n_in, n_out = int(hdr.get("n_in", 1)), int(hdr["n_out"])
            delay = 2.0 if "delay" in self.params else None
            self.conn = LinearDense((n_in,), (n_out,), 1.0, synapse=DeltaCurrent.partialconstructor(100.0),
                                    bias="bias" in self.params, delay=delay)
            if hdr.get("f64"):
                self.conn = self.conn.double()
            for p in self.params:
                cur = getattr(self.conn, p)
                t = self._tensor(hdr["w0"][p], cur.shape)
                setattr(self.conn, p, t)
        if conn is not None:
            pass
        elif red0 == "default":
            self.conn.updater = self.conn.defaultupdater()
        else:
            try:
                self.conn.updater = Updater(self.conn, *self.params, reduction=self.reds.table[red0])
            except Exception as ex:  # reported by the caller as a violation of CustomReductionUsed
                self.ctor_error = type(ex).__name__
                self.conn.updater = Updater(self.conn, *self.params)
                for p in self.params:
                    getattr(self.conn.updater, p).reduction(self.reds.table[red0])
        self.upd = self.conn.updater
        if tuple(self.upd.names) != tuple(self.params):
            raise MachineryFailure(f"updater manages {self.upd.names}, expected {self.params}")
        self.red = {p: ("sum" if red0 == "default" else red0) for p in self.params}
        self.bnd = {p: {"mode": "full", "f": dict(NONE_FULL), "u": dict(NONE_HALF), "l": dict(NONE_HALF)}
                    for p in self.params}

    # ---- value conversion
    def _tensor(self, vals, shape):
        return torch.tensor([v / self.S for v in vals], dtype=self.fdt).reshape(tuple(shape))

    def _ints(self, t):
        out = []
        for x in t.detach().reshape(-1).to(torch.float64).tolist():
            y = x * self.S
            r = round(y) if y == y and abs(y) < 2 ** 30 else None
            out.append(int(r) if r is not None and abs(y - r) < 2 ** -8 else OFFGRID)
        return out

    def _opt(self, t):
        return {"some": False, "x": []} if t is None else {"some": True, "x": self._ints(t)}

    def _part(self, p, vals):
        if not vals:
            return None
        return self._tensor(vals, getattr(self.conn, p).shape)

    def acc(self, p):
        return getattr(self.upd, p)

    # ---- operations
    def apply(self, op: dict):
        try:
            return self._apply(op)
        except MachineryFailure:
            raise
        except Exception as ex:
            return {"t": "err", "e": type(ex).__name__}

    def _apply(self, op):
        a = op["a"]
        if a == "contrib":
            p = op["p"]
            pos, neg = self._part(p, op["pos"]), self._part(p, op["neg"])
            if op["form"] == "pair":
                setattr(self.upd, p, (pos, neg))
            elif op["form"] == "single":
                setattr(self.upd, p, pos)
            elif op["side"] == "pos":
                self.acc(p).pos = pos
            else:
                self.acc(p).neg = neg
            return {"t": "ok"}
        if a == "read":
            v = getattr(self.acc(op["p"]), op["side"])
            return self._opt(v)
        if a == "peek":
            p = op["p"]
            v = self.acc(p).update(getattr(self.conn, p))
            return self._opt(v)
        if a == "update":
            self.conn.update(clear=op["clear"])
            return {"t": "ok"}
        if a == "updatesome":
            self.conn.updatesome(*op["ps"], clear=op["clear"])
            return {"t": "ok"}
        if a == "clear":
            p, side = op["p"], op["side"]
            if p == "*":
                self.conn.clear()
            elif side == "*":
                delattr(self.upd, p)
            elif side == "pos":
                del self.acc(p).pos
            else:
                del self.acc(p).neg
            return {"t": "ok"}
        if a == "reduction":
            p, r = op["p"], op["r"]
            self.acc(p).reduction(None if r == "default" else self.reds.table[r])
            self.red[p] = "sum" if r == "default" else r
            return {"t": "ok"}
        if a in ("upperbound", "lowerbound"):
            p, k = op["p"], op["k"]
            b = self.bnd[p]
            if b["mode"] != "half":
                b.update(mode="half", f=dict(NONE_FULL), u=dict(NONE_HALF), l=dict(NONE_HALF))
            half = dict(NONE_HALF) if k == "none" else {"k": k, "lim": op["lim"], "pw": op["pw"], "rg": op["rg"]}
            b["u" if a == "upperbound" else "l"] = half
            fn = None if k == "none" else (UPPER if a == "upperbound" else LOWER)[k]
            kw = {}
            if k in ("pow", "spow"):
                kw["power"] = float(op["pw"])
            if k in ("smult", "spow"):
                kw["range"] = op["rg"] / self.S
            call = self.acc(p).upperbound if a == "upperbound" else self.acc(p).lowerbound
            if fn is None:
                call(None)
            else:
                call(fn, op["lim"] / self.S, **kw)
            return {"t": "ok"}
        if a == "fullbound":
            p, k = op["p"], op["k"]
            full = dict(NONE_FULL) if k == "none" else {"k": k, "mx": op["mx"], "mn": op["mn"], "pu": op["pu"],
                                                       "pl": op["pl"]}
            self.bnd[p] = {"mode": "full", "f": full, "u": dict(NONE_HALF), "l": dict(NONE_HALF)}
            if k == "none":
                self.acc(p).fullbound(None)
            else:
                kw = {"upper_power": float(op["pu"]), "lower_power": float(op["pl"])} if k in ("pow", "spow") else {}
                mx = None if op["mx"] == NOLIM else op["mx"] / self.S
                mn = None if op["mn"] == NOLIM else op["mn"] / self.S
                self.acc(p).fullbound(FULL[k], mx, mn, **kw)
            return {"t": "ok"}
        raise MachineryFailure(f"unknown operation {op}")

    # ---- projection
    def _list(self, p, side):
        acc = self.acc(p)
        try:
            lst = getattr(acc, f"_{side}")
        except AttributeError:
            raise MachineryFailure("cannot observe the pending parts of an Accumulator (no _pos/_neg)")
        return [self._ints(t) for t in lst]

    def weights(self):
        return {p: self._ints(getattr(self.conn, p)) for p in self.params}

    def project(self):
        """The view of UpdaterMC.View: parameter, pending lists, what the two reads return
        (through the public properties: this fills the accumulator's caches, which is not an
        observable change), and the harness' record of the configuration."""
        out = {}
        for p in self.params:
            acc = self.acc(p)
            out[p] = {"w": self._ints(getattr(self.conn, p)),
                      "posL": self._list(p, "pos"), "negL": self._list(p, "neg"),
                      "pos": self._opt(acc.pos), "neg": self._opt(acc.neg),
                      "red": self.red[p],
                      "bnd": {"mode": self.bnd[p]["mode"], "f": dict(self.bnd[p]["f"]),
                              "u": dict(self.bnd[p]["u"]), "l": dict(self.bnd[p]["l"])}}
        return out
