"""Adaptor between spec/VirtualTensorCore.tla and real inferno VirtualTensor objects on a real
inferno Module, including object lifetime (explicit del + gc.collect())."""
from __future__ import annotations
import gc, weakref
from .core import setup_repo_path

setup_repo_path()
import torch  # noqa: E402
from inferno import Module, VirtualTensor  # noqa: E402

DT = {"f16": torch.float16, "f32": torch.float32, "f64": torch.float64, "i64": torch.int64}
DTN = {v: k for k, v in DT.items()}
REF = "_v_ref"


def external(owner, dtype, device):
    return torch.full((2,), owner.base * 2, dtype=dtype, device=device)


class Own(Module):
    def __init__(self):
        Module.__init__(self)
        self.base = 1

    def mat(self, dtype, device):                     # materialiser given by method name
        return torch.full((2,), self.base, dtype=dtype, device=device)

    @staticmethod
    def inner(owner, dtype, device):                  # function defined inside the owner's class
        return torch.full((2,), owner.base + 10, dtype=dtype, device=device)


class VTImpl:
    def __init__(self, max_objs):
        self.max = max_objs
        self.owner = Own()
        self.held = None
        self.refs = {}          # id -> weakref to the VirtualTensor object
        self.mats = {}
        self.next = 1
        self.base = 1

    def _target(self, via):
        if via == "attr":
            if self.owner is None:
                raise AttributeError("owner is gone")
            return self.owner.v
        if self.held is None:
            raise AttributeError("nothing held")
        return self.held

    def apply(self, op):
        a = op["a"]
        try:
            if a == "create":
                m = {"method": "mat", "inner": Own.inner, "ext": external}[op["mat"]]
                if self.next % 2:
                    VirtualTensor.create(self.owner, "v", m, dtype=DT[op["dt"]], persist=bool(op["persist"]))
                else:                                   # the documented equivalent form
                    self.owner.v = VirtualTensor(self.owner, "v", m, dtype=DT[op["dt"]], persist=bool(op["persist"]))
                self.refs[self.next] = weakref.ref(self.owner.__dict__["v"])
                self.mats[self.next] = op["mat"]
                self.next += 1
                ret = {"t": "ok"}
            elif a == "create_bad":
                name, m = {"badname": ("1v", "mat"), "missing": ("z", "nomethod"), "notmethod": ("z", "base")}[op["kind"]]
                VirtualTensor.create(self.owner, name, m)
                ret = {"t": "ok"}
            elif a == "set_base":
                self.owner.base = int(op["b"])
                self.base = int(op["b"])
                ret = {"t": "ok"}
            elif a == "value":
                t = self._target(op["via"])
                v = t.value
                same = bool(torch.all(v == v.reshape(-1)[0])) and v.dtype == t.dtype
                ret = {"t": "val", "v": int(v.reshape(-1)[0]) if same else -777, "dt": DTN.get(v.dtype, "?")}
                del t, v
            elif a == "get_dtype":
                ret = {"t": "dtype", "dt": DTN.get(self._target(op["via"]).dtype, "?")}
            elif a == "set_dtype":
                self._target(op["via"]).dtype = DT[op["d"]]
                ret = {"t": "ok"}
            elif a == "vt_to":
                self._target(op["via"]).to(DT[op["d"]])
                ret = {"t": "ok"}
            elif a == "owner_to":
                self.owner.to(DT[op["d"]])
                ret = {"t": "ok"}
            elif a == "in_sd":
                ret = {"t": "bool", "b": REF in self.owner.state_dict()}
            elif a == "hold":
                self.held = self.owner.v
                ret = {"t": "ok"}
            elif a == "release":
                self.held = None
                ret = {"t": "ok"}
            elif a == "del_attr":
                del self.owner.v
                ret = {"t": "ok"}
            elif a == "del_owner":
                self.owner = None
                ret = {"t": "ok"}
            else:
                raise KeyError(a)
        except (AttributeError, TypeError, ValueError) as e:
            ret = {"t": "err", "e": type(e).__name__}
        if a in ("create", "release", "del_attr", "del_owner"):
            gc.collect(1)       # the young generations hold everything this adaptor created
        return ret

    def project(self):
        o = self.owner
        live = {i: (r() is not None) for i, r in self.refs.items()}
        att = 0
        if o is not None:
            cur = o.__dict__.get("v")
            for i, r in self.refs.items():
                if cur is not None and r() is cur:
                    att = i
        held = 0
        for i, r in self.refs.items():
            if self.held is not None and r() is self.held:
                held = i
        objs = [{"live": bool(live.get(i, False)), "mat": self.mats[i] if live.get(i, False) else "-",
                 "fin": bool(live.get(i, False))} for i in range(1, self.max + 1)]
        ref = {"present": False, "dt": "-", "persist": False}
        if o is not None and REF in o._buffers:
            ref = {"present": True, "dt": DTN.get(o._buffers[REF].dtype, "?"),
                   "persist": REF not in o._non_persistent_buffers_set}
        return {"alive": o is not None, "att": att, "held": held, "objs": objs, "ref": ref, "base": self.base,
                "next": self.next}
