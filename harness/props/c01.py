"""C01 - RecordTensor is a faithful ring-buffer history under every operation order.

T: TLC checks exhaustively that the implementation-shaped ring model (Mech) refines the
   list-of-observations model (Abs) for every operation in every reachable state.
A: TLC prints the outcome table of every state; every edge is executed on a real
   RecordTensor (buffer and parameter storage) and compared.
B: random operation histories on larger / multi-dimensional records are recorded and
   validated by TLC against the trace specification.
"""
from __future__ import annotations
import random
from concurrent.futures import ThreadPoolExecutor
from ..core import Check, MachineryFailure
from .. import tlc, graph, tracecheck
from .record_common import (mc_constants, run_mc_configs, gen_graph, replay_graph, random_record_traces,
                            validate_traces, canary_trace, canary_replay)

PID = "C01"
KINDS = {"basic", "range", "trange", "life"}


def run(tier: str, seed: int) -> int:
    chk = Check(PID, tier, seed)
    rng = random.Random(seed)
    chk.extra["rule"] = ("MC: all (state, operation) pairs of the bounded ring model; replay: one execution per "
                         "sampled edge of the emitted graph; traces: random histories. A case is non-trivial and "
                         "distinct when it is a distinct (abstract state, operation) pair executed on the real "
                         "RecordTensor with initialised storage, or a distinct accepted trace event.")
    # ---- T: exhaustive refinement
    mc = [
        ("N1-E1", mc_constants(dur=4, E0=1, vals={0, 1, 2}, pdty={"f", "i"}, kinds=KINDS)),
        ("N2-E1", mc_constants(dur=8, E0=1, vals={0, 1, 2}, pdty={"f", "i", "b"}, kinds=KINDS)),
        ("N3-E1", mc_constants(dur=12, E0=1, vals={0, 1, 2}, pdty={"f", "i"}, kinds=KINDS)),
        ("N2-E2", mc_constants(dur=8, E0=2, vals={0, 2}, pdty={"i"}, kinds=KINDS, kind0="ready", dty0="i")),
    ]
    if tier == "thorough":
        mc += [
            ("N4-E1", mc_constants(dur=16, E0=1, vals={0, 1, 2}, pdty={"f", "i"}, kinds=KINDS)),
            ("N3-E2", mc_constants(dur=12, E0=2, vals={0, 2}, pdty={"i"}, kinds=KINDS, kind0="ready", dty0="i")),
            ("N2-E2-f", mc_constants(dur=8, E0=2, vals={0, 1}, pdty={"f"}, kinds=KINDS, kind0="ready", dty0="f")),
            ("N5-E1", mc_constants(dur=20, E0=1, vals={0, 2}, pdty={"i"}, kinds=KINDS, kind0="ready", dty0="i")),
        ]
    run_mc_configs(chk, mc, invariants=["TypeOK", "Refinement"])

    # ---- A: every edge of the emitted graph on the real object
    gens = [
        ("N2-E1", mc_constants(dur=8, E0=1, vals={0, 1, 2}, pdty={"f", "i"}, kinds=KINDS), 20000),
        ("N3-E1", mc_constants(dur=12, E0=1, vals={0, 2}, pdty={"i"}, kinds=KINDS), 20000),
        ("N2-E2", mc_constants(dur=8, E0=2, vals={0, 2}, pdty={"i"}, kinds=KINDS, kind0="ready", dty0="i"), 20000),
        ("N1-E1", mc_constants(dur=4, E0=1, vals={0, 1, 2}, pdty={"f", "i", "b"}, kinds=KINDS), 5000),
    ]
    if tier == "thorough":
        gens = [(n, c, None) for n, c, _ in gens] + [
            ("N3-E1-f", mc_constants(dur=12, E0=1, vals={0, 1, 2}, pdty={"f", "i"}, kinds=KINDS), None),
        ]
    for name, consts, budget in gens:
        g = gen_graph(chk, name, consts)
        for param in (False, True):
            replay_graph(chk, g, consts, budget=budget, rng=rng, param=param, tick=rng.choice([0.25, 0.325, 0.5]))

    canary_replay(chk, g, consts, rng)

    # ---- B: random histories, bigger and multi-dimensional
    ntr = 150 if tier == "quick" else 3000
    traces = random_record_traces(rng, ntr, families=("basic", "range", "trange", "life"), steps=30)
    validate_traces(chk, traces, site="random-history")

    # ---- canaries: the binding must reject a corrupted observation
    canary_trace(chk, traces)
    return chk.finish()


def replay(path: str) -> int:
    from .record_common import replay_file
    return replay_file(PID, path)
