"""C02 - time-indexed select/insert hit the right samples and interpolate between them.

T: TLC checks exhaustively (all pointer positions, offsets, tolerances, per-element times on/off
   the grid, at and beyond both range limits) that the code-shaped index arithmetic of
   select/insert refines the list model (exact sample on the grid; older sample, newer sample and
   time elapsed since the older one handed to the interpolation off the grid; insert touches only
   the addressed slot(s)), and InsertThenSelect.
A: every edge of the emitted graph is executed on a real RecordTensor with PROBE interpolation /
   extrapolation callables that record the arguments they receive, for several real step times
   (1.0, 0.5, 1.3, 0.1); then, for the insert edges, every shipped matching extrap/interp pair is
   used for the round-trip clause.
B: random float configurations validated by TLC.
"""
from __future__ import annotations
import math, random
from ..core import Check, MachineryFailure
from .. import graph
from ..impl_record import RecordImpl, to_tensor
from .record_common import (mc_constants, run_mc_configs, gen_graph, replay_graph, random_record_traces,
                            validate_traces, canary_trace, canary_replay, hdr_from_consts)

PID = "C02"
KINDS = {"time", "push"}


def _pairs():
    import inferno.functional as F
    tau = 3.0
    return [
        ("previous/previous", F.extrap_previous, F.interp_previous, {}),
        ("next/next", F.extrap_next, F.interp_next, {}),
        ("nearest/nearest", F.extrap_nearest, F.interp_nearest, {}),
        ("neighbors/previous", F.extrap_neighbors, F.interp_previous, {}),
        ("neighbors/next", F.extrap_neighbors, F.interp_next, {}),
        ("neighbors/nearest", F.extrap_neighbors, F.interp_nearest, {}),
        ("linear_forward/linear", F.extrap_linear_forward, F.interp_linear, {}),
        ("linear_backward/linear", F.extrap_linear_backward, F.interp_linear, {}),
        # the optional `adjust` keyword of the linear extrapolations transforms the anchoring neighbour first; the
        # extrapolated line still passes through the sample, so the round trip holds with it as well
        ("linear_forward(adjust=halve)/linear", F.extrap_linear_forward, F.interp_linear, {"adjust": lambda d: d * 0.5}, {}),
        ("linear_backward(adjust=shift)/linear", F.extrap_linear_backward, F.interp_linear, {"adjust": lambda d: d + 1.5}, {}),
        ("expdecay/expdecay", F.extrap_expdecay, F.interp_expdecay, {"time_constant": tau}),
        ("expratedecay/expratedecay", F.extrap_expratedecay, F.interp_expratedecay, {"rate_constant": 1 / tau}),
    ]


def roundtrip(chk: Check, g: graph.Graph, consts, rng, budget, tick):
    """Insert followed by select at the same time(s) with a matching shipped pair returns the
    inserted value: executed for (a sample of) the insert edges TLC enumerated."""
    import torch
    hdr = hdr_from_consts(consts, False, tick)
    make = lambda: RecordImpl(hdr)
    init_key = graph.canon(make().project())
    paths = g.paths(init_key)
    cases = [(k, op) for k in paths for op, outs in g.table[k]
             if op["a"] == "insert" and outs[0]["ret"]["t"] == "ins"]
    rng.shuffle(cases)
    pairs = _pairs()
    done = 0
    for k, op in cases[:budget]:
        pair = pairs[done % len(pairs)]
        name, ex, ip, kw = pair[:4]
        ikw = pair[4] if len(pair) > 4 else kw          # keyword arguments of the interpolation, when they differ
        impl = make()
        for o, _ in paths[k]:
            impl.apply(o)
        rec = impl.rec
        E = len(op["v"])
        # real-valued observation (not a token): distinct per element
        v = torch.tensor([0.75 + 0.5 * e + 0.125 * (done % 7) for e in range(E)], dtype=torch.float32)
        times = impl._times(op)
        tol = (op["tol2"] / 2) * tick
        rec.insert(v, times, ex, tolerance=tol, offset=op["off"], inplace=op["inpl"], extrap_kwargs=kw)
        got = rec.select(times, ip, tolerance=tol, offset=op["off"], interp_kwargs=ikw)
        done += 1
        chk.evaluations += 1
        chk.nontrivial.add(("roundtrip", k, graph.canon(op), name))
        if not torch.allclose(got.reshape(-1).float(), v, rtol=1e-4, atol=1e-5):
            chk.violation({"clause": "InsertThenSelect", "op": "insert+select", "site": "shipped-pair", "pair": name},
                          {"hdr": hdr, "path": [p[0] for p in paths[k]], "op": op, "pair": name,
                           "inserted": v.tolist(), "selected": got.reshape(-1).tolist()})
    chk.extra["roundtrip_cases"] = chk.extra.get("roundtrip_cases", 0) + done
    chk.note(f"round-trip with shipped pairs on {g.name} tick={tick}: {done} insert edges")


def special_values_probe(chk: Check):
    """The clauses of the list model on records that hold +-inf (what an EventReducer stores before the first event): on
    the grid the stored observation is returned as it is; scalar-time and tensor-time calls agree element-wise; with
    the previous / next / nearest rules an off-grid read returns the chosen bracketing sample.  (The graphs use finite
    values only; a masked blend `exact * prev + ~exact * res` is then indistinguishable from a `where`.)"""
    import torch
    import inferno.functional as F
    from inferno import Module, RecordTensor
    inf = float("inf")
    n = 0
    for dtype in (torch.float32, torch.float64):
        for hist in ([1.0, inf, 3.0, -inf], [inf, inf, 2.0, 5.0], [-inf, 4.0, inf, 7.0]):
            m = Module()
            RecordTensor.create(m, "rt", 1.0, 4.0, torch.zeros(2, dtype=dtype))
            rt = m.rt
            for v in hist:
                rt.push(torch.tensor([v, -v], dtype=dtype))
            newest_first = list(reversed(hist))
            for name, fn, pick in (("previous", F.interp_previous, lambda k, f: k + 1), ("next", F.interp_next, lambda k, f: k),
                                   ("nearest", F.interp_nearest, lambda k, f: (k + 1) if f > 0.5 else k)):
                for t in (0.0, 1.0, 2.0, 3.0, 0.25, 1.75, 2.75):
                    k, f = int(t), t - int(t)
                    idx = k if f == 0 else pick(k, f)
                    want = torch.tensor([newest_first[idx], -newest_first[idx]], dtype=dtype)
                    n += 1
                    try:
                        sc = rt.select(t, fn, tolerance=1e-6)
                        tn = rt.select(torch.full((2,), t, dtype=dtype), fn, tolerance=1e-6)
                    except Exception as ex:
                        chk.violation({"clause": "Raised", "site": "special-values", "interp": name, "exc": type(ex).__name__},
                                      {"time": t, "history": [str(v) for v in hist], "error": repr(ex)})
                        continue
                    if not (torch.equal(sc, want) and torch.equal(tn, want)):
                        chk.violation({"clause": "ScalarTensorAgree" if torch.equal(sc, want) else "OnGridOrBracket",
                                       "site": "special-values", "interp": name, "on_grid": f == 0},
                                      {"time": t, "history_newest_first": [str(v) for v in newest_first], "dtype": str(dtype),
                                       "specified": [str(x) for x in want.tolist()], "scalar_time": [str(x) for x in sc.tolist()],
                                       "tensor_time": [str(x) for x in tn.tolist()]})
    chk.evaluations += n
    chk.note(f"records holding +-inf: {n} select calls, scalar and tensor time, previous / next / nearest")


def run(tier: str, seed: int) -> int:
    chk = Check(PID, tier, seed)
    rng = random.Random(seed)
    chk.extra["rule"] = ("MC: all (state, select/insert) pairs of the bounded model; replay: sampled edges executed with "
                         "probe interpolation/extrapolation callables; a case is distinct and non-trivial when it is a "
                         "distinct (state, operation) pair with at least one requested time, or a distinct accepted "
                         "trace event, or a distinct (state, insert, shipped pair) round trip")
    T = dict(tols=(0, 1), offs=(0, 1, 2))
    mc = [
        ("N2-E2", mc_constants(dur=8, E0=2, vals={0}, pdty={"f"}, kinds=KINDS, kind0="ready", **T)),
        ("N3-E1", mc_constants(dur=12, E0=1, vals={0, 2}, pdty={"f"}, kinds=KINDS, kind0="ready", **T)),
        ("N1-E2", mc_constants(dur=4, E0=2, vals={0, 2}, pdty={"f"}, kinds=KINDS, kind0="ready", **T)),
        ("N2-E1-int", mc_constants(dur=8, E0=1, vals={0, 2}, pdty={"i"}, kinds=KINDS, kind0="ready", dty0="i", **T)),
    ]
    # fine ticks: a step of 65536 ticks; times are grid points -2 .. +2 ticks, tolerances 1/2 and 3/2 ticks.  With a real
    # step time of 1.0 one tick is 1.5e-5: "one tick off the grid, outside the tolerance" stays off the grid only if the
    # tolerance is ABSOLUTE (a relative term of 1e-5 * t would swallow it from the second grid point on)
    FD = 65536
    fine = mc_constants(dur=3 * FD, dt=FD, E0=1, vals={0, 2}, pdty={"f"}, kinds=KINDS, kind0="ready", taunear={0, 1, 2, 3, 4},
                        dtset=(FD,), durset=(3 * FD,), **T)
    mc.append(("N3-E1-fine", fine))
    if tier == "thorough":
        mc += [
            ("N2-E2-v2", mc_constants(dur=8, E0=2, vals={0, 2}, pdty={"f"}, kinds=KINDS, kind0="ready", **T)),
            ("N3-E2", mc_constants(dur=12, E0=2, vals={0}, pdty={"f"}, kinds=KINDS, kind0="ready", **T)),
            ("N4-E1", mc_constants(dur=16, E0=1, vals={0, 2}, pdty={"f"}, kinds=KINDS, kind0="ready", **T)),
            ("N3-E1-incl", mc_constants(dur=8, incl=True, E0=1, vals={0, 2}, pdty={"f"}, kinds=KINDS, kind0="ready", **T)),
        ]
    run_mc_configs(chk, mc, invariants=["TypeOK", "Refinement", "InsertThenSelect"])

    gens = [
        ("N2-E2", mc_constants(dur=8, E0=2, vals={0}, pdty={"f"}, kinds=KINDS, kind0="ready", **T), 12000),
        ("N3-E1", mc_constants(dur=12, E0=1, vals={0, 2}, pdty={"f"}, kinds=KINDS, kind0="ready", **T), 12000),
        ("N1-E1", mc_constants(dur=4, E0=1, vals={0, 2}, pdty={"f"}, kinds=KINDS, kind0="ready", **T), 3000),
    ]
    ticks = [0.25, 0.125, 0.325, 0.025]
    for name, consts, budget in gens:
        g = gen_graph(chk, name, consts)
        use = ticks if tier == "thorough" else rng.sample(ticks, 2)
        for tick in use:
            replay_graph(chk, g, consts, budget=(None if tier == "thorough" else budget), rng=rng,
                         param=rng.random() < 0.5, tick=tick)
        roundtrip(chk, g, consts, rng, 400 if tier == "quick" else 5000, rng.choice(ticks))

    gf = gen_graph(chk, "N3-E1-fine", fine)
    for tick in ((1.0 / FD, 0.5 / FD, 2.0 / FD) if tier == "thorough" else (1.0 / FD,)):
        replay_graph(chk, gf, fine, budget=(None if tier == "thorough" else 9000), rng=rng, param=rng.random() < 0.5, tick=tick)
    roundtrip(chk, gf, fine, rng, 200 if tier == "quick" else 2000, 1.0 / FD)

    special_values_probe(chk)
    canary_replay(chk, g, consts, rng)
    ntr = 120 if tier == "quick" else 2500
    traces = random_record_traces(rng, ntr, families=("time", "time", "basic"), steps=25)
    validate_traces(chk, traces, site="random-time-history")
    canary_trace(chk, traces)
    return chk.finish()


def replay(path: str) -> int:
    from .record_common import replay_file
    return replay_file(PID, path)
