"""C03 - Neuron step contract: threshold, reset, absolute refractory period, spike flag.

T: TLC explores, for every configuration (ticks per step D, refractory period R in 0..2D+1,
   refrac_lock, strict / lax float model) EVERY drive sequence over {lt, ge} to the depth
   bound and checks on the whole trajectory that the decrement-and-clamp mechanism of
   neuron_dynamics.py implements the property's refractory window, exact spiking, reset and
   voltage locking; the code's DERIVED spike attribute (refrac == refrac_t) is transcribed,
   so TLC decides SpikeAttr at design level.
A: dyadic mode of the same spec (linear family, decay exactly 1/2): TLC prints outcome
   tables; every (sampled) edge is executed on real LIF / GLIF1 / ALIF / GLIF2 objects and
   spikes, refrac, spike attribute, threshold adaptation and VOLTAGES are compared exactly.
B: all eight classes are run on random / adversarial drives; per element the event stream
   (drive category computed from the documented equation in float64, returned spike,
   refrac in ticks, spike attribute, which candidate voltage was observed) is validated by
   TLC against NeuronTrace (strict for dyadic dt / refrac_t, lax = RefracRoundingLag allowed
   for arbitrary floats).
"""
from __future__ import annotations
import random, time
from ..core import Check, MachineryFailure
from .neuron_common import (mc_constants, TLCJobs, launch_mc, collect_mc, confirm_attr_counterexample,
                            CAT_INVARIANTS, dy_variants, launch_gen, collect_gen, replay_dyadic, neuron_runs,
                            record_and_validate, record_runs, canary_trace, canary_replay, require_case_coverage)

PID = "C03"


def run(tier: str, seed: int) -> int:
    chk = Check(PID, tier, seed)
    rng = random.Random(seed)
    chk.extra["rule"] = ("MC: every drive sequence over {lt, ge} up to the depth bound for every (D, R, lock, lax) "
                         "configuration, trajectory-level invariants. Replay: a distinct non-trivial case is a "
                         "distinct (class, model state, current) edge executed on a real neuron whose source state "
                         "is refractory or spiking. Traces: a distinct non-trivial case is a distinct (class, lock, "
                         "adapt, D, R, lax, spike pattern) element trace containing at least one spike.")
    quick = tier == "quick"
    ds = {1, 2} if quick else {1, 2, 4}
    depth = 8 if quick else 10

    # ---- T: exhaustive, category mode
    with_attr = CAT_INVARIANTS + ["SpikeAttr"]
    mc = [
        ("derived-Rpos", mc_constants(ds=ds, rsel="pos", attrmode="derived", depth=depth), with_attr, None),
        ("derived-R0", mc_constants(ds=ds, rsel="zero", attrmode="derived", depth=depth), CAT_INVARIANTS, None),
        ("derived-R0-attr", mc_constants(ds=ds, rsel="zero", attrmode="derived", depth=depth), ["SpikeAttr"],
         ["SpikeAttr"]),
        ("stored-all", mc_constants(ds=ds, rsel="all", attrmode="stored", depth=depth), with_attr, None),
    ]
    jobs = TLCJobs(parallel=4)
    try:
        launch_mc(jobs, mc)
        variants = dy_variants(tier)
        for name, kw, gdepth, classes in variants:
            consts = mc_constants(ds=ds, laxs=(False,), rsel="all", attrmode="stored", keephist=False, dy=True,
                                  depth=gdepth, **kw)
            launch_gen(jobs, name, consts)

        # ---- B (recording): all eight classes on random / adversarial drives (python, overlaps with TLC)
        runs = neuron_runs(rng, tier)
        recorded = record_runs(chk, runs)
        chk.note(f"t={time.time()-chk.t0:.1f}s recorded")

        # ---- A: dyadic outcome tables replayed on the real linear-family classes
        budget = None if not quick else 100000
        graphs = []
        for name, kw, gdepth, classes in variants:
            g = collect_gen(chk, jobs, name)
            graphs.append((g, classes))
            replay_dyadic(chk, g, classes, budget=budget, rng=rng)
            chk.note(f"t={time.time()-chk.t0:.1f}s replayed {name}")

        # ---- T: collect
        res = collect_mc(chk, jobs, mc)
        confirm_attr_counterexample(chk, res["derived-R0-attr"])
        if res["derived-Rpos"].distinct < 1000:
            raise MachineryFailure("category-mode model checking explored implausibly few states")
    finally:
        jobs.close()

    # ---- B (validation): per-element traces validated by TLC
    traces, metas, found = record_and_validate(chk, recorded, site="trace:neuron-step")
    if not chk.violations:
        require_case_coverage(chk)      # vacuity guard (a reported violation takes precedence over it)

    chk.note(f"t={time.time()-chk.t0:.1f}s traces validated")
    # ---- canaries
    canary_trace(chk, traces)
    canary_replay(chk, graphs[0][0], graphs[0][1], rng)
    return chk.finish()
