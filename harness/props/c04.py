"""C04 - Synapse currents equal the impulse-response sum; delayed reads see the past.

T: TLC checks on spec/SynapseHistMC.tla for the four synapse kinds, every spike train / injected
   current sequence up to the bound (clear interleaved), every maximum delay / interpolation mode /
   tolerance / overbound setting offered, and every operation at every reachable state: recurrence ==
   impulse-response sum and spike record == input spikes at every depth of the rings
   (RecurrenceEqClosed), every return value is the one the property states (Refinement),
   current_at(k*D) / spike_at(k*D) == what forward returned / received k steps ago (ReadsPast), the
   overbound table (OverboundTable), delayed reads of exponential currents are the continuous-time sum
   (ExpContinuous), record size ceil(delay/dt)+1 (TypeOK), in-place == out-of-place (InplaceEq).
A: TLC's outcome tables are replayed into the four shipped classes (in-place and not, bool and float
   inputs, batch x shape layouts) for several real parameter sets; expectations are symbolic values
   evaluated numerically.
B: random runs in the dyadic recipe are recorded and validated exactly by TLC (spec/SynapseTrace.tla).
"""
from __future__ import annotations
import copy, math, random
from concurrent.futures import ThreadPoolExecutor
from ..core import Check, MachineryFailure
from .. import tlc, tracecheck, symreplay, symcommon
from ..graph import canon
from ..impl_synapse import SynImpl, SynParams, SynMatcher, CLASS

PID = "C04"
INVS = ["TypeOK", "RecurrenceEqClosed", "Refinement", "ReadsPast", "OverboundTable", "ExpContinuous", "InplaceEq"]
ALL = {"delta", "dplus", "sexp", "dexp"}


def consts(kinds, depth, delays, smodes=("previous", "nearest"), tol2s=(1, 3), cobs=("none", "val"),
           sobs=("none", "t", "f"), E0=1, js=(0, 2), dt=4):
    return dict(Kinds=set(kinds), E0=E0, Dt0=dt, Delays=set(delays), SModes=set(smodes), Tol2s=set(tol2s),
                Cobs=set(cobs), Sobs=set(sobs), JS=set(js), MaxDepth=depth)


def mc_configs(tier):
    if tier == "quick":
        return [
            ("trains-T5", consts(ALL, 6, (0, 8), tol2s=(1,), cobs=("val",), sobs=("f",), js=(0, 1))),
            ("offgrid-delay-T3", consts(ALL, 4, (6,), tol2s=(3,), cobs=("none",), sobs=("t",))),
            ("settings-T1", consts(ALL, 2, (0, 8, 6))),
            ("E2-selectors", consts({"delta", "sexp"}, 3, (4,), smodes=("nearest",), tol2s=(1,), cobs=("val",),
                                    sobs=("f",), E0=2)),
        ]
    NOPLUS = ALL - {"dplus"}
    return [
        ("trains-T7", consts(NOPLUS, 8, (0, 4, 8, 12), tol2s=(1,), cobs=("val",), sobs=("f",))),
        ("trains-dplus-T5", consts({"dplus"}, 6, (0, 4, 8, 12), tol2s=(1,), cobs=("val",), sobs=("f",))),
        ("offgrid-delay-T5", consts(ALL, 6, (6, 10), tol2s=(3,), cobs=("none",), sobs=("t",))),
        ("settings-T3", consts(ALL, 4, (0, 8, 6, 12))),
        ("E2-selectors", consts(NOPLUS, 3, (8,), smodes=("nearest",), tol2s=(1,), cobs=("val", "none"),
                                sobs=("f",), E0=2)),
        ("dplus-inj-T4", consts({"dplus"}, 5, (8,), js=(0, 1, 2), tol2s=(1,), cobs=("val",), sobs=("t",))),
    ]


PARAM_SETS = [
    dict(dt=1.0, Q=1.0, tau=20.0, tau_d=20.0, tau_r=5.0, ju=0.5, ob=-7.5),
    dict(dt=0.5, Q=-2.5, tau=7.3, tau_d=7.3, tau_r=2.0, ju=1.25, ob=3.0),
    dict(dt=1.3, Q=0.7, tau=2.0, tau_d=20.0, tau_r=7.3, ju=-0.3, ob=0.125),
    # the documented default out-of-bounds current (0.0) and a step time that is not representable in binary
    dict(dt=0.3, Q=2.0, tau=5.0, tau_d=9.0, tau_r=1.5, ju=0.75, ob=0.0),
]


def init_keys(g):
    """one initial state per configuration"""
    out = {}
    for k, s in g.states.items():
        if not s["h"] and s["m"]["spk"]["ptr"] == 0 and all(x == 0 for row in s["m"]["spk"]["store"] for x in row):
            cf = s["m"]["cf"]
            key = canon(cf)
            # the initial state is the one whose rings are all at rest; a cleared state is identical
            out.setdefault(key, (k, cf))
    return list(out.values())


def replay_cfg(chk, g, ik, cf, P, layout, inplace, boolin, rng, max_states, deviate=None, report=True):
    batch, shape = layout
    hdr = {"cf": cf, "params": P, "shape": shape, "batch": batch, "inplace": inplace, "boolin": boolin,
           "delay_via_setter": bool(report and rng.random() < 0.4)}
    if not hdr["delay_via_setter"]:
        hdr["dt_via_setter"] = bool(report and rng.random() < 0.3)
    hdr["f64"] = bool(report and rng.random() < 0.3)          # a third of the replays on a synapse moved to float64
    mism = []

    def on_mismatch(sig, rep):
        sig = dict(sig, cls=CLASS[cf["sk"]], sob=cf["sob"], cob=cf["cob"], delayed=cf["dly"] > 0)
        obs = rep.get("observed", {}).get("ret", {})
        if isinstance(obs, dict) and obs.get("t") == "err":
            sig["raised"] = obs.get("e")
        rep = dict(rep, cf=cf, params=P.asdict(), layout=[batch, list(shape)], inplace=inplace, boolin=boolin,
                   graph=g.name, delay_via_setter=hdr["delay_via_setter"], dt_via_setter=hdr.get("dt_via_setter", False),
                   f64=hdr.get("f64", False))
        mism.append((sig, rep))
        if report:
            chk.violation(sig, rep)

    st = symreplay.replay(g, ik, lambda: SynImpl(hdr), SynMatcher(P), max_states=max_states, rng=rng,
                          on_mismatch=on_mismatch, deviate=deviate, nontrivial=lambda k, s: len(s["h"]) > 0)
    if report:
        chk.evaluations += st.edges
        for k, o in st.pairs:
            chk.nontrivial.add((cf["sk"], inplace, k, o))
        chk.extra["replayed_edges"] = chk.extra.get("replayed_edges", 0) + st.edges
        chk.extra["impl_states_visited"] = chk.extra.get("impl_states_visited", 0) + st.states
        chk.traces += st.states      # TLC-generated behaviours (paths of the emitted graph) executed on the code
    return st, mism


# ------------------------------------------------------------------ direction B (dyadic recipe)
CK, KS = 8, 24


def _tau_for(dt, target):
    """a time constant for which exp(-dt/tau) is exactly `target` in IEEE double"""
    t = -dt / math.log(target)
    for _ in range(200):
        d = math.exp(-dt / t)
        if d == target:
            return t
        t = math.nextafter(t, math.inf if d < target else -math.inf)
    return None


def _dv(x):
    if isinstance(x, bool):
        x = float(x)
    if math.isnan(x) or math.isinf(x):
        return {"k": "bad"}
    y = x * (1 << KS)
    return {"k": "i", "i": int(round(y))} if abs(y - round(y)) < 2 ** -8 and abs(y) < 2 ** 31 else {"k": "bad"}


def _dv_ring(r):
    return {"n": r["n"], "ptr": r["ptr"], "store": [[_dv(x) for x in row] for row in r["store"]]}


def random_traces(rng, count, steps):
    traces = []
    kinds = ["delta", "dplus", "sexp", "dexp"]
    for ti in range(count):
        sk = kinds[ti % 4]
        D = rng.choice([1, 2, 4])
        dt = rng.choice([1.0, 0.5, 0.25])
        tau = _tau_for(dt, 0.5)
        tau_r = _tau_for(dt, 0.25)
        if tau is None or tau_r is None:
            continue      # recipe unavailable on this platform: skipped, never failed
        a = rng.choice([0, 1, 2])
        sign = rng.choice([1.0, -1.0])
        c = sign * 2.0 ** -a                       # the value Q/dt, Q/tau, Q/dd must take
        Q = {"delta": c * dt, "dplus": c * dt, "sexp": tau * c, "dexp": (tau - tau_r) * c}[sk]
        ju = rng.choice([0.5, 0.25, 1.0])
        ob = rng.choice([0.0, -2.0, 0.75])
        P = SynParams(dt=dt, D=D, Q=Q, tau=tau, tau_d=tau, tau_r=tau_r, ju=ju, ob=ob)
        vals = {"Q/dt": Q / dt, "Q/tau": Q / tau, "Q/dd": Q / (tau - tau_r), "J": ju, "OB": ob}
        used = {"delta": "Q/dt", "dplus": "Q/dt", "sexp": "Q/tau", "dexp": "Q/dd"}[sk]
        if vals[used] != c:
            continue
        cs = {k: (int(round(v * (1 << CK))) if k in (used, "J", "OB") else 0) for k, v in vals.items()}
        tol = rng.choice([0, 1]) if D == 4 else 0      # a tolerance must stay below half a step (2*tol+1 < D)
        dly = rng.choice([0, D, 2 * D, 3 * D, D + D // 2, 2 * D + D // 2])
        cf = {"sk": sk, "dtk": D, "dly": dly, "smode": rng.choice(["previous", "nearest"]), "tol2": 2 * tol + 1,
              "cob": rng.choice(["none", "val"]), "sob": rng.choice(["none", "t", "f"])}
        shape = rng.choice([(1,), (2,), (3,), (2, 2)])
        batch = rng.choice([1, 1, 2, 3])
        hdr = {"cf": cf, "params": P, "shape": shape, "batch": batch, "inplace": rng.random() < 0.5,
               "boolin": rng.random() < 0.5}
        impl = SynImpl(hdr)
        # the dyadic recipe passes the EXACT tolerance (0 or one tick), not the half-tick device
        impl.syn = __import__("harness.impl_synapse", fromlist=["make_synapse"]).make_synapse(
            dict(cf, tol2=2 * tol), P, shape, batch, hdr["inplace"])
        E = impl.E
        evs, since = [], 0
        exp_kind = sk in ("sexp", "dexp")
        for _ in range(steps):
            r = rng.random()
            if since >= 8:
                o = {"a": "clear"}
            elif r < 0.5:
                o = {"a": "step", "v": [{"s": int(rng.random() < 0.45),
                                         "j": rng.randint(0, 3) if sk == "dplus" else 0} for _ in range(E)]}
            elif r < 0.56:
                o = {"a": "current"}
            elif r < 0.62:
                o = {"a": "spike"}
            elif r < 0.95:
                def pick():
                    z = rng.random()
                    if z < 0.2:
                        return rng.choice([-3, -2, -1, dly + 1, dly + 2, dly + 3])
                    if z < 0.3:
                        return dly
                    return rng.randint(0, dly) if dly else 0
                cur = rng.random() < 0.5
                sel = [pick() for _ in range(E)]
                if cur and exp_kind:
                    # analytic-decay interpolation is not dyadic: exponential currents are read on the grid
                    sel = [z if (z < 0 or z > dly or z % D == 0) else (z // D) * D for z in sel]
                    if dly % D and any(z >= dly for z in sel):
                        sel = [min(z, (dly // D) * D) if z >= 0 else z for z in sel]
                o = {"a": "current_at" if cur else "spike_at", "sel": sel}
            else:
                o = {"a": "clear"}
            ret = impl.apply(o)
            since = since + 1 if o["a"] == "step" else (0 if o["a"] == "clear" else since)
            if ret.get("t") == "cur":
                ret = {"t": "cur", "v": [_dv(x) for x in ret["v"]]}
            pj = impl.project()
            stp = {"spk": pj["spk"], "c1": _dv_ring(pj["c1"]) if "c1" in pj else {"n": 0},
                   "c2": _dv_ring(pj["c2"]) if "c2" in pj else {"n": 0}}
            evs.append({"op": o, "ret": ret, "st": stp})
        traces.append({"hdr": {"cf": cf, "E": E, "cs": cs, "ck": CK, "K": KS, "hb": {"q": 1, "qd": 1, "qr": 2},
                               "waive": [], "cfg": {"cls": CLASS[sk], "shape": list(shape), "batch": batch,
                                                    "inplace": hdr["inplace"], "boolin": hdr["boolin"],
                                                    "exact_tolerance_ticks": tol, "params": P.asdict()}},
                       "ev": evs})
    return traces


def validate(chk: Check, traces, report=True, shards=8):
    stats, rej = tracecheck.validate("SynapseTrace", traces, shards=shards)
    if report:
        chk.traces += len(traces)
        chk.states += stats["distinct"]
        chk.transitions += stats["generated"]
        nev = 0
        seen_step = False
        for ti, t in enumerate(traces):
            seen_step = False
            for j, e in enumerate(t["ev"]):
                nev += 1
                seen_step = seen_step or e["op"]["a"] == "step"
                if seen_step:
                    chk.nontrivial.add(("trace", ti, j))
        chk.evaluations += nev
        chk.extra["trace_events"] = nev
        chk.note(f"traces: {len(traces)} dyadic traces, {nev} events, rejected lines={len(rej)}")
        chk.sample({"kind": "trace", "cfg": traces[0]["hdr"]["cfg"], "cf": traces[0]["hdr"]["cf"],
                    "first_events": traces[0]["ev"][:3]})
        for r in rej:
            t = traces[r["trace"]]
            exp = (r["diag"] or {}).get("expected")
            ev = r["event"]
            cf = t["hdr"]["cf"]
            sig = {"clause": symcommon.trace_clause(ev, exp), "op": ev["op"]["a"], "site": "dyadic-trace",
                   "cls": t["hdr"]["cfg"]["cls"], "sob": cf["sob"], "cob": cf["cob"], "delayed": cf["dly"] > 0}
            if ev["ret"].get("t") == "err":
                sig["raised"] = ev["ret"].get("e")
            chk.violation(sig, {"cfg": t["hdr"]["cfg"], "cf": cf, "ops": [e["op"] for e in t["ev"][: r["line"]]],
                                "line": r["line"], "expected": exp or (r["diag"] or {}).get("unrefined"),
                                "observed": {"ret": ev["ret"], "st": ev["st"]}})
    return stats, rej


def run(tier: str, seed: int) -> int:
    chk = Check(PID, tier, seed)
    rng = random.Random(seed)
    chk.extra["rule"] = ("MC: every (state, operation) pair of the bounded synapse model (state = inputs since the last "
                         "clear + rings). Replay: one execution per (sampled state, operation) of the emitted outcome "
                         "tables per synapse class / configuration / parameter set. A case is non-trivial and distinct "
                         "when it is a distinct (class, mode, state with at least one input, operation) executed on a "
                         "real synapse, or a distinct accepted trace event after the first input.")
    chk.assumptions += [
        "interp_tol is (tol + 1/2) tick so that on-grid / in-range decisions never depend on float rounding "
        "(interp_tol = 0 is exercised only with dyadic step times, in the trace binding)",
        "nearest interpolation exactly half-way between two steps may return either neighbour (float rounding)",
        "numeric agreement outside the dyadic recipe is rtol 1e-5 / atol 1e-6 relative to the magnitude of the terms",
    ]
    if tier == "quick":
        gens = [("gen-T3", consts(ALL, 3, (0, 8, 6)), 16, 110)]
    else:
        gens = [("gen-T3", consts(ALL - {"dplus"}, 3, (0, 4, 8, 6)), 40, None),
                ("gen-dplus-T2", consts({"dplus"}, 2, (0, 8, 6)), 40, None),
                ("gen-T5", consts(ALL - {"dplus"}, 5, (8,), tol2s=(1,), cobs=("val",), sobs=("t",)), 130, None)]
    pool = ThreadPoolExecutor(max_workers=3)
    futs = [pool.submit(symcommon.gen_graph, chk, "SynapseHistMC", it[0], it[1]) for it in gens]
    # ---- T
    symcommon.run_mc(chk, "SynapseHistMC", mc_configs(tier), INVS)
    # ---- A
    graphs = [f.result() for f in futs]
    pool.shutdown()
    layouts = [(1, (1,))]
    first = True
    for (name, c, max_states, max_cfgs), g in zip(gens, graphs):
        inits = init_keys(g)
        chk.note(f"graph {name}: {len(g.states)} states, {g.n_edges} outcomes, {len(inits)} configurations")
        rng.shuffle(inits)
        # every synapse kind x spike-overbound setting stays represented in a sample
        if max_cfgs is not None and len(inits) > max_cfgs:
            seen, keep, rest = set(), [], []
            for it in inits:
                sig = (it[1]["sk"], it[1]["sob"], it[1]["cob"], it[1]["dly"] > 0)
                (keep if sig not in seen else rest).append(it)
                seen.add(sig)
            inits = keep + rest[: max(0, max_cfgs - len(keep))]
        tot_e = tot_m = 0
        for i, (ik, cf) in enumerate(inits):
            nps = 1 if tier == "quick" else len(PARAM_SETS)
            for pi in range(nps):
                P = SynParams(D=c["Dt0"], **PARAM_SETS[(i + pi) % len(PARAM_SETS)])
                inplace = bool((i + pi) % 2)
                boolin = bool((i // 2 + pi) % 2)
                st, mism = replay_cfg(chk, g, ik, cf, P, layouts[0], inplace, boolin, rng, max_states)
                tot_e += st.edges
                tot_m += st.mismatches
                if first and st.pairs:
                    k, o = next(iter(st.pairs))
                    chk.sample({"kind": "replayed-edge", "cls": CLASS[cf["sk"]], "cf": cf, "params": P.asdict(),
                                "op": o, "inputs": g.states[k]["h"]})
                    first = False
        chk.note(f"replay {name}: {tot_e} (state, operation) pairs executed, mismatches={tot_m}")

    # canary A: an implementation whose delayed read is one step off must be caught
    g0 = graphs[0]
    ik, cf = next(it for it in init_keys(g0) if it[1]["sk"] == "sexp" and it[1]["dly"] == 8 and it[1]["cob"] == "val")
    P = SynParams(D=gens[0][1]["Dt0"], **PARAM_SETS[0])

    def deviate(op, ret, proj):
        if op["a"] == "current_at" and ret.get("t") == "cur":
            ret = dict(ret, v=[x * 0.95 + 1e-3 for x in ret["v"]])
        return ret, proj
    _, mism = replay_cfg(chk, g0, ik, cf, P, layouts[0], False, False, rng, 12, deviate=deviate, report=False)
    if not any(m[0]["clause"] == "RetOK" and m[0]["op"] == "current_at" for m in mism):
        raise MachineryFailure("canary: deviating replay was not rejected")
    chk.extra["canary_replay_mismatches"] = len(mism)
    chk.note(f"canary: deviating replay rejected ({len(mism)} mismatches)")
    # ---- B
    traces = random_traces(rng, 160 if tier == "quick" else 800, steps=28 if tier == "quick" else 40)
    if not traces:
        chk.note("dyadic recipe unavailable: no traces")
    else:
        _, rej0 = validate(chk, traces)
        rejected = {r["trace"] for r in rej0}
        good = copy.deepcopy(next(t for i, t in enumerate(traces) if i not in rejected and t["hdr"]["cf"]["sk"] == "sexp"))
        good["hdr"]["waive"] = []
        bad = copy.deepcopy(good)
        line = None
        for i, e in enumerate(bad["ev"]):
            if e["ret"].get("t") == "cur" and e["op"]["a"] == "step" and e["ret"]["v"][0].get("k") == "i":
                e["ret"]["v"][0]["i"] += 1
                line = i + 1
                break
        if line is None:
            raise MachineryFailure("canary: no event to corrupt")
        _, rej = tracecheck.validate("SynapseTrace", [good, bad], shards=1, max_waive_rounds=1)
        got = {(r["trace"], r["line"]) for r in rej}
        if (1, line) not in got or any(t == 0 for t, _ in got):
            raise MachineryFailure(f"canary: corrupted trace not rejected at line {line} (got {got})")
        chk.extra["canary_trace_rejected_at_line"] = line
        chk.note(f"canary: corrupted trace rejected at line {line}")
    return chk.finish()


def replay(path: str) -> int:
    import json
    doc = json.loads(open(path).read())
    sig, rep = doc["signature"], doc["replay"]
    if sig.get("site", "").startswith("graph-replay"):
        P = SynParams(**rep["params"])
        hdr = {"cf": rep["cf"], "params": P, "shape": tuple(rep["layout"][1]), "batch": rep["layout"][0],
               "inplace": rep["inplace"], "boolin": rep["boolin"], "delay_via_setter": rep.get("delay_via_setter", False), "dt_via_setter": rep.get("dt_via_setter", False),
               "f64": rep.get("f64", False)}
        return symcommon.rerun_graph_record(PID, doc, lambda: SynImpl(hdr), SynMatcher(P))
    print(f"[{PID}] replay: re-run ./check {PID} (trace / specification-level record: {sig})")
    return 1
