"""C05 - connections compute their documented linear map (dense, direct, lateral, conv2d).

T: ConnGeomMC enumerates the geometries (every one an initial state; a convolution then
   slides its window one position per transition) and checks the size formula against the
   number of window positions that fit, that the mechanism (unfold / flattened kernel /
   matrix product / unflatten) computes the relation Contrib, functionality, coverage and
   the receptive views; LateralMaskMC checks "diagonal is zero" and Mech = Abs over all
   assignment histories.
A: "one implementation test per enumerated geometry": TLC EMITS, per geometry, the relation
   Contrib and every advertised shape / reshaping map; the harness builds the real
   connection and compares forward with the sum over the EMITTED relation (never with
   torch.nn.functional), plus all shape claims, like_synaptic, the round trip and the
   receptive views.  The emitted LateralMask graph is replayed on a real LinearLateral
   through the weight / delay / bias setters, the initialisers and Updater applications.
"""
from __future__ import annotations
import json, random
from concurrent.futures import ThreadPoolExecutor
from ..core import Check, MachineryFailure
from .. import tlc, graph
from ..impl_conn import check_geometry, LateralImpl, SITE

PID = "C05"
GEOM_INVS = ["SlideInGrid", "SlideEnd", "SizeFormula", "WindowInPadded", "TypeOK", "MechIsAbs", "Functional",
             "Coverage", "Receptive"]
LAT_INVS = ["DiagZero", "Refinement", "Frame"]


def geom_consts(*, kinds=("dense", "direct", "lateral", "conv"), lin=1, hw=(1, 2, 3, 4, 5), cf=(1, 2), k=(1, 2, 3),
                s=(1, 2, 3), p=(0, 1, 2), d=(1, 2), asym=False, mod=1, rem=0, h=None, w=None):
    return dict(Kinds=set(kinds), LinLevel=lin, HSet=set(h or hw), WSet=set(w or hw), CSet=set(cf), FSet=set(cf),
                KSet=set(k), SSet=set(s), PSet=set(p), DSet=set(d), Asym=asym, EmitMod=mod, EmitRem=rem)


def _mc(module, consts, invs, constraints=(), workers=4):
    return tlc.run(module, tlc.cfg_text(constants=consts, invariants=invs, constraints=list(constraints)),
                   workers=workers, timeout=3000)


def _account_mc(chk, name, res):
    if res.violated:
        chk.violation({"clause": "MC:" + ",".join(res.violated), "site": "spec", "config": name},
                      {"config": name, "tlc_tail": res.out[-4000:]})
    elif not res.ok:
        raise MachineryFailure(f"TLC run {name} did not complete: {res.out[-2000:]}")
    chk.add_tlc(name, res)
    chk.note(f"{name}: {res.distinct} states, {res.generated} transitions, {res.wall:.1f}s")


def emit_geometries(chk, name, consts):
    res = tlc.run("ConnGeomMC", tlc.cfg_text(constants=consts, invariants=["Emit"]), workers=1, timeout=3000)
    if not res.ok:
        raise MachineryFailure(f"TLC emission run {name} failed: {res.out[-2000:]}")
    recs = [r for r in res.printed() if isinstance(r, dict) and "geom" in r]
    chk.add_tlc("emit:" + name, res)
    chk.note(f"emit {name}: {len(recs)} geometries printed out of {res.distinct} states")
    return recs


def replay_geometries(chk: Check, recs, rng, site):
    counts = {}
    for gi, rec in enumerate(recs):
        kind = rec["geom"]["kind"]

        def report(clause, detail, rec=rec, kind=kind):
            sig = {"clause": clause, "site": SITE[kind], "kind": kind}
            if "raised" in detail:
                sig["raised"] = detail["raised"]
            chk.violation(sig, {"geom": rec["geom"], "detail": detail, "source": site})

        n = check_geometry(rec, rng, report, index=gi)
        if kind != "conv":        # the few linear geometries: every shipped synapse class on each
            for extra in (1, 2, 3):
                n += check_geometry(rec, rng, report, index=gi + extra)
        chk.evaluations += n
        chk.traces += 1          # one TLC-generated behaviour (geometry) executed on the implementation
        counts[kind] = counts.get(kind, 0) + 1
        chk.nontrivial.add(json.dumps(rec["geom"], sort_keys=True))
    chk.note(f"replay[{site}]: " + ", ".join(f"{k}={v}" for k, v in sorted(counts.items())) + " geometries on real connections")
    return counts


def canary_geometry(chk: Check, recs, rng):
    """A damaged relation must disagree with the real connection."""
    big = [r for r in recs if len(r["contrib"]) >= 4]
    if not big:
        raise MachineryFailure("canary: no geometry with a non-trivial relation was emitted")
    for mode in ("drop", "swap"):
        hits = []
        for gi, rec in enumerate(big[:8]):
            check_geometry(rec, random.Random(5), lambda c, d: hits.append(c), corrupt=mode, index=gi)
        if "Forward" not in hits:
            raise MachineryFailure(f"canary: a relation corrupted by '{mode}' was not noticed by the forward comparison")
    chk.note("canary: corrupted relations (dropped triple, swapped weights) disagree with the real connections")


# --------------------------------------------------------------------------- lateral mask
def lateral_graph(chk, name, consts):
    res = tlc.run("LateralMaskMC", tlc.cfg_text(constants=consts, invariants=["Emit"], constraints=["Bounded"]),
                  workers=1, timeout=3000)
    if not res.ok:
        raise MachineryFailure(f"TLC emission run lateral:{name} failed: {res.out[-2000:]}")
    g = graph.Graph.from_lines(res.printed())
    if len(g.states) != res.distinct:
        raise MachineryFailure(f"emitted graph has {len(g.states)} states, TLC reports {res.distinct}")
    chk.add_tlc("emit:lateral:" + name, res)
    g.name = name
    return g


def replay_lateral(chk, g, consts, rng, budget, shape2=False, deviate=None, report=True):
    hdr = {"N": consts["N"], "initw": consts["InitW"], "initd": consts["InitD"], "shape2": shape2,
           "inplace_init": bool(rng.random() < 0.5)}
    make = lambda: LateralImpl(hdr)
    init_key = graph.canon(make().project())
    if init_key not in g.states:
        if report:
            chk.violation({"clause": "InitialState", "site": "LinearLateral.__init__", "kind": "lateral"},
                          {"hdr": hdr, "observed": json.loads(init_key), "specified": g.states[g.order[0]]})
        return None, [("init", init_key)]
    mism = []

    def on_mismatch(sig, rep):
        sig = dict(sig, site="LinearLateral." + str(sig.get("op")), kind="lateral")
        mism.append(sig)
        if report:
            chk.violation(sig, dict(rep, hdr=hdr, graph=g.name))

    stats = graph.replay(g, init_key, make, budget=budget, rng=rng, on_mismatch=on_mismatch, deviate=deviate)
    if report:
        chk.evaluations += stats.edges
        chk.traces += stats.rebuilds      # assignment histories (paths of the emitted graph) executed
        for k, o in stats.pairs:
            chk.nontrivial.add(("lateral", g.name, shape2, k, o))
        chk.note(f"replay lateral:{g.name} shape2={shape2}: {stats.edges} edges of {g.n_edges}, "
                 f"{len(stats.states_visited)}/{len(g.states)} states, mismatches={len(stats.mismatches)}")
    return stats, mism


# --------------------------------------------------------------------------- run
def run(tier: str, seed: int) -> int:
    chk = Check(PID, tier, seed)
    rng = random.Random(seed)
    chk.extra["rule"] = ("MC: every geometry of the family (and every window position of every convolution); "
                         "replay: one real connection per emitted geometry, forward compared with the sum over the "
                         "emitted relation for 3 inputs each. Distinct non-trivial case = a distinct geometry whose "
                         "real connection was built and compared, or a distinct (mask state, assignment) pair "
                         "executed on a real LinearLateral.")
    quick = tier == "quick"
    full = geom_consts(lin=1 if quick else 2)
    mc_geom = geom_consts(lin=1, hw=(1, 2, 3, 4), cf=(2,)) if quick else full
    asym = geom_consts(kinds=("conv",), h=(3, 5), w=(2, 4), cf=(1, 2), k=(1, 2, 3), s=(1, 2), p=(0, 1), d=(1, 2),
                       asym=True)
    lat = [("N2", dict(N=2, Vals={1, 2}, InitW="tok", InitD="ones", MaxDepth=5 if quick else 6)),
           ("N3", dict(N=3, Vals={1, 2}, InitW="ones", InitD="tok", MaxDepth=4 if quick else 5)),
           ("N4", dict(N=4, Vals={1}, InitW="diag", InitD="diag", MaxDepth=3 if quick else 4))]

    # ---- T (runs in the background while the geometries are replayed)
    pool = ThreadPoolExecutor(max_workers=3)
    fut_geom = pool.submit(_mc, "ConnGeomMC", mc_geom, GEOM_INVS)
    fut_asym = pool.submit(_mc, "ConnGeomMC", asym, GEOM_INVS) if not quick else None
    fut_lat = [(n, pool.submit(_mc, "LateralMaskMC", c, LAT_INVS, ("Bounded",), 2)) for n, c in lat]

    # ---- A: one implementation test per emitted geometry
    mod = 8 if quick else 1
    recs = emit_geometries(chk, "symmetric", dict(full, EmitMod=mod, EmitRem=seed % mod))
    replay_geometries(chk, recs, rng, "symmetric")
    amod = 24 if quick else 4
    arecs = emit_geometries(chk, "asymmetric", dict(asym, EmitMod=amod, EmitRem=seed % amod))
    replay_geometries(chk, arecs, rng, "asymmetric")
    convs = [r for r in recs + arecs if r["geom"]["kind"] == "conv"]
    if len(convs) < 50:
        raise MachineryFailure(f"only {len(convs)} convolution geometries were emitted")
    chk.sample({"kind": "geometry", "geom": convs[0]["geom"], "outshape": convs[0]["outshape"],
                "contrib_first": convs[0]["contrib"][:3], "contrib_size": len(convs[0]["contrib"])})
    canary_geometry(chk, recs, rng)

    # ---- A: lateral mask histories on a real LinearLateral
    first = None
    for name, consts in lat:
        g = lateral_graph(chk, name, consts)
        first = first or (g, consts)
        budget = 2500 if quick else 40000
        replay_lateral(chk, g, consts, rng, budget)
        if consts["N"] % 2 == 0:
            replay_lateral(chk, g, consts, rng, budget // 2, shape2=True)
    g, consts = first
    dev = lambda op, ret, st: (ret, dict(st, w=[[1 if i == j else x for j, x in enumerate(row)] for i, row in enumerate(st["w"])]))
    _, mism = replay_lateral(chk, g, consts, random.Random(3), 100, deviate=dev, report=False)
    if not mism:
        raise MachineryFailure("canary: a nonzero diagonal reported by the replay was accepted")
    chk.note(f"canary: deviating lateral replay noticed ({len(mism)} mismatches)")
    op0 = next(iter(g.table[g.order[0]]))
    chk.sample({"kind": "lateral-edge", "state": g.states[g.order[0]], "op": op0[0], "res": op0[1]})

    # ---- collect T
    _account_mc(chk, "mc:geometries", fut_geom.result())
    if fut_asym:
        _account_mc(chk, "mc:geometries-asymmetric", fut_asym.result())
    for n, f in fut_lat:
        _account_mc(chk, "mc:lateral-" + n, f.result())
    pool.shutdown()
    return chk.finish()


def replay(path: str) -> int:
    """Re-execute a recorded violation against the current tree."""
    doc = json.loads(open(path).read())
    rep = doc["replay"]
    hits = []
    if "geom" in rep:
        g = rep["geom"]
        consts = geom_consts(kinds=(g["kind"],), lin=2)
        if g["kind"] == "conv":
            consts = geom_consts(kinds=("conv",), h=(g["H"],), w=(g["W"],), cf=(g["C"], g["F"]), k=(g["KH"], g["KW"]),
                                 s=(g["SH"], g["SW"]), p=(g["PH"], g["PW"]), d=(g["DH"], g["DW"]), asym=True)
        res = tlc.run("ConnGeomMC", tlc.cfg_text(constants=consts, invariants=["Emit"]), workers=1)
        recs = [r for r in res.printed() if isinstance(r, dict) and r.get("geom") == g]
        if not recs:
            raise MachineryFailure("replay: TLC did not emit the recorded geometry")
        for s in range(20):
            check_geometry(recs[0], random.Random(s), lambda c, d: hits.append((c, d)), index=s)
    else:
        impl = LateralImpl(rep["hdr"])
        for p in rep.get("path", []):
            impl.apply(p)
        if "op" not in rep:
            want = rep.get("expected_state", rep.get("specified"))
            if graph.canon(impl.project()) != graph.canon(want):
                hits.append(("state", {"observed": impl.project(), "specified": want}))
            rep = dict(rep, op=None)
        ret, st = (impl.apply(rep["op"]), impl.project()) if rep["op"] else (None, None)
        if rep["op"] and not any(graph.canon(o["ret"]) == graph.canon(ret) and graph.canon(o["st"]) == graph.canon(st)
                   for o in rep["expected"]):
            hits.append(("graph-replay", {"observed": {"ret": ret, "st": st}}))
    for c, d in hits[:5]:
        print(f"VIOLATION property={PID} replay={path}\n  clause: {c} detail: {json.dumps(d, default=str)[:300]}")
    print(f"[{PID}] replay: {'still violated' if hits else 'not reproduced on this tree'}")
    return 1 if hits else 0
