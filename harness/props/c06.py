"""C06 - A connection delay is a pure per-synapse time shift.

T: TLC checks on spec/DelayShiftMC.tla, for both geometries (full / one-to-one), the four synapse
   kinds, EVERY heterogeneous per-synapse delay assignment over the offered delays (grid and
   off-grid), every input history up to the bound (clear interleaved): the code's path (selector ->
   current_at -> ring read -> contributions) equals the shift of the undelayed closed form for the
   output of every possible next step and for syncurrent / synspike (ShiftEq); grid delays are a
   pure shift with rest before the start / last clear (PureShift); all-zero delays equal the
   connection built without delays (ZeroDelayEq).
A1: TLC's outcome tables (delay assignment x history) are replayed into LinearDense, LinearDirect,
   LinearLateral and Conv2D composed with the four synapse classes, with real weights / biases and
   several step times; forward output, syncurrent and synspike are compared with the evaluated
   symbolic expectation.
A2: independent simulation: random delayed connections (4 types x 4 synapses, batches, larger
   shapes, overlapping convolution windows, dt in {1.0, 0.5, 1.3}) against REAL UNDELAYED twin
   connections: one twin per distinct delay value carrying only the weights of the synapses with
   that delay; the delayed output at step t must be the sum of the twins' outputs at t - d/dt
   (rest before the start), and a connection with all delays 0 must equal the twin without delay.
"""
from __future__ import annotations
import math, random
from concurrent.futures import ThreadPoolExecutor
from ..core import Check, MachineryFailure
from .. import symreplay, symcommon, symeval
from ..graph import canon
from ..impl_synapse import SynParams
from ..impl_delayconn import ConnImpl, ConnMatcher, CONN_CLASS, GEO_OF, build_connection, torch

PID = "C06"
INVS = ["TypeOK", "ShiftEq", "PureShift", "ZeroDelayEq"]
ALL = {"delta", "dplus", "sexp", "dexp"}


def consts(geos, kinds, depth, maxdelays, delayset, I=2, O=2, zerodiag=False, smodes=("previous",),
           delayed=(True,), dt=4):
    return dict(Geos=set(geos), ZeroDiag=zerodiag, Kinds=set(kinds), I0=I, O0=O, Dt0=dt, MaxDelays=set(maxdelays),
                DelaySet=set(delayset), SModes=set(smodes), DelayedSet=set(delayed), MaxDepth=depth)


def mc_configs(tier):
    if tier == "quick":
        return [
            ("full-2x2-T2", consts({"full"}, {"sexp"}, 3, (8,), (0, 4, 8))),
            ("full-2x1-T3", consts({"full"}, ALL, 4, (8,), (0, 8), I=2, O=1)),
            ("diag-T3", consts({"diag"}, {"delta", "dexp"}, 4, (8,), (0, 4, 8))),
            ("offgrid-T2", consts({"full"}, {"delta", "dplus", "sexp"}, 3, (6,), (0, 2, 5, 6), I=1, O=2,
                                  smodes=("previous", "nearest"))),
            ("zero-and-undelayed-T2", consts({"full", "diag"}, ALL, 3, (0, 8), (0,), delayed=(True, False))),
            ("lateral-T2", consts({"full"}, {"dplus"}, 3, (8,), (0, 4, 8), zerodiag=True)),
        ]
    return [
        ("full-2x2-T2", consts({"full"}, ALL, 3, (8,), (0, 4, 8))),
        ("full-2x1-T4", consts({"full"}, ALL, 5, (12,), (0, 4, 12), I=2, O=1)),
        ("full-1x2-T6", consts({"full"}, ALL, 7, (12,), (0, 4, 8, 12), I=1, O=2)),
        ("diag-T4", consts({"diag"}, ALL, 5, (12,), (0, 4, 12))),
        ("offgrid-T4", consts({"full"}, ALL, 5, (6, 10), (0, 1, 2, 5, 6, 9), I=1, O=2,
                              smodes=("previous", "nearest"))),
        ("offgrid-2x2-T2", consts({"full"}, {"sexp", "delta"}, 3, (6,), (0, 2, 6), smodes=("nearest",))),
        ("zero-and-undelayed-T4", consts({"full", "diag"}, ALL, 5, (0, 8), (0,), delayed=(True, False))),
        ("lateral-T3", consts({"full"}, ALL, 4, (8,), (0, 4, 8), zerodiag=True)),
    ]


PARAM_SETS = [
    dict(dt=1.0, Q=1.0, tau=20.0, tau_d=20.0, tau_r=5.0, ob=0.0),
    dict(dt=0.5, Q=-2.5, tau=7.3, tau_d=7.3, tau_r=2.0, ob=0.0),
    dict(dt=1.3, Q=0.7, tau=2.0, tau_d=20.0, tau_r=7.3, ob=0.0),
]


def init_states(g):
    out = []
    for k, s in g.states.items():
        syn = s["c"]["syn"]
        if not s["h"] and syn["spk"]["ptr"] == 0 and all(x == 0 for row in syn["spk"]["store"] for x in row):
            out.append((k, s["c"]))
    return out


def weights(rng, O, I, lateral=False):
    W = [[rng.choice([-1.5, -0.5, 0.25, 0.75, 2.0]) * (1 + 0.1 * rng.random()) for _ in range(I)] for _ in range(O)]
    if lateral:
        for i in range(min(O, I)):
            W[i][i] = 0.0
    b = [rng.choice([-0.3, 0.0, 0.4, 1.1]) for _ in range(O)]
    return W, b


def replay_conn(chk, g, ik, c, ctype, P, rng, max_states, deviate=None, report=True, inplace=False, boolin=False):
    lateral = ctype == "lateral"
    W, b = weights(rng, c["O"], c["I"], lateral)
    if ctype == "direct":
        W = [[W[o][i] if o == i else 0.0 for i in range(c["I"])] for o in range(c["O"])]
    hdr = {"ctype": ctype, "cf": c["syn"]["cf"], "params": P, "I": c["I"], "O": c["O"], "W": W, "b": b,
           "d": c["d"], "delayed": c["delayed"], "inplace": inplace, "boolin": boolin}
    mism = []

    def on_mismatch(sig, rep):
        sig = dict(sig, conn=CONN_CLASS[ctype], syn=c["syn"]["cf"]["sk"], delayed=c["delayed"])
        rep = dict(rep, ctype=ctype, cf=c["syn"]["cf"], d=c["d"], W=W, b=b, params=P.asdict(), graph=g.name)
        mism.append((sig, rep))
        if report:
            chk.violation(sig, rep)

    st = symreplay.replay(g, ik, lambda: ConnImpl(hdr), ConnMatcher(P, W, b), max_states=max_states, rng=rng,
                          on_mismatch=on_mismatch, deviate=deviate, nontrivial=lambda k, s: len(s["h"]) > 0)
    if report:
        chk.evaluations += st.edges
        for k, o in st.pairs:
            chk.nontrivial.add((ctype, k, o))
        chk.extra["replayed_edges"] = chk.extra.get("replayed_edges", 0) + st.edges
        chk.extra["impl_states_visited"] = chk.extra.get("impl_states_visited", 0) + st.states
        chk.traces += st.states      # TLC-generated behaviours (paths of the emitted graph) executed on the code
    return st, mism


# ------------------------------------------------------------------ A2: undelayed twins
def twin_run(chk, rng, ctype, sk, dt, steps, batch, report=True, corrupt=False, smode=None, drift=0.0, dbl=None, maxk=None):
    """delayed connection vs one real undelayed twin per distinct delay value"""
    D = 4
    P = SynParams(D=D, **dict(PARAM_SETS[rng.randrange(len(PARAM_SETS))], dt=dt))
    maxk = maxk or rng.choice([1, 2, 3])
    cf = {"sk": sk, "dtk": D, "dly": maxk * D, "smode": smode or rng.choice(["previous", "nearest"]), "tol2": 1,
          "cob": "val", "sob": "f"}
    # a quarter of the runs live in float64 with the synapse's default interpolation tolerance (0): delays of exactly
    # k * dt in double precision are ON the grid and must shift by exactly k steps (a float32 round trip of the
    # selector anywhere would move them off it)
    dbl = ((not corrupt) and drift == 0.0 and rng.random() < 0.25) if dbl is None else dbl
    if dbl:
        cf["tol2"] = 0
    from inferno import neural
    from ..impl_delayconn import partial_synapse
    if ctype == "conv":
        H, Wd, C, F, K = rng.choice([2, 3]), rng.choice([3, 4]), rng.choice([1, 2]), rng.choice([1, 2]), 2
        def make(delay):
            return neural.Conv2D(H, Wd, C, F, P.dt, K, synapse=partial_synapse(cf, P), bias=True, delay=delay,
                                 batch_size=batch)
        inshape = (C, H, Wd)
    elif ctype == "dense":
        I, O = rng.choice([2, 3, 5]), rng.choice([1, 2, 4])
        def make(delay):
            return neural.LinearDense((I,), (O,), P.dt, synapse=partial_synapse(cf, P), bias=True, delay=delay,
                                      batch_size=batch)
        inshape = (I,)
    elif ctype == "lateral":
        I = rng.choice([2, 3, 4])
        def make(delay):
            return neural.LinearLateral((I,), P.dt, synapse=partial_synapse(cf, P), bias=True, delay=delay,
                                        batch_size=batch)
        inshape = (I,)
    else:
        I = rng.choice([2, 3, 5])
        def make(delay):
            return neural.LinearDirect((I,), P.dt, synapse=partial_synapse(cf, P), bias=True, delay=delay,
                                       batch_size=batch)
        inshape = (I,)
    gen = torch.Generator().manual_seed(rng.randrange(1 << 30))
    if rng.random() < 0.3:
        # built with a maximum delay half a step shorter (the same number of stored steps) and raised to the configured
        # maximum through the synapse's public setter: delays up to the REPORTED maximum must shift exactly
        delayed = make((cf["dly"] - D // 2) * P.tick)
        delayed.synapse.delay = cf["dly"] * P.tick
    else:
        delayed = make(cf["dly"] * P.tick)
    if dbl:
        delayed = delayed.double()
    wshape = tuple(delayed.weight.shape)
    Wt = (torch.randint(-4, 5, wshape, generator=gen).float() / 4.0)
    dk = torch.randint(0, maxk + 1, wshape, generator=gen)
    homogeneous = rng.random() < 0.25
    if homogeneous:
        dk = torch.full(wshape, rng.randint(0, maxk))
    else:
        dk.reshape(-1)[rng.randrange(dk.numel())] = maxk      # some synapse sits at the supported maximum
    delayed.weight = Wt.clone().to(delayed.weight.dtype)
    # drift: the learned delays lie a fraction of a step off their grid point, inside the synapse's interpolation
    # tolerance (1/8 step), above it except at the maximum (C02: within tolerance of the grid IS the grid point)
    if dbl:
        delayed.delay = dk.double() * (D * P.tick)
    else:
        delayed.delay = (dk.float() + drift * torch.where(dk < maxk, 1.0, -1.0)) * (D * P.tick)
    bias = delayed.bias.detach().clone()
    Wt = delayed.weight.detach().clone()           # (lateral: masked)
    dk = (delayed.delay.detach() / (D * P.tick)).round().long()
    def build_twins(dk_):
        tw = {}
        for k in sorted(set(dk_.reshape(-1).tolist())):
            t = make(None)
            if dbl:
                t = t.double()
            t.weight = Wt * (dk_ == k)
            t.bias = torch.zeros_like(bias)
            tw[k] = t
        return tw
    twins = build_twins(dk)
    outs = {k: [] for k in twins}
    relearned = False
    xhist = []                             # input spikes since the start / the last clear
    worst = None
    for step in range(steps):
        x = (torch.rand((batch,) + inshape, generator=gen) < 0.4).to(delayed.weight.dtype)
        if step == steps // 2 and rng.random() < 0.5:
            delayed.clear()
            if rng.random() < 0.6:
                # the learned delays are REPLACED through the public setter in mid-run (as an updater does); from the
                # cleared state on, the connection must shift by the new delays
                dk2 = torch.randint(0, maxk + 1, wshape, generator=gen)
                delayed.delay = (dk2.double() * (D * P.tick)) if dbl else \
                    (dk2.float() + drift * torch.where(dk2 < maxk, 1.0, -1.0)) * (D * P.tick)
                dk = (delayed.delay.detach() / (D * P.tick)).round().long()
                twins = build_twins(dk)
                relearned = True
            for t in twins.values():
                t.clear()
            outs = {k: [] for k in twins}
            xhist = []
        xhist.append(x)
        try:
            y = delayed(x)
        except (RuntimeError, ValueError, TypeError, IndexError, AttributeError, AssertionError) as e:
            worst = {"step": step, "raised": type(e).__name__, "message": str(e)[:300]}
            break
        ys = {k: t(x) for k, t in twins.items()}
        ref = next(iter(ys.values()))
        if tuple(y.shape) != tuple(ref.shape):
            worst = {"step": step, "observed_shape": list(y.shape), "expected_shape": list(ref.shape)}
            break
        exp = torch.zeros_like(y)
        mag = torch.zeros_like(y)
        for k, t in twins.items():
            outs[k].append(ys[k])
            if len(outs[k]) - 1 - k >= 0:
                exp = exp + outs[k][len(outs[k]) - 1 - k]
                mag = mag + outs[k][len(outs[k]) - 1 - k].abs()
        bshape = [1] * y.ndim
        bshape[1] = -1 if ctype == "conv" else bshape[1]
        exp = exp + (bias.reshape(1, -1, 1, 1) if ctype == "conv" else bias.reshape((1,) + tuple(y.shape[1:])))
        if corrupt and step == steps - 1:
            y = y + 0.01
        tol = symeval.ATOL + symeval.RTOL * (mag + exp.abs())
        bad = (y - exp).abs() > tol
        chk_n = int(y.numel())
        if report:
            chk.evaluations += chk_n
            if step > 0:
                chk.nontrivial.add(("twin", ctype, sk, dt, step, tuple(dk.reshape(-1).tolist())))
        if bad.any():
            worst = {"step": step, "observed": y.reshape(-1).tolist(), "expected": exp.reshape(-1).tolist()}
            break
        # the delay-offset spike view exposed for learning shows the same shift: synspike[b, i, o] is the input
        # spike of element i, delay[o][i] steps ago (no spike from before the start / the last clear)
        if ctype in ("dense", "lateral") and not corrupt:
            ss = delayed.synspike
            I_, O_ = dk.shape[1], dk.shape[0]
            if tuple(ss.shape) == (batch, I_, O_):
                want = torch.zeros(batch, I_, O_, dtype=torch.bool)
                for o in range(O_):
                    for i in range(I_):
                        s0 = len(xhist) - 1 - int(dk[o, i])
                        if s0 >= 0:
                            want[:, i, o] = xhist[s0].reshape(batch, -1)[:, i] > 0
                if report:
                    chk.evaluations += int(want.numel())
                if not torch.equal(ss.bool(), want):
                    worst = {"step": step, "view": "synspike", "observed": ss.int().reshape(-1).tolist(),
                             "expected": want.int().reshape(-1).tolist()}
                    break
    cfg = {"conn": CONN_CLASS[ctype], "syn": sk, "dt": dt, "batch": batch, "delays_steps": dk.reshape(-1).tolist(),
           "max_delay_steps": maxk, "homogeneous": homogeneous, "params": P.asdict(), "delays_replaced_in_mid_run": relearned, "float64": dbl}
    if worst and report:
        chk.violation({"clause": "ShiftEq", "site": "undelayed-twin", "conn": CONN_CLASS[ctype], "syn": sk,
                       "delayed": True, "view": worst.get("view", "output")}, dict(cfg, **worst))
    return worst, cfg


def run(tier: str, seed: int) -> int:
    chk = Check(PID, tier, seed)
    rng = random.Random(seed)
    torch.manual_seed(seed)
    chk.extra["rule"] = ("MC: every (state, operation) pair of the bounded connection model (state = delay assignment + "
                         "input history + synapse rings). Replay: one execution per (sampled state, operation) of the "
                         "emitted tables per connection class. Twins: one comparison per output element per step. A "
                         "case is non-trivial and distinct when it is a distinct (connection class, state with at least "
                         "one input, operation) executed on a real connection, or a distinct (connection, synapse, dt, "
                         "delay tensor, step > 0) of a twin run.")
    chk.assumptions += [
        "synapse interp_tol is 1/2 tick so that on-grid decisions never depend on float rounding",
        "numeric agreement is rtol 1e-5 / atol 1e-6 relative to the magnitude of the contributing terms",
        "learned delays lie in [0, maximum delay] as the property requires",
    ]
    if tier == "quick":
        gens = [("gen-full-2x2-T2", consts({"full"}, ALL, 2, (8,), (0, 8)), ["dense", "conv"], 8, 20),
                ("gen-full-2x1-T3", consts({"full"}, ALL, 3, (8,), (0, 4, 8), I=2, O=1), ["dense", "conv"], 8, 16),
                ("gen-diag-T3", consts({"diag"}, ALL, 3, (8,), (0, 4, 8)), ["direct"], 8, 16),
                ("gen-lateral-T2", consts({"full"}, ALL, 2, (8,), (0, 4, 8), zerodiag=True), ["lateral"], 8, 16),
                ("gen-offgrid-T2", consts({"full"}, {"delta", "dplus", "sexp"}, 2, (6,), (0, 2, 6), I=2, O=1,
                                          smodes=("previous", "nearest")), ["dense"], 8, 12),
                # one-to-one connection whose learned delays are all shorter than one step (and off the grid)
                ("gen-offgrid-diag-T2", consts({"diag"}, {"delta", "sexp"}, 2, (6,), (1, 2, 3), smodes=("previous", "nearest")),
                 ["direct"], 8, 16)]
    else:
        gens = [("gen-full-2x2-T2", consts({"full"}, ALL, 2, (8,), (0, 8)), ["dense", "conv"], 30, None),
                ("gen-full-2x2-mid-T2", consts({"full"}, {"sexp"}, 2, (8,), (0, 4, 8)), ["dense", "conv"], 30, None),
                ("gen-full-2x1-T3", consts({"full"}, ALL, 3, (8,), (0, 4, 8), I=2, O=1), ["dense", "conv"], 100, None),
                ("gen-diag-T3", consts({"diag"}, ALL, 3, (8,), (0, 4, 8)), ["direct"], 100, None),
                ("gen-lateral-T3", consts({"full"}, ALL, 3, (8,), (0, 4, 8), zerodiag=True), ["lateral"], 100, None),
                ("gen-offgrid-T2", consts({"full"}, ALL, 2, (6,), (0, 2, 5, 6), I=2, O=1,
                                          smodes=("previous", "nearest")), ["dense", "conv"], 30, None),
                ("gen-offgrid-diag-T2", consts({"diag"}, ALL, 2, (6,), (1, 2, 3, 5), smodes=("previous", "nearest")),
                 ["direct"], 30, None),
                ("gen-undelayed-T3", consts({"full", "diag"}, ALL, 3, (0, 8), (0,), delayed=(True, False)),
                 ["dense", "direct", "conv"], 60, None)]
    pool = ThreadPoolExecutor(max_workers=6)
    futs = [pool.submit(symcommon.gen_graph, chk, "DelayShiftMC", it[0], it[1]) for it in gens]
    # ---- T
    symcommon.run_mc(chk, "DelayShiftMC", mc_configs(tier), INVS)
    # ---- A1
    graphs = [f.result() for f in futs]
    pool.shutdown()
    first = True
    for (name, c, ctypes, max_states, max_cfgs), g in zip(gens, graphs):
        inits = init_states(g)
        rng.shuffle(inits)
        if max_cfgs is not None:
            # keep every synapse kind and both heterogeneous / homogeneous assignments represented
            seen, keep, rest = set(), [], []
            for it in inits:
                ds = {r["d"] for r in it[1]["d"]}
                sig = (it[1]["syn"]["cf"]["sk"], it[1]["geo"], len(ds) > 1)
                (keep if sig not in seen else rest).append(it)
                seen.add(sig)
            inits = keep + rest[: max(0, max_cfgs - len(keep))]
        tot_e = tot_m = 0
        for n, (ik, cst) in enumerate(inits):
            for ctype in ctypes:
                if GEO_OF[ctype] != cst["geo"]:
                    continue
                P = SynParams(D=c["Dt0"], **PARAM_SETS[(n + len(ctype)) % len(PARAM_SETS)])
                st, _ = replay_conn(chk, g, ik, cst, ctype, P, rng, max_states, inplace=bool(n % 2),
                                    boolin=bool((n // 2) % 2))
                tot_e += st.edges
                tot_m += st.mismatches
                if first and st.pairs:
                    k, o = next(iter(st.pairs))
                    chk.sample({"kind": "replayed-edge", "conn": CONN_CLASS[ctype], "cf": cst["syn"]["cf"],
                                "delays": cst["d"], "op": o, "inputs": g.states[k]["h"]})
                    first = False
        chk.note(f"replay {name}: {len(g.states)} states in graph, {len(inits)} delay assignments x {ctypes}: "
                 f"{tot_e} (state, operation) pairs executed, mismatches={tot_m}")

    # canary A1: an implementation reading one synapse's history at the wrong delay must be caught
    g0 = graphs[0]
    ik, cst = next(it for it in init_states(g0)
                   if it[1]["syn"]["cf"]["sk"] == "sexp" and len({r["d"] for r in it[1]["d"]}) > 1)
    P = SynParams(D=gens[0][1]["Dt0"], **PARAM_SETS[0])

    def deviate(op, ret, proj):
        if ret.get("t") == "out":
            ret = dict(ret, o=[x * 1.01 + 1e-3 for x in ret["o"]])
        return ret, proj
    _, mism = replay_conn(chk, g0, ik, cst, "dense", P, rng, 10, deviate=deviate, report=False)
    if not any(m[0]["clause"] == "RetOK" and m[0]["op"] == "step" for m in mism):
        raise MachineryFailure("canary: deviating replay was not rejected")
    chk.note(f"canary: deviating replay rejected ({len(mism)} mismatches)")

    # ---- A2
    nruns = 0
    reps = 2 if tier == "quick" else 8
    # step times incl. ones for which float32(k) * float32(dt) (the learned delay parameter) lies ABOVE the float64
    # maximum k * dt kept by the synapse (0.3, 1.1, 0.7): still "a multiple of the step time and at most the
    # supported maximum" within the synapse's interpolation tolerance, so the shift must be exact there too
    DTS = [1.0, 0.5, 1.3, 0.3, 1.1, 0.7, 0.1]
    for rep in range(reps):
        for ctype in ("dense", "direct", "lateral", "conv"):
            for sk in sorted(ALL):
                dt = DTS[(nruns + 3 * rep) % len(DTS)]
                twin_run(chk, rng, ctype, sk, dt, steps=8 if tier == "quick" else 14, batch=rng.choice([1, 2, 3]))
                nruns += 1
    # learned delays that sit a float32 rounding error ABOVE a grid point (within the synapse's tolerance), read
    # with the 'previous' rule: output AND the spike view must still show the shift by exactly that many steps
    for sk in sorted(ALL):
        for dt in (0.3, 1.1, 0.7):
            twin_run(chk, rng, rng.choice(["dense", "lateral"]), sk, dt, steps=8 if tier == "quick" else 14,
                     batch=rng.choice([1, 2]), smode="previous", drift=rng.choice([0.0, 0.04, 0.08]))
            nruns += 1
    # float64 connections, default tolerance, 'previous' rule, delays up to 3 / 6 steps of step times whose multiples
    # are not float32 numbers: on the grid in double precision, hence an exact shift
    for sk in sorted(ALL):
        for dt, mk in ((0.1, 3), (1.3, 6), (0.7, 3)):
            twin_run(chk, rng, rng.choice(["dense", "lateral", "direct"]), sk, dt, steps=10 if tier == "quick" else 16,
                     batch=rng.choice([1, 2]), smode="previous", dbl=True, maxk=mk)
            nruns += 1
    chk.extra["twin_runs"] = nruns
    chk.note(f"undelayed-twin runs: {nruns}")
    worst, cfg = twin_run(chk, rng, "dense", "sexp", 1.0, steps=6, batch=1, report=False, corrupt=True)
    if not worst:
        raise MachineryFailure("canary: corrupted twin comparison was accepted")
    chk.sample({"kind": "twin-run", "cfg": cfg})
    chk.note("canary: corrupted twin comparison rejected")
    return chk.finish()


def replay(path: str) -> int:
    import json
    doc = json.loads(open(path).read())
    sig, rep = doc["signature"], doc["replay"]
    if sig.get("site", "").startswith("graph-replay"):
        P = SynParams(**rep["params"])
        st0 = rep.get("state") or rep.get("expected_state")
        c = st0["c"]
        hdr = {"ctype": rep["ctype"], "cf": rep["cf"], "params": P, "I": c["I"], "O": c["O"], "W": rep["W"],
               "b": rep["b"], "d": rep["d"], "delayed": c["delayed"]}
        return symcommon.rerun_graph_record(PID, doc, lambda: ConnImpl(hdr), ConnMatcher(P, rep["W"], rep["b"]))
    print(f"[{PID}] replay: re-run ./check {PID} (twin / specification-level record: {sig})")
    return 1
