"""C07 - Spike traces and fold reducers equal their closed forms over any event history.

T: TLC checks on spec/ReducersMC.tla, for every reducer kind, every observation sequence up to the
   bound with clear(keepshape) / dump interleaved, and every operation at every reachable state:
   fold recurrence == closed form at every depth of the record (FoldEqClosed), every return value
   is the one the closed-form model states (Refinement), View(k*D) == the value reported k steps ago
   (ViewPast), a view of a trace is the continuous-time closed form (TraceContinuous), dump is
   newest-first (DumpNewestFirst), clear => never-observed behaviour (ClearIsFresh), in-place ==
   out-of-place (InplaceEq).
A: TLC prints the outcome table of every state; the tables are replayed into all ten shipped
   reducer classes (twelve configurations), in-place and not, for several real parameter sets, the
   symbolic expectations evaluated numerically (harness/symeval.py); the functional entry points
   inferno.trace_* / exp_trace_* / exprate_trace_* are folded over the same enumerated histories.
B: random histories on multi-dimensional reducers in the dyadic recipe are recorded and validated
   EXACTLY by TLC against spec/ReducersTrace.tla.
"""
from __future__ import annotations
import copy, math, random
from concurrent.futures import ThreadPoolExecutor
from fractions import Fraction
from ..core import Check, MachineryFailure
from .. import tlc, tracecheck, symreplay, symcommon
from ..graph import Graph, canon
from ..impl_reducers import ReducerImpl, Params, Matcher, SPEC_KIND, CLASS, TRACE_KINDS, EVENT_KINDS, functional_fold

PID = "C07"
INVS = ["TypeOK", "FoldEqClosed", "Refinement", "ViewPast", "DumpNewestFirst", "TraceContinuous",
        "ClearIsFresh", "InplaceEq"]
ALL_SPEC_KINDS = {"near", "cum", "snear", "scum", "ev_inf", "ev_nan", "ev_zero", "pass", "ema", "ca"}


def consts(kinds, depth, xs, durs=(0, 8), incls=(True, False), E0=1, tols=(0, 1), tens=False, target=1, dt=4,
           dtset=()):
    return dict(Kinds=set(kinds), E0=E0, Dt0=dt, DurSet=set(durs), InclSet=set(incls), XS=set(xs), Target=target,
                Tols=set(tols), DtSet=set(dtset), TensView=tens, MaxDepth=depth)


def mc_configs(tier):
    """(name, constants); MaxDepth = T + 1 explores every sequence of T operations."""
    if tier == "quick":
        return [
            ("target-T6", consts({"near", "cum"}, 7, {0, 1}, durs=(8,), incls=(True,))),
            ("target-N12-T4", consts({"near", "cum"}, 5, {0, 1}, durs=(0, 8), incls=(False,))),
            ("scaled-T4", consts({"snear", "scum"}, 5, {0, 2}, durs=(8,), incls=(True,), tols=(0,))),
            ("scaled-N12-T3", consts({"snear", "scum"}, 4, {0, 1, 2}, durs=(0, 8), incls=(False,))),
            ("event-T6", consts({"ev_inf", "ev_nan", "ev_zero"}, 7, {0}, durs=(8,), incls=(True,))),
            ("event-N12-T4", consts({"ev_inf", "ev_nan", "ev_zero"}, 5, {0}, durs=(0, 8), incls=(False,))),
            ("stats-T4", consts({"pass", "ema", "ca"}, 5, {0, 1, 2}, durs=(8,), incls=(True,), tols=(0,))),
            ("stats-N12-T3", consts({"pass", "ema", "ca"}, 4, {0, 1, 2}, durs=(0, 8), incls=(False,))),
            ("E2-tensor-view", consts({"cum", "snear", "ev_zero", "ema"}, 3, {0, 1}, durs=(8,), incls=(True,),
                                      E0=2, tols=(0,), tens=True)),
            ("setdt-T4", consts({"cum", "near", "scum", "ev_zero", "ev_inf", "ema"}, 5, {0, 1}, durs=(0,),
                                incls=(False,), tols=(0,), dtset=(2, 4, 6))),
        ]
    return [
        ("target-T8", consts({"near", "cum"}, 9, {0, 1}, durs=(12,), incls=(False, True))),
        ("target-x012-T6", consts({"near", "cum"}, 7, {0, 1, 2}, durs=(0, 4, 8), incls=(False, True))),
        ("scaled-T5", consts({"snear", "scum"}, 6, {0, 2}, durs=(8,), incls=(True,))),
        ("scaled-N-T4", consts({"snear", "scum"}, 5, {0, 1, 2}, durs=(0, 8), incls=(False,), tols=(0,))),
        ("event-T8", consts({"ev_inf", "ev_nan", "ev_zero"}, 9, {0}, durs=(12,), incls=(False, True))),
        ("event-N-T6", consts({"ev_inf", "ev_nan", "ev_zero"}, 7, {0}, durs=(0, 4, 8), incls=(False, True))),
        ("stats-T7", consts({"pass", "ema", "ca"}, 8, {0, 1, 2}, durs=(8,), incls=(True,))),
        ("stats-N-T5", consts({"pass", "ema", "ca"}, 6, {0, 1, 2}, durs=(0, 8, 12), incls=(False,))),
        ("E2-tensor-view", consts({"cum", "near", "ev_zero", "ev_inf", "pass", "ema", "ca"}, 3, {0, 1},
                                  durs=(8,), incls=(True, False), E0=2, tols=(0, 1), tens=True)),
        ("E2-tensor-view-scaled", consts({"snear", "scum"}, 3, {0, 2}, durs=(8,), incls=(True,), E0=2, tols=(0,),
                                         tens=True)),
        ("setdt-T5", consts(ALL_SPEC_KINDS, 6, {0, 1}, durs=(0,), incls=(False, True), tols=(0,), dtset=(2, 4, 6))),
    ]


def run_mc(chk: Check, configs):
    symcommon.run_mc(chk, "ReducersMC", configs, INVS)


# ------------------------------------------------------------------ direction A
def gen_graph(chk: Check, name: str, c: dict) -> Graph:
    return symcommon.gen_graph(chk, "ReducersMC", name, c)


def init_key(g: Graph, rk: str, durk: int, incl: bool):
    for k, s in g.states.items():
        m = s["m"]
        if (m["rk"] == rk and m["init"] and m["ring"]["kind"] == "empty" and m["ring"]["durk"] == durk
                and bool(m["ring"]["incl"]) == incl and not s["h"]):
            return k
    return None


PARAM_SETS = [
    dict(dt=1.0, tau=20.0, A=1.0, S=0.5, u=1.0, alpha=0.5),
    dict(dt=0.5, tau=7.3, A=-0.75, S=1.5, u=0.5, alpha=0.3),
    dict(dt=1.3, tau=2.0, A=2.5, S=-0.4, u=3.0, alpha=0.85),
    dict(dt=0.1, tau=20.0, A=0.3, S=2.0, u=1.0, alpha=0.1),
]


def replay_class(chk, g, rk, durk, incl, P, inplace, rng, max_states, E=1, deviate=None, report=True):
    ik = init_key(g, SPEC_KIND[rk], durk, incl)
    if ik is None:
        raise MachineryFailure(f"no initial state for {rk} dur={durk} incl={incl} in graph {g.name}")
    hdr = {"rk": rk, "durk": durk, "incl": incl, "E": E, "inplace": inplace, "params": P}
    mism = []

    def on_mismatch(sig, rep):
        sig = dict(sig, cls=CLASS[rk], kind=rk, inplace=inplace)
        rep = dict(rep, hdr={k: v for k, v in hdr.items() if k != "params"}, params=P.asdict(), graph=g.name)
        mism.append((sig, rep))
        if report:
            chk.violation(sig, rep)

    st = symreplay.replay(g, ik, lambda: ReducerImpl(hdr), Matcher(P), max_states=max_states, rng=rng,
                          on_mismatch=on_mismatch, deviate=deviate,
                          nontrivial=lambda k, s: not s["m"]["init"])
    if report:
        chk.evaluations += st.edges
        for k, o in st.pairs:
            chk.nontrivial.add((rk, inplace, k, o))
        chk.extra["replayed_edges"] = chk.extra.get("replayed_edges", 0) + st.edges
        chk.extra["impl_states_visited"] = chk.extra.get("impl_states_visited", 0) + st.states
        chk.traces += st.states      # TLC-generated behaviours (paths of the emitted graph) executed on the code
    return st, mism


def functional_replay(chk, g, rng, max_hist):
    """inferno.trace_* / exp_trace_* / exprate_trace_*: fold every enumerated history and compare with
    the closed form TLC attached to that state (the peek outcome)."""
    n = 0
    items = [(k, s) for k, s in g.states.items() if s["h"] and s["m"]["rk"] in ("near", "cum", "snear", "scum")
             and s["m"]["ring"]["durk"] == g_dur(g)]
    rng.shuffle(items)
    for k, s in items[:max_hist]:
        rk = s["m"]["rk"]
        peek = [outs for op, outs in g.table[k] if op["a"] == "peek"][0][0]["ret"]["v"][0]
        hist = [row[0] for row in s["h"]]
        for pd in PARAM_SETS[:3]:
            P = Params(D=4, **pd)
            exp, mag = P.value(peek)
            for variant in (("plain", "exp", "exprate") if rk in ("near", "cum") else ("plain",)):
                got = functional_fold(rk, variant, P, hist)
                n += 1
                chk.nontrivial.add(("functional", rk, variant, k, pd["dt"]))
                from ..symeval import close
                if not close(exp, got, mag):
                    chk.violation({"clause": "FoldEqClosed", "site": "functional", "kind": rk, "variant": variant},
                                  {"history": hist, "params": P.asdict(), "expected": exp, "observed": got,
                                   "closed_form": peek})
        # inferno.trace_cumulative_value: x <- decay * x + scale * h, the scaled cumulative trace without amplitude and
        # without matching: the closed form of "scum" at amplitude 0 on histories whose every observation matches
        if rk == "scum" and all(o["m"] for o in hist):
            import inferno as _inf, torch as _torch, math as _math
            for pd in PARAM_SETS[:3]:
                P0 = Params(D=4, **dict(pd, A=0.0))
                exp, mag = P0.value(peek)
                tr = None
                for o in hist:
                    tr = _inf.trace_cumulative_value(_torch.tensor([o["x"] * P0.u], dtype=_torch.float32), tr,
                                                     decay=_math.exp(-P0.dt / P0.tau), scale=P0.S)
                got = float(tr.reshape(-1)[0])
                n += 1
                chk.nontrivial.add(("functional", "value", k, pd["dt"]))
                from ..symeval import close
                if not close(exp, got, mag):
                    chk.violation({"clause": "FoldEqClosed", "site": "functional", "kind": "value", "variant": "plain"},
                                  {"history": hist, "params": P0.asdict(), "expected": exp, "observed": got,
                                   "closed_form": peek})
    chk.evaluations += n
    chk.extra["functional_folds"] = chk.extra.get("functional_folds", 0) + n
    chk.note(f"functional trace_* folds: {n} (history x parameter set x entry point)")


def g_dur(g):
    return max(s["m"]["ring"]["durk"] for s in g.states.values())


# ------------------------------------------------------------------ direction B
CK, KS = 8, 20


def half_life_tau(dt):
    """a time constant for which the implementation's decay exp(-dt/tau) is exactly 1/2"""
    t = dt / math.log(2.0)
    for _ in range(64):
        d = math.exp(-dt / t)
        if d == 0.5:
            return t
        t = math.nextafter(t, math.inf if d < 0.5 else -math.inf)
    return None


def dv(rk, x, P):
    if math.isnan(x):
        return {"k": "nan"}
    if math.isinf(x):
        return {"k": "inf"} if x > 0 else {"k": "bad"}
    if rk in EVENT_KINDS:
        q = x / P.tick
        return {"k": "i", "i": int(round(q))} if abs(q - round(q)) < 1e-6 else {"k": "bad"}
    if rk == "ca":
        f = Fraction(x / P.u).limit_denominator(64)
        return {"k": "q", "num": f.numerator, "den": f.denominator} if abs(float(f) - x / P.u) < 1e-6 else {"k": "bad"}
    y = x * (1 << KS)
    return {"k": "i", "i": int(round(y))} if abs(y - round(y)) < 2 ** -8 and abs(y) < 2 ** 31 else {"k": "bad"}


def dv_ret(rk, ret, P):
    t = ret.get("t")
    if t == "val":
        return {"t": "val", "v": [dv(rk, x, P) for x in ret["v"]]}
    if t == "view":
        return {"t": "view", "r": [dv(rk, x, P) for x in ret["r"]]}
    if t == "dump":
        return {"t": "dump", "vs": [[dv(rk, x, P) for x in row] for row in ret["vs"]]}
    return ret


def dv_state(rk, proj, P):
    return {"init": proj["init"], "kind": proj["kind"], "n": proj["n"], "ptr": proj["ptr"],
            "store": [[dv(rk, x, P) for x in row] for row in proj["store"]]}


def random_traces(rng, count, steps):
    traces = []
    kinds = sorted(CLASS)
    for ti in range(count):
        rk = kinds[ti % len(kinds)]
        D = rng.choice([1, 2, 4])
        dt = rng.choice([1.0, 0.5, 0.25])
        tau = half_life_tau(dt)
        if tau is None:
            continue   # recipe not available on this platform: skipped, never failed
        A = rng.choice([1.0, 0.5, 0.25, 2.0, -1.0, -0.5])
        S = rng.choice([1.0, 0.5, -0.5, 2.0])
        u = rng.choice([1.0, 0.5, 2.0])
        P = Params(dt=dt, D=D, tau=tau, A=A, S=S, u=u, alpha=0.5, target=1, obsmode=rng.choice(["float", "tol", "edge"]),
                   f64=rng.random() < 0.3,
                   exact=True)
        shape = rng.choice([(1,), (2,), (3,), (2, 2), (2, 3)])
        E = math.prod(shape)
        durk = rng.choice([0, D, 2 * D, 3 * D, 4 * D, D + D // 2])
        incl = rng.random() < 0.5
        hdr = {"rk": rk, "durk": durk, "incl": incl, "shape": shape, "inplace": rng.random() < 0.5, "params": P}
        impl = ReducerImpl(hdr)
        N = impl.project()["n"]
        srk = SPEC_KIND[rk]
        evs, since = [], 0
        for _ in range(steps):
            r = rng.random()
            if since >= 11:
                o = {"a": "clear", "keep": rng.random() < 0.5}
            elif r < 0.55:
                if srk in ("near", "cum"):
                    v = [{"x": x, "m": x == 1} for x in (rng.randint(0, 2) for _ in range(E))]
                elif srk in ("snear", "scum"):
                    v = [{"x": rng.randint(0, 3), "m": rng.random() < 0.5} for _ in range(E)]
                elif srk in EVENT_KINDS:
                    v = [{"x": 0, "m": rng.random() < 0.4} for _ in range(E)]
                else:
                    v = [{"x": rng.randint(0, 3), "m": False} for _ in range(E)]
                o = {"a": "obs", "v": v}
            elif r < 0.63:
                o = {"a": "peek"}
            elif r < 0.71:
                o = {"a": "dump"}
            elif r < 0.92:
                offgrid_ok = srk == "pass" or srk in EVENT_KINDS
                def tau_pick():
                    z = rng.random()
                    if z < 0.08:
                        return rng.choice([-2, -1, D * (N - 1) + 1, D * (N - 1) + 2, D * N])
                    if offgrid_ok and z < 0.4:
                        return rng.randint(0, D * (N - 1))
                    return D * rng.randint(0, N - 1)
                if rng.random() < 0.5:
                    o = {"a": "view", "tens": True, "tauv": [tau_pick() for _ in range(E)], "tol2": 1}
                else:
                    o = {"a": "view", "tens": False, "tau": tau_pick(), "tol2": 1}
            else:
                o = {"a": "clear", "keep": rng.random() < 0.5}
            ret = impl.apply(o)
            since = since + 1 if o["a"] == "obs" else (0 if o["a"] == "clear" else since)
            evs.append({"op": o, "ret": dv_ret(srk, ret, P), "st": dv_state(srk, impl.project(), P)})
        cs = {k: int(round(v * (1 << CK))) for k, v in P.consts.items()}
        if any(abs(v * (1 << CK) - round(v * (1 << CK))) > 0 for v in P.consts.values()):
            raise MachineryFailure("dyadic recipe: constant not a multiple of 2^-CK")
        traces.append({"hdr": {"rk": srk, "dtk": D, "durk": durk, "incl": incl, "cs": cs, "ck": CK, "K": KS,
                               "waive": [], "cfg": {"cls": CLASS[rk], "kind": rk, "shape": list(shape),
                                                    "inplace": hdr["inplace"], "params": P.asdict()}},
                       "ev": evs})
    return traces


def validate(chk: Check, traces, report=True, shards=8):
    stats, rej = tracecheck.validate("ReducersTrace", traces, shards=shards)
    if report:
        chk.traces += len(traces)
        chk.states += stats["distinct"]
        chk.transitions += stats["generated"]
        nev = 0
        for ti, t in enumerate(traces):
            for j, e in enumerate(t["ev"]):
                nev += 1
                if not e["st"]["init"]:
                    chk.nontrivial.add(("trace", ti, j))
        chk.evaluations += nev
        chk.extra["trace_events"] = nev
        chk.note(f"traces: {len(traces)} dyadic traces, {nev} events, rejected lines={len(rej)}")
        chk.sample({"kind": "trace", "cfg": traces[0]["hdr"]["cfg"], "first_events": traces[0]["ev"][:3]})
        for r in rej:
            t = traces[r["trace"]]
            exp = (r["diag"] or {}).get("expected")
            ev = r["event"]
            clause = "Unexplained"
            if exp:
                if not any(canon(x["ret"]) == canon(ev["ret"]) for x in exp):
                    clause = "RetOK"
                elif not any(canon(x["st"]) == canon(ev["st"]) for x in exp):
                    clause = "StateOK"
                else:
                    clause = "AbsOK"
            chk.violation({"clause": clause, "op": ev["op"]["a"], "site": "dyadic-trace", "cls": t["hdr"]["cfg"]["cls"],
                           "kind": t["hdr"]["cfg"]["kind"], "inplace": t["hdr"]["cfg"]["inplace"]},
                          {"cfg": t["hdr"]["cfg"], "hdr": {k: v for k, v in t["hdr"].items() if k != "cfg"},
                           "ops": [e["op"] for e in t["ev"][: r["line"]]], "line": r["line"],
                           "expected": exp, "observed": {"ret": ev["ret"], "st": ev["st"]}})
    return stats, rej


# ------------------------------------------------------------------ the check
def run(tier: str, seed: int) -> int:
    chk = Check(PID, tier, seed)
    rng = random.Random(seed)
    chk.extra["rule"] = ("MC: every (state, operation) pair of the bounded reducer model (state = observation list since "
                         "the last clear + ring). Replay: one execution per (sampled state, operation) of the emitted "
                         "outcome tables per reducer class / in-place mode / parameter set. A case is non-trivial and "
                         "distinct when it is a distinct (class, mode, state with at least one observation, operation) "
                         "executed on a real reducer, a distinct (history, entry point, parameter set) functional fold, "
                         "or a distinct accepted trace event on a reducer holding observations.")
    chk.assumptions += [
        "view() is called with an explicit tolerance of (tol + 1/2) tick so that on-grid detection never depends on "
        "float rounding of time/dt (tolerance 1e-7 semantics are exercised only with dyadic step times)",
        "numeric agreement outside the dyadic recipe is rtol 1e-5 / atol 1e-6 relative to the magnitude of the terms",
        "criterion callables are probes returning a prescribed mask (their argument must be the observation)",
    ]
    import time as _t
    t0 = _t.time()
    if tier == "quick":
        gens = [("gen-T3", consts(ALL_SPEC_KINDS, 3, {0, 1, 2}, durs=(0, 8), incls=(True,), tols=(0, 1)), 12),
                ("gen-T5-target", consts({"near", "cum", "ev_zero"}, 6, {0, 1}, durs=(8,), incls=(False,), tols=(0,)), 16),
                ("gen-setdt-T3", consts({"cum", "near", "scum", "ev_zero", "ema"}, 4, {0, 1}, durs=(0,), incls=(False,),
                                        tols=(0,), dtset=(2, 4)), 16),
                ("gen-E2-T2", consts({"cum", "ev_zero", "pass", "ca"}, 2, {0, 1}, durs=(8,), incls=(True,), E0=2,
                                     tols=(0,), tens=True), 6)]
        nparams = 2
    else:
        gens = [("gen-target-T5", consts({"near", "cum"}, 5, {0, 1}, durs=(0, 8), incls=(True, False), tols=(0, 1)), 150),
                ("gen-scaled-T3", consts({"snear", "scum"}, 3, {0, 1, 2}, durs=(0, 8), incls=(True, False), tols=(0, 1)), 150),
                ("gen-event-T5", consts({"ev_inf", "ev_nan", "ev_zero"}, 5, {0}, durs=(0, 8), incls=(True, False),
                                        tols=(0, 1)), 150),
                ("gen-stats-T4", consts({"pass", "ema", "ca"}, 4, {0, 1, 2}, durs=(0, 8), incls=(True, False),
                                        tols=(0, 1)), 150),
                ("gen-setdt-T4", consts(ALL_SPEC_KINDS, 5, {0, 1}, durs=(0,), incls=(False,), tols=(0,),
                                        dtset=(2, 4, 6)), 200),
                ("gen-E2-T2", consts(ALL_SPEC_KINDS - {"snear", "scum"}, 2, {0, 1}, durs=(8,), incls=(True, False), E0=2,
                                     tols=(0, 1), tens=True), 40)]
        nparams = 4
    # the generation runs (one TLC worker each) overlap with the model-checking runs
    gen_pool = ThreadPoolExecutor(max_workers=6)
    gen_futs = [gen_pool.submit(gen_graph, chk, it[0], it[1]) for it in gens]
    # ---- T
    run_mc(chk, mc_configs(tier))
    chk.note(f"phase mc: {_t.time() - t0:.1f}s")
    t0 = _t.time()

    # ---- A
    graphs = [f.result() for f in gen_futs]
    gen_pool.shutdown()
    chk.note(f"phase gen: {_t.time() - t0:.1f}s")
    t0 = _t.time()
    first = True
    for (name, c, max_states), g in zip(gens, graphs):
        chk.note(f"graph {name}: {len(g.states)} states, {g.n_edges} (state, operation) outcomes")
        tot_e = tot_m = 0
        for rk in sorted(CLASS):
            if SPEC_KIND[rk] not in c["Kinds"]:
                continue
            for durk in sorted(c["DurSet"]):
                for incl in sorted(c["InclSet"]):
                    for inplace in (False, True):
                        for pi in range(nparams):
                            if tier == "quick":
                                # quick: each mode sees one parameter set (rotating), thorough: the cross product
                                if pi != int(inplace):
                                    continue
                                pd = PARAM_SETS[(pi + len(rk) + durk // 4) % len(PARAM_SETS)]
                            else:
                                # thorough: every parameter set meets every class, split between the two modes
                                if (pi + int(inplace) + (durk // 4)) % 2 == 0:
                                    continue
                                pd = PARAM_SETS[pi]
                            mode = "float"
                            if rk in ("near", "cum"):
                                mode = ["float", "tol", "bool", "edge"][pi]
                                if mode == "bool":
                                    pd = dict(pd, u=1.0)
                            P = Params(D=c["Dt0"], obsmode=mode, f64=(mode != "bool" and rng.random() < 0.3), **pd)
                            st, mism = replay_class(chk, g, rk, durk, incl, P, inplace, rng, max_states, E=c["E0"])
                            tot_e += st.edges
                            tot_m += st.mismatches
                            if first and st.pairs:
                                k, o = next(iter(st.pairs))
                                chk.sample({"kind": "replayed-edge", "cls": CLASS[rk], "params": P.asdict(), "op": o,
                                            "state_hist": g.states[k]["h"]})
                                first = False
        chk.note(f"replay {name}: {tot_e} (state, operation) pairs executed over all classes, mismatches={tot_m}")
        if not c["DtSet"]:
            functional_replay(chk, g, rng, 150 if tier == "quick" else 600)

    chk.note(f"phase replay: {_t.time() - t0:.1f}s")
    t0 = _t.time()
    # canary A: an implementation that reports a slightly wrong latest value / a reversed dump must be caught
    g0 = graphs[0]
    P = Params(D=gens[0][1]["Dt0"], **PARAM_SETS[0])

    def deviate(op, ret, proj):
        if ret.get("t") == "dump" and len(ret["vs"]) > 1:
            ret = dict(ret, vs=list(reversed(ret["vs"])))
        if ret.get("t") == "val":
            ret = dict(ret, v=[x * 1.001 + 1e-4 for x in ret["v"]])
        return ret, proj
    stc, mism = replay_class(chk, g0, "cum", 8, True, P, False, rng, 40, deviate=deviate, report=False)
    clauses = {(m[0]["clause"], m[0]["op"]) for m in mism}
    if ("RetOK", "peek") not in clauses or ("RetOK", "dump") not in clauses:
        raise MachineryFailure(f"canary: deviating replay was not rejected (got {clauses})")
    chk.extra["canary_replay_mismatches"] = len(mism)
    chk.note(f"canary: deviating replay rejected ({len(mism)} mismatches)")

    # ---- B
    ntr = 240 if tier == "quick" else 1200
    traces = random_traces(rng, ntr, steps=30 if tier == "quick" else 40)
    if not traces:
        chk.note("dyadic recipe unavailable: no traces")
    else:
        _, rej0 = validate(chk, traces)
        rejected = {r["trace"] for r in rej0}
        good = copy.deepcopy(next(t for i, t in enumerate(traces) if i not in rejected and i % 12 == 1))
        good["hdr"]["waive"] = []
        bad = copy.deepcopy(good)
        line = None
        for i, e in enumerate(bad["ev"]):
            if not e["st"]["init"] and e["st"]["store"] and e["st"]["store"][0][0].get("k") in ("i", "q"):
                cell = e["st"]["store"][(e["st"]["ptr"] - 1) % e["st"]["n"]][0]
                if cell.get("k") == "i":
                    cell["i"] += 1
                elif cell.get("k") == "q":
                    cell["num"] += 1
                else:
                    continue
                line = i + 1
                break
        if line is None:
            raise MachineryFailure("canary: no event to corrupt")
        _, rej = tracecheck.validate("ReducersTrace", [good, bad], shards=1, max_waive_rounds=1)
        got = {(r["trace"], r["line"]) for r in rej}
        if (1, line) not in got or any(t == 0 for t, _ in got):
            raise MachineryFailure(f"canary: corrupted trace not rejected at line {line} (got {got})")
        chk.extra["canary_trace_rejected_at_line"] = line
        chk.note(f"canary: corrupted trace rejected at line {line}")
    chk.note(f"phase traces: {_t.time() - t0:.1f}s")
    return chk.finish()


def replay(path: str) -> int:
    import json
    from .. import symcommon
    doc = json.loads(open(path).read())
    sig, rep = doc["signature"], doc["replay"]
    if sig.get("site", "").startswith("graph-replay"):
        P = Params(**rep["params"])
        hdr = dict(rep["hdr"], params=P)
        return symcommon.rerun_graph_record(PID, doc, lambda: ReducerImpl(hdr), Matcher(P))
    if sig.get("site") == "functional":
        from ..symeval import close
        P = Params(**rep["params"])
        got = functional_fold(sig["kind"], sig["variant"], P, rep["history"])
        exp, mag = P.value(rep["closed_form"])
        if not close(exp, got, mag):
            print(f"VIOLATION property={PID} replay=(re-executed) functional fold {got!r}, closed form {exp!r}")
            return 1
        print(f"[{PID}] replay: the recorded behaviour now conforms to the specification")
        return 0
    if sig.get("site") == "dyadic-trace":
        cfg = rep["cfg"]
        P = Params(**cfg["params"])
        impl = ReducerImpl({"rk": cfg["kind"], "durk": rep["hdr"]["durk"], "incl": rep["hdr"]["incl"],
                            "shape": tuple(cfg["shape"]), "inplace": cfg["inplace"], "params": P})
        srk = SPEC_KIND[cfg["kind"]]
        evs = []
        for o in rep["ops"]:
            ret = impl.apply(o)
            evs.append({"op": o, "ret": dv_ret(srk, ret, P), "st": dv_state(srk, impl.project(), P)})
        _, rej = tracecheck.validate("ReducersTrace", [{"hdr": dict(rep["hdr"], waive=[], cfg=cfg), "ev": evs}], shards=1)
        if rej:
            print(f"VIOLATION property={PID} replay=(re-executed) trace rejected at line {rej[0]['line']}")
            return 1
        print(f"[{PID}] replay: the recorded execution is now accepted by the trace specification")
        return 0
    print(f"[{PID}] replay: specification-level counterexample (TLC output recorded in the file)")
    return 1
