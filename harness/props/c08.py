"""C08 - STDP-family weight changes equal the documented sum over spike pairs.

T: TLC checks, for EVERY pre/post spike history up to T steps, every rule (pair STDP,
   triplet, reward-modulated, eligibility-trace), both trace modes, delays 0..2 steps and both
   trainer modes, that the recurrence the trainers implement (Mech: reducers' traces, delayed
   views, eligibility filter, triplet factor, LTP/LTD routing) requests exactly the documented
   pair sum (Abs), as an identity between symbolic values (spec/STDPSym.tla).
A: TLC prints the specified signed change of every (history, next step); the harness drives
   the REAL trainers on (i) a dense population in which every (pre history, post history)
   pair is one synapse, (ii) 1x1 cells with batches, reductions and per-sample rewards, and
   compares accumulators per step and the weight after update() with the evaluated values.
B: random populations on dense / direct / lateral / conv cells with batches in the dyadic
   recipe; the recorded per-weight streams are validated exactly by TLC (spec/STDPTrace.tla).
"""
from __future__ import annotations
import random
from concurrent.futures import ThreadPoolExecutor
from ..core import Check, MachineryFailure
from ..stdp_eval import evaluate, stdp_params
from .stdp_common import run_tlc, emitted, bits, Mismatch, compare, c08_hp, spec_rule, with_form, multi_cells
from . import stdp_traces

PID = "C08"
INVARIANTS = ["TypeOK", "Refinement", "TracesClosedForm", "RoutingOK"]
VARIANTS = ("stdp", "stable_stdp", "triplet", "stable_triplet", "mstdp", "mstdpet")
SIGNS = ((1, -1), (-1, 1), (1, 1), (-1, -1))     # hebbian, anti-hebbian, potentiative, depressive
RTOK = (-1, 0, 1, 2)


def constants(T, T3, delayed=(False, True), rules=("stdp", "mstdp", "mstdpet", "triplet")):
    return dict(RuleSet=set(rules), ModeSet={"cumulative", "nearest"}, DSet={0, 1, 2}, DelayedSet=set(delayed),
                RPos={0, 1, 2}, RNegMag={1}, T=T, T3=T3)


def load_tables(docs):
    tab = {}
    for doc in docs:
        c = doc["s"]["cfg"]
        key = (c["rule"], c["mode"], c["d"])
        tab.setdefault(key, {})[(tuple(doc["s"]["x"]), tuple(doc["s"]["y"]))] = {
            (o["op"]["x"], o["op"]["y"], o["op"]["r"]): o["dw"] for o in doc["out"]}
    return tab


def expected(tab, rule, mode, d, xh, yh, t, r):
    """Specified signed change of step t (0-based) of histories xh, yh under reward token r."""
    return tab[(rule, mode, d)][(xh[:t], yh[:t])][(xh[t], yh[t], r)]


def horizon(tier, rule):
    three = rule in ("mstdp", "mstdpet")
    if tier == "quick":
        return 3 if three else 4
    return 4 if three else 5


# ------------------------------------------------------------------ binding A (i): population
def hp_keys(hp):
    return [k for k in hp if k.startswith("lr_") or k.startswith("tc_")]


def population(chk, tab, mm, *, variant, mode, delayed, sp, sn, dt, dyadic, shift, T, rng, deviate=None,
               count=True, form="float", via="ctor"):
    """Dense n x n cell, n = 2^T: input i carries pre history H[i], output o is forced to post
    history H[o]; synapse (o, i) has delay (o + i + shift) mod 3 steps (shift None: a
    connection without delays).  Every (pre, post) history pair is one synapse."""
    import torch
    from ..impl_stdp import Run
    rule = spec_rule(variant)
    H = bits(T)
    n = len(H)
    hp = c08_hp(variant, mode, sp, sn, dt, rng, dyadic, delayed)
    hp = with_form(hp, hp_keys(hp), form, rng)
    D = [[0 if shift is None else (o + i + shift) % 3 for i in range(n)] for o in range(n)]
    hdr = {"rule": variant, "hp": hp, "conn": {"kind": "dense", "M": n, "N": n}, "dt": dt, "B": 1,
           "reduction": rng.choice(["sum", "mean"]), "dmax": None if shift is None else 2, "delay": D, "via": via}
    sig = {"site": "population", "rule": variant, "mode": mode, "delayed": bool(delayed and shift is not None),
           "delays": shift is not None, "form": form, "via": via}
    three = rule in ("mstdp", "mstdpet")
    try:
        run = Run(hdr)
    except Exception as e:  # constructing / registering must not fail for a documented configuration
        mm.add(dict(sig, clause="Raised", where="register", exc=type(e).__name__), {"hdr": hdr, "error": repr(e)})
        return 0
    total = [[0.0] * n for _ in range(n)]
    steps = []
    edges = 0
    for t in range(T):
        x = torch.tensor([[bool(h[t]) for h in H]])
        y = torch.tensor([[bool(h[t]) for h in H]])
        r = rng.choice(RTOK) if three else 1
        unit = rng.choice([1.0, 0.7, 0.5]) if three and not dyadic else 1.0
        scale = rng.choice([1.0, 0.5, 2.0]) if three else 1.0
        steps.append({"r": r, "unit": unit, "scale": scale})
        try:
            pos, neg = run.step(x, y, signal=r * unit, scale=scale)
        except Exception as e:
            mm.add(dict(sig, clause="Raised", where="step", exc=type(e).__name__),
                   {"hdr": hdr, "steps": steps, "t": t, "error": repr(e)})
            return edges
        P = stdp_params(dict(hp, scale=unit * scale), dt)
        for o in range(n):
            for i in range(n):
                d = D[o][i]
                bag = expected(tab, rule, mode, (d + 1) % 3 if deviate == "delay" else d, H[i], H[o], t, r)
                ep, en = evaluate(bag, P)
                total[o][i] += ep - en
                gp, gn = float(pos[o][i]), float(neg[o][i])
                if deviate == "observed" and (o, i) == (n - 1, n - 1):
                    gp += 1e-3
                edges += 1
                if bag and count:
                    chk.nontrivial.add((rule, mode, d, H[i][:t + 1], H[o][:t + 1], r))
                    if t == T - 1 and len(bag) > 1 and not chk.extra.get("_s"):
                        chk.extra["_s"] = 1
                        chk.sample({"kind": "replayed-step", "trainer": variant, "mode": mode, "delayed": delayed,
                                    "dt": dt, "pre": H[i], "post": H[o], "delay_steps": d, "step": t + 1,
                                    "specified": bag, "evaluated": {"pos": ep, "neg": en},
                                    "observed": {"pos": gp, "neg": gn}})
                if not (compare(ep, gp) and compare(en, gn)):
                    mm.add(dict(sig, clause="PosOK" if not compare(ep, gp) else "NegOK"),
                           {"hdr": hdr, "steps": steps, "t": t, "T": T, "pre": H[i], "post": H[o], "o": o, "i": i,
                            "delay_steps": d, "expected": {"pos": ep, "neg": en, "value": bag},
                            "observed": {"pos": gp, "neg": gn}})
                    if len(mm) > 40:
                        return edges
    w = run.value()
    for o in range(n):
        for i in range(n):
            if not compare(total[o][i], float(w[o][i]), atol=1e-6 * T):
                mm.add(dict(sig, clause="WeightOK"),
                       {"hdr": hdr, "steps": steps, "pre": H[i], "post": H[o], "delay_steps": D[o][i],
                        "expected": total[o][i], "observed": float(w[o][i])})
                return edges
    return edges


# ------------------------------------------------------------------ binding A (ii): 1x1 cells
def cell_1x1(chk, tab, mm, *, variant, mode, delayed, sp, sn, dt, dyadic, d, B, reduction, persample, T, rng,
             count=True, form="float", via="ctor"):
    """Serial(LinearDense 1->1 + DeltaCurrent, ExactNeuron), batch B: one history pair per
    sample; scalar or per-sample reward; compare per step and after update()."""
    import torch
    from ..impl_stdp import Run
    rule = spec_rule(variant)
    three = rule in ("mstdp", "mstdpet")
    if three and persample:
        reduction = "sum"   # documented: with per-sample signals the parts are split before reducing
    hp = c08_hp(variant, mode, sp, sn, dt, rng, dyadic, delayed)
    hp = with_form(hp, hp_keys(hp), form, rng)
    xs = [tuple(rng.randint(0, 1) for _ in range(T)) for _ in range(B)]
    ys = [tuple(rng.randint(0, 1) for _ in range(T)) for _ in range(B)]
    hdr = {"rule": variant, "hp": hp, "conn": {"kind": "dense", "M": 1, "N": 1}, "dt": dt, "B": B,
           "reduction": reduction, "dmax": None if d is None else 2, "delay": d, "via": via}
    sig = {"site": "cell-1x1", "rule": variant, "mode": mode, "delayed": bool(delayed and d is not None),
           "delays": d is not None, "form": form, "via": via}
    dd = 0 if d is None else d
    try:
        run = Run(hdr)
    except Exception as e:
        mm.add(dict(sig, clause="Raised", where="register", exc=type(e).__name__), {"hdr": hdr, "error": repr(e)})
        return 0
    total, steps, edges = 0.0, [], 0
    for t in range(T):
        x = torch.tensor([[bool(xs[b][t])] for b in range(B)])
        y = torch.tensor([[bool(ys[b][t])] for b in range(B)])
        unit = rng.choice([1.0, 0.7]) if three and not dyadic else 1.0
        scale = rng.choice([1.0, 0.5, -0.5]) if three else 1.0      # documented: the absolute value of the scale is used
        if three and persample:
            rs = [rng.choice(RTOK) for _ in range(B)]
            # (whole-number rewards also as an INTEGER tensor, e.g. +-1 straight from torch.randint: the scale stays fractional)
            sdt = torch.int64 if (unit == 1.0 and rng.random() < 0.4) else torch.float32
            signal = torch.tensor([r * unit for r in rs], dtype=sdt)
        else:
            r = rng.choice(RTOK) if three else 1
            rs = [r] * B
            signal = r * unit
        steps.append({"r": rs, "unit": unit, "scale": scale})
        try:
            pos, neg = run.step(x, y, signal=signal, scale=scale)
        except Exception as e:
            mm.add(dict(sig, clause="Raised", where="step", exc=type(e).__name__),
                   {"hdr": hdr, "pre": xs, "post": ys, "steps": steps, "t": t, "error": repr(e)})
            return edges
        P = stdp_params(dict(hp, scale=unit * abs(scale)), dt)
        ep = en = 0.0
        for b in range(B):
            bag = expected(tab, rule, mode, dd, xs[b], ys[b], t, rs[b])
            p, q = evaluate(bag, P)
            ep, en = ep + p, en + q
            edges += 1
            if bag and count:
                chk.nontrivial.add((rule, mode, dd, xs[b][:t + 1], ys[b][:t + 1], rs[b]))
        if reduction == "mean":
            ep, en = ep / B, en / B
        total += ep - en
        gp, gn = float(pos.reshape(-1)[0]), float(neg.reshape(-1)[0])
        if not (compare(ep, gp) and compare(en, gn)):
            mm.add(dict(sig, clause="PosOK" if not compare(ep, gp) else "NegOK"),
                   {"hdr": hdr, "pre": xs, "post": ys, "steps": steps, "t": t, "persample": bool(persample),
                    "expected": {"pos": ep, "neg": en}, "observed": {"pos": gp, "neg": gn}})
            return edges
    w = float(run.value().reshape(-1)[0])
    if not compare(total, w, atol=1e-6 * T):
        mm.add(dict(sig, clause="WeightOK"), {"hdr": hdr, "pre": xs, "post": ys, "steps": steps,
                                              "expected": total, "observed": w})
    return edges


# ------------------------------------------------------------------ several cells on one trainer
POOL_DIMS = ("lr", "sign", "mode", "tc", "delayed", "delay")


def cells_on_one_trainer(chk, tab, mm, *, variant, rng, T, guards, force=None, kind=None):
    rule = spec_rule(variant)
    three = rule in ("mstdp", "mstdpet")
    n = 3 if guards else 2
    dyadic = rng.random() < 0.25
    hdrs = []
    for j in range(n):
        sp, sn = rng.choice(SIGNS)
        dt = rng.choice([1.0, 0.5]) if dyadic else rng.choice([1.0, 1.3])
        d = rng.choice([None, 0, 1, 2])
        hp = c08_hp(variant, rng.choice(["cumulative", "nearest"]), sp, sn, dt, rng, dyadic,
                    variant != "mstdpet" and rng.random() < 0.5)
        hp = with_form(hp, hp_keys(hp), rng.choice(["float", "t0", "mixed"]), rng)
        hdrs.append({"rule": variant, "hp": hp, "conn": {"kind": "dense", "M": 1, "N": 1}, "dt": dt, "B": 1,
                     "reduction": rng.choice(["sum", "mean"]), "dmax": None if d is None else 2, "delay": d})
    if force or (not guards and rng.random() < 0.5):
        # the cells are two connections of ONE Biclique into ONE neuron group (same step time): candidates for
        # monitor pooling.  Half of these runs differ ONLY in the learning rates, so that every monitor whose
        # configuration does not depend on them is legitimately shared and every other one must not be.
        # (a third of them instead ONE connection into SEVERAL neuron groups: the presynaptic-side monitors are the
        #  pooling candidates, the delayed flag among the things that may differ, and the one updater sums the cells)
        kind = kind or ("conn" if rng.random() < 0.34 else True)
        for h in hdrs:
            h["shared"], h["dt"] = kind, hdrs[0]["dt"]
            if kind == "conn":
                h["delay"], h["dmax"] = hdrs[0]["delay"], hdrs[0]["dmax"]
        if force or rng.random() < 0.65:
            if force in ("delay", "delayed") and hdrs[0]["dmax"] is None:
                hdrs[0]["dmax"], hdrs[0]["delay"] = 2, rng.choice([0, 1, 2])
            for h in hdrs[1:]:
                form = h["hp"].get("form")
                h["hp"] = dict(hdrs[0]["hp"])
                # ONE thing differs, every other hyperparameter is shared: exactly the monitors whose configuration
                # involves that thing must be private to the cell (found D48: MSTDPET pooled the trace monitors of a
                # cumulative-mode and a nearest-mode cell)
                lrs = [k for k in h["hp"] if k.startswith("lr_")]
                tcs = [k for k in h["hp"] if k.startswith("tc_")]
                what = force or rng.choice(["lr", "lr", "sign", "mode", "mode", "tc", "delayed", "delay"])
                h["delay"], h["dmax"] = hdrs[0]["delay"], hdrs[0]["dmax"]
                if what == "lr":
                    k = rng.choice(lrs)
                    h["hp"][k] = h["hp"][k] * rng.choice([0.5, 2.0, 0.25])
                elif what == "sign":        # same magnitude: the traces may be shared, the LTP/LTD routing may not
                    k = rng.choice([k for k in lrs if "triplet" not in k])
                    h["hp"][k] = -h["hp"][k]
                elif what == "mode":
                    h["hp"]["mode"] = "nearest" if h["hp"]["mode"] == "cumulative" else "cumulative"
                elif what == "tc":
                    k = rng.choice(tcs)
                    fac = 2.0 if (dyadic or "slow" in k) else rng.choice([0.5, 2.0])
                    if "fast" in k:         # keep the documented slow/fast relation of the triplet rule's pairs
                        fac = 0.5
                    h["hp"][k] = h["hp"][k] * fac
                elif what == "delayed" and "delayed" in h["hp"]:
                    h["hp"]["delayed"] = not h["hp"]["delayed"]
                elif h["dmax"] is not None and kind != "conn":
                    h["delay"] = (int(h["delay"] or 0) + rng.choice([1, 2])) % 3
                h["differs"] = what
                if form is not None:
                    h["hp"]["form"] = hdrs[0]["hp"].get("form")

    def expect(j, xh, yh, t, r, _d):
        return [expected(tab, rule, hdrs[j]["hp"]["mode"], hdrs[j]["delay"] or 0, xh, yh, t, r)]

    def params(j, factor):
        return stdp_params(dict(hdrs[j]["hp"], scale=factor), hdrs[j]["dt"])

    def on_edge(j, xh, yh, t, r, _d):
        chk.nontrivial.add(("multi", rule, hdrs[j]["hp"]["mode"], hdrs[j]["delay"] or 0, xh[:t + 1], yh[:t + 1], r))

    return multi_cells(chk, mm, variant=variant, hdrs=hdrs, via=rng.choice(["ctor", "override"]), T=T, rng=rng,
                       three=three, dyadic=dyadic, expect=expect, params=params, guards=guards, on_edge=on_edge,
                       dense=bool(force))


# ------------------------------------------------------------------ the check
def run(tier: str, seed: int) -> int:
    chk = Check(PID, tier, seed)
    rng = random.Random(seed)
    chk.extra["rule"] = ("MC: every history up to T steps x rule x trace mode x delay x trainer mode, all next "
                         "steps. A non-trivial case is a distinct (rule, trace mode, delay, pre history, post "
                         "history, reward token) whose specified change is non-zero and which was executed on a "
                         "real trainer and compared.")
    quick = tier == "quick"
    Tmc, T3mc = (5, 4) if quick else (7, 5)
    Tg, T3g = (4, 3) if quick else (6, 4)

    pool = ThreadPoolExecutor(max_workers=2)
    fut_mc = pool.submit(run_tlc, chk, "STDPMC", "mc", constants(Tmc, T3mc), INVARIANTS, 4 if quick else 8)
    gen = run_tlc(chk, "STDPMC", "gen", constants(Tg, T3g, delayed=(False,)), ["Emit"], workers=1)
    docs = emitted(gen)
    if len(docs) != gen.distinct or not docs:
        raise MachineryFailure(f"emitted {len(docs)} outcome tables, TLC reports {gen.distinct} states")
    chk.add_tlc("gen", gen)
    tab = load_tables(docs)
    chk.note(f"gen: {gen.distinct} states with outcome tables, {gen.wall:.1f}s")

    mm = Mismatch(chk)
    edges = 0
    # (i) population: every (pre, post) history pair is a synapse
    for variant in VARIANTS:
        T = Tg if spec_rule(variant) in ("stdp", "triplet") else T3g
        for mode in ("cumulative", "nearest"):
            for delayed in ((False,) if variant == "mstdpet" else (False, True)):
                for k, (sp, sn) in enumerate(SIGNS):
                    shifts = [None, 0, 1, 2] if not quick else [rng.choice([0, 1, 2])] + ([None] if k == 0 else [])
                    for shift in shifts:
                        # (shift None and delayed: the trainer asks for "delayed" on a connection
                        #  without delays - it must behave like the plain rule)
                        dyadic = rng.random() < 0.25
                        dt = rng.choice([1.0, 0.5]) if dyadic else rng.choice([1.0, 1.3])
                        before = len(mm)
                        edges += population(chk, tab, mm, variant=variant, mode=mode, delayed=delayed, sp=sp, sn=sn,
                                            dt=dt, dyadic=dyadic, shift=shift, T=T, rng=rng,
                                            form=rng.choice(["float", "t0", "mixed"]),
                                            via=rng.choice(["ctor", "override"]))
                        if len(mm) > before and len(mm) > 200:
                            break
    chk.note(f"population replay: {edges} (synapse, step) comparisons, mismatches={len(mm)}")
    chk.extra["population_comparisons"] = edges

    # (ii) 1x1 cells with batches / reductions / per-sample rewards
    n11 = 400 if quick else 5000
    e11 = 0
    for j in range(n11):
        variant = VARIANTS[j % len(VARIANTS)]
        T = Tg if spec_rule(variant) in ("stdp", "triplet") else T3g
        sp, sn = SIGNS[(j // len(VARIANTS)) % 4]
        d = rng.choice([None, 0, 1, 2])
        dyadic = rng.random() < 0.25
        e11 += cell_1x1(chk, tab, mm, variant=variant, mode=rng.choice(["cumulative", "nearest"]),
                        delayed=(variant != "mstdpet" and rng.random() < 0.5), sp=sp, sn=sn,
                        dt=(rng.choice([1.0, 0.5]) if dyadic else rng.choice([1.0, 1.3])), dyadic=dyadic, d=d,
                        B=rng.choice([1, 2, 3]), reduction=rng.choice(["sum", "mean"]),
                        persample=rng.random() < 0.5, T=T, rng=rng, form=rng.choice(["float", "t0", "mixed"]),
                        via=rng.choice(["ctor", "override"]))
    chk.note(f"1x1 cells: {n11} runs, {e11} (sample, step) comparisons, mismatches so far={len(mm)}")
    nmc = 216 if quick else 2400
    emc = 0
    for j in range(nmc):
        variant = VARIANTS[j % len(VARIANTS)]
        emc += cells_on_one_trainer(chk, tab, mm, variant=variant, rng=rng, guards=(j // len(VARIANTS)) % 3 == 0,
                                    T=Tg if spec_rule(variant) in ("stdp", "triplet") else T3g)
    # monitor pooling, one dimension at a time: two cells of one Biclique sharing the neuron group that differ in exactly
    # one thing (a learning rate, its sign, the trace mode, a time constant, the delayed flag, the delay)
    npool = 0
    for variant in VARIANTS:
        for what in POOL_DIMS:
            if what == "delayed" and variant == "mstdpet":
                continue
            for k in range(12 if quick else 80):
                if what == "delay" and k % 2:
                    continue
                emc += cells_on_one_trainer(chk, tab, mm, variant=variant, rng=rng, guards=False, force=what,
                                            kind="conn" if k % 2 else True,
                                            T=Tg if spec_rule(variant) in ("stdp", "triplet") else T3g)
                npool += 1
    nmc += npool
    chk.note(f"several cells on one trainer (own hyperparameters, cells=..., guards): {nmc} runs ({npool} of them two "
             f"pooled cells differing in one dimension), {emc} (cell, step) comparisons, mismatches so far={len(mm)}")
    e11 += emc
    chk.traces += nmc
    chk.extra["cell_runs"] = n11
    chk.evaluations += edges + e11
    chk.traces += n11
    doc = next((d for d in docs[len(docs) // 3:] if any(o["dw"] for o in d["out"])), docs[0])
    chk.sample({"kind": "outcome-table", "state": doc["s"], "out": [o for o in doc["out"] if o["dw"]][:2]})

    # B: random populations on dense / direct / lateral / conv cells, dyadic recipe, validated by TLC
    if stdp_traces.recipe_ok():
        def on_raise(c, ex):
            chk.violation({"clause": "Raised", "site": "trace-driver", "conn": c["conn"]["kind"],
                           "exc": type(ex).__name__, "rule": c["variant"], "delays": c["delays"],
                           "delayed": bool(c["hp"].get("delayed", False))},
                          {"family": "c08", "cell": c, "error": repr(ex)})
        traces = stdp_traces.c08_traces(chk, rng, 120 if quick else 2000, 5, 4, on_raise)
        kinds = {}
        for t in traces:
            kinds[t["meta"]["conn"]["kind"]] = kinds.get(t["meta"]["conn"]["kind"], 0) + 1
        for t in traces:
            for e in t["ev"]:
                if e["ret"]["pos"] or e["ret"]["neg"]:
                    chk.nontrivial.add(("trace", t["meta"]["conn"]["kind"], t["meta"]["variant"],
                                        str(e["st"]), str(e["op"]["r"])))
        rej = stdp_traces.validate(chk, "STDPTrace", traces, "trace", shards=4 if quick else 8)
        first = stdp_traces.accepted_trace(traces)
        chk.traces += len(traces)
        chk.evaluations += sum(len(t["ev"]) for t in traces)
        chk.note(f"trace validation: {len(traces)} per-weight traces {kinds}, rejected lines={rej}")
        if first:
            chk.sample({"kind": "validated-trace", "cfg": first["hdr"]["cfg"], "events": first["ev"][:2]})
            stdp_traces.canary(chk, "STDPTrace", first)
    else:
        chk.note("dyadic recipe unavailable on this platform (exp(-ln 2) != 1/2): trace validation skipped")

    # canaries: a deviating replay must be rejected
    for dev in ("delay", "observed"):
        cm = Mismatch(chk, report=False)
        population(chk, tab, cm, variant="stdp", mode="cumulative", delayed=False, sp=1, sn=-1, dt=1.0,
                   dyadic=False, shift=0, T=Tg, rng=random.Random(seed + 1), deviate=dev, count=False)
        if not len(cm):
            raise MachineryFailure(f"canary '{dev}' was accepted: the replay does not discriminate")
    chk.note("canaries rejected (wrong-delay expectation, perturbed observation)")

    chk.extra.pop("_s", None)
    res = fut_mc.result()
    chk.add_tlc("mc", res)
    chk.note(f"mc T={Tmc}/T3={T3mc}: {res.distinct} states, {res.generated} transitions, {res.wall:.1f}s, "
             f"violated={res.violated}")
    return chk.finish()


def replay(path: str) -> int:
    from .stdp_common import replay_file
    return replay_file(path, "c08", "STDPTrace")
