"""C09 - Every trainer's LTP/LTD split is non-negative and nets to the signed rule.

T: TLC checks exhaustively, over trainer kinds x sign classes of both learning rates x
   reward sign patterns (scalar and per-sample) x element sign patterns (clamp split) x
   (rate vs target), that the routing code transcribed in SplitCore (Mech) hands over only
   positive coefficients on non-negative magnitudes and that pos - neg is the signed rule
   monomial by monomial (Abs); direction properties; accumulation over several calls.
A: TLC prints the routing table of every configuration; the REAL trainers are run on small
   cells and `updater.<param>.pos/.neg` after `trainer(...)` is compared, part by part, with
   the table evaluated numerically (term magnitudes measured from reference runs of the
   same trainer under the documented Hebbian signs / one-hot rewards, the homeostasis
   magnitude from the documented formula and the forced spike history, probe kernels for
   the clamp split), plus element-wise sign, net = signed rule, direction on causal /
   anti-causal anchors, and recording bounding functions showing which part reached which
   bound.
"""
from __future__ import annotations
import itertools, random
from ..core import Check, MachineryFailure
from .. import tlc, graph
from ..impl_split import (torch, KINDS, NO_ZERO_RATE, CLAMP_KINDS, HOMEO_KINDS, REDS, Run, histories, site_of,
                          B, NI, NO, MAG1, MAG2, SIG_SCALAR, SIG_TENSOR, SCALE, TAU)

PID = "C09"
EN = 2
RTOL, ATOL = 1e-5, 1e-6
CLASSES = (-1, 0, 1)
LT_KINDS = {"DelayAdjustedSTDPD", "DelayAdjustedMSTDPD"}          # Hebbian is (eta_- < 0, eta_+ > 0)
DELAY_PARAM_KINDS = {"DelayAdjustedSTDPD", "DelayAdjustedMSTDPD", "DelayAdjustedKernelSTDPD", "HomeoDelay"}
MC_INVARIANTS = ["Split", "Direction", "Accumulated"]


# ------------------------------------------------------------------ T: model checking + tables
def model_check(chk: Check, tier: str):
    kinds = set(KINDS)
    runs = [("all-kinds-1call", dict(KindSet=kinds, B=2, EN=EN, MaxCalls=1)),
            ("match-kinds-2calls", dict(KindSet=kinds - CLAMP_KINDS - HOMEO_KINDS, B=2, EN=EN, MaxCalls=2)),
            ("homeo-2calls", dict(KindSet=kinds & HOMEO_KINDS, B=2, EN=EN, MaxCalls=2))]
    if tier == "thorough":
        runs += [("match-kinds-B3-2calls", dict(KindSet=kinds - CLAMP_KINDS - HOMEO_KINDS, B=3, EN=EN, MaxCalls=2)),
                 ("clamp-EN3", dict(KindSet=kinds & (CLAMP_KINDS | HOMEO_KINDS), B=2, EN=3, MaxCalls=1)),
                 ("clamp-2calls", dict(KindSet={"KernelSTDP"}, B=2, EN=2, MaxCalls=2))]
    for name, c in runs:
        cfg = tlc.cfg_text(constants=c, invariants=MC_INVARIANTS)
        res = tlc.run("SplitMC", cfg, workers=4, timeout=3000)
        if res.violated:
            chk.violation({"clause": "MC:" + ",".join(res.violated), "site": "spec", "config": name},
                          {"config": name, "tlc_tail": res.out[-4000:]})
        elif not res.ok:
            raise MachineryFailure(f"TLC run {name} did not complete: {res.out[-2000:]}")
        chk.add_tlc("mc:" + name, res)
        chk.note(f"mc {name}: {res.distinct} states, {res.generated} transitions, {res.wall:.1f}s, "
                 f"violated={res.violated}")


def routing_tables(chk: Check):
    """(kind, r1, r2) -> {canon(call): {"res": routing, "rule": signed rule}} as printed by TLC."""
    cfg = tlc.cfg_text(constants=dict(KindSet=set(KINDS), B=B, EN=EN, MaxCalls=1), invariants=["Emit"])
    res = tlc.run("SplitMC", cfg, workers=1, timeout=3000)
    if not res.ok:
        raise MachineryFailure(f"TLC generation run failed: {res.out[-2000:]}")
    tables = {}
    for rec in res.printed():
        if isinstance(rec, dict) and "s" in rec and "out" in rec:
            s = rec["s"]
            tables[(s["k"], s["r1"], s["r2"])] = {graph.canon(o["op"]): o for o in rec["out"]}
    chk.add_tlc("gen:routing-tables", res)
    if not tables:
        raise MachineryFailure("TLC printed no routing table")
    chk.extra["routing_tables"] = len(tables)
    chk.extra["routing_entries"] = sum(len(v) for v in tables.values())
    return tables


def lookup(tables, kind, r1, r2, call):
    try:
        return tables[(kind, r1, r2)][graph.canon(call)]
    except KeyError:
        raise MachineryFailure(f"no routing entry for {(kind, r1, r2)} {call}")


# ------------------------------------------------------------------ numeric helpers
def full(x, shape):
    return torch.zeros(shape) if x is None else x.detach().to(torch.float32).broadcast_to(shape).clone()


def close(a, b):
    return bool(torch.allclose(a, b, rtol=RTOL, atol=ATOL))


def hebbian(kind):
    return (-1, 1) if kind in LT_KINDS else (1, -1)


def eval_part(items, comb, tok, f):
    """Numeric value of one part of the specified routing.  tok(t, i) -> tensor."""
    if not items:
        return None
    if comb == "cat":
        return f(torch.stack([tok(it["t"], it["i"]) for it in items], 0), 0)
    out = None
    for it in items:
        v = tok(it["t"], it["i"])
        out = v if out is None else out + v
    return out


def eval_rule(rule, tok):
    out = None
    for x in rule:
        v = x["sg"] * tok(x["m"]["t"], x["m"]["i"])
        out = v if out is None else out + v
    return out


class Judge:
    """Compares one observation (pos, neg) with the specified parts; reports the named
    clauses.  A depressing part that is exactly the negation of the specified one is reported
    once (clause neg-part-sign) and the remaining clauses are examined on the negated part,
    so that any other deviation is still reported."""

    def __init__(self, chk: Check, kind, cfg, red, shape):
        self.chk, self.kind, self.cfg, self.red, self.shape = chk, kind, cfg, red, shape
        self.site = site_of(kind)

    def sig(self, clause, form, **kw):
        s = {"clause": clause, "site": self.site, "kind": self.kind, "form": form}
        s.update(kw)
        return s

    def rep(self, call, step, hist, **kw):
        r = {"kind": self.kind, "rates": {"r1": self.cfg[0], "r2": self.cfg[1]}, "reduction": self.red,
             "history": hist, "step": step, "call": call}
        r.update({k: (v.tolist() if isinstance(v, torch.Tensor) else v) for k, v in kw.items()})
        return r

    def judge(self, call, step, hist, pos, neg, exp_pos, exp_neg, signed=None, neg_negated=None):
        """neg_negated: what the depressing part would be had its magnitudes been handed over
        negated (before the batch reduction); default: minus the specified part."""
        form = call["form"]
        P, N = full(pos, self.shape), full(neg, self.shape)
        EP, EN_ = full(exp_pos, self.shape), full(exp_neg, self.shape)
        NN = -EN_ if neg_negated is None else full(neg_negated, self.shape)
        self.chk.evaluations += 1
        if bool((EP.abs() > ATOL).any() or (EN_.abs() > ATOL).any()):
            self.chk.nontrivial.add((self.kind, self.cfg, self.red, graph.canon(call), hist, step))
        if bool((P < -ATOL).any()):
            self.chk.violation(self.sig("pos-part-sign", form),
                               self.rep(call, step, hist, observed_pos=P, expected_pos=EP))
        if not close(N, EN_) and close(N, NN):
            # the depressing magnitudes were handed over NEGATED (before the batch reduction): under an
            # additive reduction the part is negative-valued, under amax it collapses towards zero
            self.chk.violation(self.sig("neg-part-sign", form, where="exactly-the-negated-depressing-magnitude"),
                               self.rep(call, step, hist, observed_neg=N, expected_neg=EN_, negated_magnitudes=NN))
            N = EN_.clone()     # examined in full just above; the remaining clauses use the specified part
        elif bool((N < -ATOL).any()):
            self.chk.violation(self.sig("neg-part-sign", form, where="other"),
                               self.rep(call, step, hist, observed_neg=N, expected_neg=EN_))
        if not close(P, EP):
            self.chk.violation(self.sig("pos-part-value", form, rates=f"{self.cfg[0]},{self.cfg[1]}"),
                               self.rep(call, step, hist, observed_pos=P, expected_pos=EP))
        if not close(N, EN_):
            self.chk.violation(self.sig("neg-part-value", form, rates=f"{self.cfg[0]},{self.cfg[1]}"),
                               self.rep(call, step, hist, observed_neg=N, expected_neg=EN_))
        if signed is not None:
            S = full(signed, self.shape)
            if not close(P - N, S):
                self.chk.violation(self.sig("nets-to-signed-rule", form, rates=f"{self.cfg[0]},{self.cfg[1]}"),
                                   self.rep(call, step, hist, observed_net=P - N, signed_rule=S))
        return P, N

    def bounds(self, run: Run, call, hist):
        """Recording bounding functions: the upper bound receives exactly the potentiating
        part, the lower bound the depressing part; the applied change is 2*pos - 4*neg."""
        pos, neg, up, lo, before, after = run.apply_with_probes(call)
        P, N = full(pos, self.shape), full(neg, self.shape)
        ok = ((len(up) == (0 if pos is None else 1)) and (len(lo) == (0 if neg is None else 1))
              and (pos is None or close(full(up[0], self.shape), P))
              and (neg is None or close(full(lo[0], self.shape), N))
              and close(after - before, 2.0 * P - 4.0 * N))
        self.chk.evaluations += 1
        if not ok:
            self.chk.violation(self.sig("bound-routing", call["form"]),
                               self.rep(call, -1, hist, pos=P, neg=N, upper_bound_received=[u.tolist() for u in up],
                                        lower_bound_received=[u.tolist() for u in lo], applied=after - before))


def rate_classes(kind):
    cs = [c for c in CLASSES if not (c == 0 and kind in NO_ZERO_RATE)]
    return list(itertools.product(cs, cs))


def term_part(tables, kind, cfg, call, term, index):
    """Which part ("pos"/"neg") of the specified routing holds item (term, index)."""
    res = lookup(tables, kind, cfg[0], cfg[1], call)["res"]
    for side in ("pos", "neg"):
        if any(it["t"] == term and it["i"] == index for it in res[side]):
            return side
    raise MachineryFailure(f"term {term}@{index} not routed for {kind} {cfg} {call}")


def direction(chk, judge: Judge, hist_name, nets, kind, form):
    """Causal pairs strengthen, anti-causal weaken under Hebbian signs (weights); under the
    documented Hebbian signs of the delay rules (eta_- < 0 < eta_+) a causal pair shortens
    the delay and an anti-causal one lengthens it."""
    total = sum(nets)
    heb = hebbian(kind)
    want = heb[0] if hist_name == "causal" else heb[1]     # the sign of the rate governing the triggered term
    ok = bool(((total * want) >= -ATOL).all() and ((total * want) > ATOL).any())
    chk.evaluations += 1
    if not ok:
        chk.violation(judge.sig("direction", form, history=hist_name),
                      judge.rep({"form": form}, -1, hist_name, accumulated_net=total, wanted_sign=want))


ANCHOR_PLAIN = {"STDP", "StableSTDP", "TripletSTDP", "StableTripletSTDP", "MSTDP", "KernelSTDP"}
ANCHOR_DELAYED = {"DelayAdjustedSTDP", "DelayAdjustedSTDPD", "DelayAdjustedMSTDP", "DelayAdjustedMSTDPD",
                  "DelayAdjustedKernelSTDP", "DelayAdjustedKernelSTDPD"}


def anchor_value(kind, hname, red, shape):
    """Documented magnitude of the triggered term for ONE pair of spikes three steps apart on
    every synapse of every sample (decay 1/2 per step): |eta| * 2^-3 for the trace / kernel
    rules, |eta| * 2^-|3 -/+ d| for the delay-adjusted ones (adjusted difference
    t_post - t_pre - d), times |reward * scale| = 1 for the reward-modulated rules, reduced
    over the batch of B identical samples."""
    from ..impl_split import DELAYS
    mag = MAG1 if hname == "causal" else MAG2
    if kind in ANCHOR_PLAIN:
        per = torch.full(shape, mag * 2.0 ** -3)
    elif kind in ANCHOR_DELAYED:
        d = torch.tensor(DELAYS)
        per = mag * 2.0 ** (-(3.0 - d).abs()) if hname == "causal" else mag * 2.0 ** (-(3.0 + d))
    else:
        return None
    if KINDS[kind][2] == 3:
        per = per * (SIG_SCALAR * SCALE)
    return per * B if red == "sum" else per


# ------------------------------------------------------------------ A: the trainers
def check_match_kind(chk, tables, kind, red, hists, cfgs, do_bounds):
    """Two- and three-factor rules routed by match statements, and the kernel rules with the
    shipped exponential kernels (every entry of a term has the sign of its learning rate)."""
    cls, param, factors, _, _ = KINDS[kind]
    f = REDS[red]
    heb = hebbian(kind)
    clamp = kind in CLAMP_KINDS
    anti = (-heb[0], -heb[1])
    for hname, hist in hists:
        ref = Run(kind, heb[0], heb[1], red)
        ref_anti = Run(kind, anti[0], anti[1], red)
        ref_sum = Run(kind, heb[0], heb[1], "sum") if factors == 3 else None
        shape = tuple(ref.param_value().shape)
        runs = {}
        for cfg in cfgs:
            try:
                runs[cfg] = Run(kind, cfg[0], cfg[1], red)
            except ValueError as ex:
                # a zero learning rate is refused by the trace reducers (amplitude must be nonzero)
                if 0 in cfg and "nonzero" in str(ex):
                    chk.extra.setdefault("not_constructible", set()).add(f"{kind}:{cfg[0]},{cfg[1]}")
                    continue
                raise
        nets = {cfg: [] for cfg in runs}
        chk.traces += len(runs)
        for step, (pre, post) in enumerate(hist):
            ref.step(pre, post)
            ref_anti.step(pre, post)
            if ref_sum:
                ref_sum.step(pre, post)
            # ---- term magnitudes from the reference runs: M[t] under the Hebbian signs, and
            # MS[(t, side)] = the magnitude of term t when it is routed to `side` (the kernel rules
            # reduce the clamped values before negating them, so under a non-additive reduction the
            # same term has a different reduced magnitude on either side)
            if factors == 3:
                base = {"form": "scalar", "s": 1}
                base_anti = base
            elif clamp:
                base = {"form": "elems", "v1": [heb[0]] * EN, "v2": [heb[1]] * EN}
                base_anti = {"form": "elems", "v1": [anti[0]] * EN, "v2": [anti[1]] * EN}
            else:
                base = {"form": "none"}
                base_anti = base
            rp, rn = ref.parts(base)
            got = {"pos": full(rp, shape), "neg": full(rn, shape)}
            ap, an = ref_anti.parts(base_anti)
            got_anti = {"pos": full(ap, shape), "neg": full(an, shape)}
            idx = 1 if clamp else 0
            M = {t: got[term_part(tables, kind, heb, base, t, idx)] for t in ("T1", "T2")}
            MS = {}
            for t in ("T1", "T2"):
                MS[(t, term_part(tables, kind, heb, base, t, idx))] = M[t]
                MS[(t, term_part(tables, kind, anti, base_anti, t, idx))] = \
                    got_anti[term_part(tables, kind, anti, base_anti, t, idx)]
            T = {}
            if factors == 3:
                for b in range(B):
                    sv = [1 if j == b else 0 for j in range(B)]
                    op, on = ref_sum.parts({"form": "onehot", "b": b})
                    g = {"pos": full(op, shape), "neg": full(on, shape)}
                    for t in ("T1", "T2"):
                        T[(t, b + 1)] = g[term_part(tables, kind, heb, {"form": "tensor", "sv": sv}, t, b + 1)]
            # the reference itself must be a split of non-negative magnitudes
            for t in ("T1", "T2"):
                if bool((M[t] < -ATOL).any()):
                    chk.violation({"clause": "pos-part-sign" if term_part(tables, kind, heb, base, t, idx) == "pos"
                                   else "neg-part-sign", "site": site_of(kind), "kind": kind, "form": base["form"],
                                   "where": "reference-hebbian"},
                                  {"kind": kind, "history": hname, "step": step, "term": t, "value": M[t].tolist()})
            # anchors: the causal term is the only one triggered by a causal pair, and vice versa;
            # its magnitude is the documented closed form for one pair three steps apart
            if hname in ("causal", "anticausal") and step == 3:
                live, dead = ("T1", "T2") if hname == "causal" else ("T2", "T1")
                chk.evaluations += 1
                if not (bool((M[live] > ATOL).any()) and bool((M[dead].abs() <= ATOL).all())):
                    chk.violation({"clause": "causal-term", "site": site_of(kind), "kind": kind, "history": hname},
                                  {"kind": kind, "history": hname, "step": step, "T1": M["T1"].tolist(),
                                   "T2": M["T2"].tolist()})
                want = anchor_value(kind, hname, red, shape)
                if want is not None:
                    chk.evaluations += 1
                    if not close(M[live], want):
                        chk.violation({"clause": "anchor-magnitude", "site": site_of(kind), "kind": kind,
                                       "history": hname},
                                      {"kind": kind, "history": hname, "step": step, "reduction": red,
                                       "observed": M[live].tolist(), "closed_form": want.tolist()})
            # ---- every configuration, every call
            for cfg, run in runs.items():
                run.step(pre, post)
                judge = Judge(chk, kind, cfg, red, shape)
                zr = {"T1": float(cfg[0] != 0), "T2": float(cfg[1] != 0)}
                if factors == 3:
                    calls = [{"form": "scalar", "s": c} for c in CLASSES] + \
                            [{"form": "tensor", "sv": list(v)} for v in itertools.product(CLASSES, repeat=B)]
                elif clamp:
                    calls = [{"form": "elems", "v1": [cfg[0]] * EN, "v2": [cfg[1]] * EN}]
                else:
                    calls = [{"form": "none"}]
                step_net = {}
                for call in calls:
                    ent = lookup(tables, kind, cfg[0], cfg[1], call)
                    res, rule = ent["res"], ent["rule"]
                    if call["form"] == "tensor":
                        tokf = lambda side: (lambda t, i: T[(t, i)] * (abs(call["sv"][i - 1]) * SIG_TENSOR[i - 1]
                                                                      * SCALE * zr[t]))
                    elif call["form"] == "scalar":
                        tokf = lambda side: (lambda t, i: MS[(t, side)] * (abs(call["s"]) * zr[t]))
                    elif clamp:
                        tokf = lambda side: (lambda t, i: MS[(t, side)] * zr[t] if i == 1 else torch.zeros(shape))
                    else:
                        tokf = lambda side: (lambda t, i: MS[(t, side)] * zr[t])
                    exp_pos = eval_part(res["pos"], res["comb"], tokf("pos"), f)
                    exp_neg = eval_part(res["neg"], res["comb"], tokf("neg"), f)
                    # netting is only demanded where the reduction commutes with the split
                    linear = (red == "sum") or (res["comb"] == "add") or (res["comb"] == "clamp" and red == "mean")
                    signed = eval_rule(rule, tokf("pos")) if linear else None
                    pos, neg = run.parts(call)
                    P, N = judge.judge(call, step, hname, pos, neg, exp_pos, exp_neg, signed)
                    step_net[graph.canon(call)] = P - N
                    if res["posNone"] and pos is not None and bool((P.abs() > ATOL).any()):
                        chk.violation(judge.sig("pos-part-value", call["form"], where="specified-empty"),
                                      judge.rep(call, step, hname, observed_pos=P))
                # a negative reward flips the direction
                if factors == 3 and cfg[0] != 0 and cfg[1] != 0:
                    a = step_net[graph.canon({"form": "scalar", "s": 1})]
                    b_ = step_net[graph.canon({"form": "scalar", "s": -1})]
                    chk.evaluations += 1
                    if not close(a, -b_):
                        chk.violation(judge.sig("reward-flip", "scalar"),
                                      judge.rep({"form": "scalar"}, step, hname, net_positive_reward=a,
                                                net_negative_reward=b_))
                if cfg == heb and hname in ("causal", "anticausal"):
                    nets[cfg].append(step_net[graph.canon(base)])
        if hname in ("causal", "anticausal") and heb in runs:
            direction(chk, Judge(chk, kind, heb, red, shape), hname, nets[heb], kind, base["form"])
        if do_bounds:
            for cfg, run in runs.items():
                call = ({"form": "scalar", "s": -1} if factors == 3 else
                        {"form": "elems", "v1": [cfg[0]] * EN, "v2": [cfg[1]] * EN} if clamp else {"form": "none"})
                Judge(chk, kind, cfg, red, shape).bounds(run, call, hname)
        chk.sample({"kind": "trainer-run", "trainer": kind, "history": hname, "reduction": red,
                    "configs": [list(c) for c in runs], "steps": len(hist)})


def check_probe_kernels(chk, tables, kind, red, rng, steps):
    """Clamp split with mixed signs: kernels that return a fixed signed dyadic tensor."""
    cls = KINDS[kind][0]
    f = REDS[red]
    g = torch.Generator().manual_seed(rng.randrange(2 ** 31))
    vals = torch.tensor([-1.0, -0.5, -0.25, 0.0, 0.0, 0.25, 0.5, 1.0])
    V = [vals[torch.randint(0, len(vals), (B, NO, NI, 1), generator=g)] for _ in range(2)]
    probe = lambda diff, V, **kw: V + 0.0 * torch.nan_to_num(diff)
    tr = cls(probe, probe, {"V": V[0]}, {"V": V[1]}, batch_reduction=f)
    from ..impl_split import make_layer
    layer = make_layer(kind)
    tr.register_cell("cell", layer.cell)
    param = KINDS[kind][1]
    acc = getattr(layer.updater, param)
    shape = tuple(getattr(layer.connection, param).shape)
    # class -> part, from the specified routing of a two-element call holding that class
    place = {}
    for c in CLASSES:
        res = lookup(tables, kind, 0, 0, {"form": "elems", "v1": [c] * EN, "v2": [0] * EN})["res"]
        place[c] = "pos" if any(it["t"] == "T1" for it in res["pos"]) else \
                   "neg" if any(it["t"] == "T1" for it in res["neg"]) else "none"
    judge = Judge(chk, kind, (0, 0), red, shape)
    chk.traces += 1
    for step in range(steps):
        pre = torch.rand(B, NI, generator=g) < 0.5
        post = torch.rand(B, NO, generator=g) < 0.5
        layer(pre, neuron_kwargs={"override": post})
        delattr(layer.updater, param)
        tr()
        exp = {}
        for side in ("pos", "neg"):
            tot = None
            for v in V:
                cls_ = torch.sign(v)
                mask = torch.zeros_like(v)
                for c in CLASSES:
                    if place[c] == side:
                        mask = mask + (cls_ == c).float()
                x = (v.abs() * mask).sum(-1)
                # kernel_stdp.py: pos = reduce(sum clamp_min), neg = -(reduce(sum clamp_max))
                term = f(x, 0) if side == "pos" else -f(-x, 0)
                tot = term if tot is None else tot + term
            exp[side] = tot
        signed = (f(V[0].sum(-1), 0) + f(V[1].sum(-1), 0)) if red in ("sum", "mean") else None
        call = {"form": "elems", "probe": True}
        judge.judge(call, step, "probe-kernel", acc.pos, acc.neg, exp["pos"], exp["neg"], signed)
    chk.sample({"kind": "probe-kernel-run", "trainer": kind, "reduction": red,
                "V_post_sample0": V[0][0].squeeze(-1).tolist()})


def check_homeostasis(chk, tables, kind, red, hists, do_bounds):
    f = REDS[red]
    param = KINDS[kind][1]
    for hname, hist in hists:
        for r1 in CLASSES:
            run = Run(kind, r1, 0, red)
            chk.traces += 1
            shape = tuple(run.param_value().shape)
            judge = Judge(chk, kind, (r1, 0), red, shape)
            # class of (target - rate) -> part, from the specified routing
            place = {}
            for c in CLASSES:
                res = lookup(tables, kind, r1, 0, {"form": "rates", "d": [c] * EN})["res"]
                place[c] = "pos" if res["pos"] else "neg" if res["neg"] else "none"
            for step, (pre, post) in enumerate(hist):
                run.step(pre, post)
                k = run.homeo_k(r1)                       # (B, NO), documented formula
                dcls = torch.sign(run.homeo_k(1) * (-1.0 if param == "delay" else 1.0))   # class of target - rate
                exp = {}
                for side in ("pos", "neg"):
                    mask = torch.zeros_like(k)
                    for c in CLASSES:
                        if place[c] == side:
                            mask = mask + (dcls == c).float()
                    red_ = f(k.abs() * mask, 0)            # (NO,)
                    exp[side] = red_ if param == "bias" else red_.unsqueeze(-1)
                    if side == "neg":
                        alt = f(-(k.abs() * mask), 0)      # the same magnitudes handed over negated
                        exp["neg_negated"] = alt if param == "bias" else alt.unsqueeze(-1)
                sg = f(k, 0) if red in ("sum", "mean") else None
                signed = None if sg is None else (sg if param == "bias" else sg.unsqueeze(-1))
                call = {"form": "rates"}
                pos, neg = run.parts(call)
                P, N = judge.judge(call, step, hname, pos, neg, exp["pos"], exp["neg"], signed,
                                   neg_negated=exp["neg_negated"])
                # direction: positive plasticity moves the parameter so that the rate approaches the target
                if r1 == 1 and red in ("sum", "mean"):
                    want = torch.sign(f(k, 0))
                    want = want if param == "bias" else want.unsqueeze(-1)
                    net = P - N
                    chk.evaluations += 1
                    if not bool(((net * full(want, shape)) >= -ATOL).all()):
                        chk.violation(judge.sig("direction", "rates"),
                                      judge.rep(call, step, hname, net=net, wanted_sign=full(want, shape)))
            if do_bounds:
                judge.bounds(run, {"form": "rates"}, hname)
        chk.sample({"kind": "homeostasis-run", "trainer": kind, "history": hname, "reduction": red})


# ------------------------------------------------------------------ canary
def canary(chk: Check, tables):
    """The comparison must reject a deviating expectation: an STDP run with two positive
    rates judged against the routing table of two negative rates must produce violations."""
    probe = Check(PID, chk.tier, chk.seed)
    probe.known = []
    swapped = dict(tables)
    swapped[("STDP", 1, 1)] = tables[("STDP", -1, -1)]      # potentiation-only judged with the depression-only routing
    rng = random.Random(chk.seed)
    check_match_kind(probe, swapped, "STDP", "sum", histories(rng, 4)[:1], [(1, 1)], False)
    if not any(v["signature"]["clause"] in ("pos-part-value", "neg-part-value") for v in probe.violations):
        raise MachineryFailure("canary: a run judged against a deviating routing table was accepted")
    # remove the replay files the probe wrote
    import os
    for v in probe.violations:
        try:
            os.unlink(v["path"])
        except OSError:
            pass
    chk.extra["canary_violations"] = len(probe.violations)
    chk.note(f"canary: deviating routing table rejected ({len(probe.violations)} clauses)")


def run(tier: str, seed: int) -> int:
    import os
    os.environ.setdefault("_JAVA_OPTIONS", "-Xmx2g")    # small models: keep the JVMs of this check small
    chk = Check(PID, tier, seed)
    rng = random.Random(seed)
    chk.extra["rule"] = ("MC: every (configuration, call) of the routing model; binding: every real trainer under every "
                         "sign combination of its learning rates and every reward / element sign pattern, each "
                         "trainer call compared part by part with the routing TLC printed. A case is non-trivial and "
                         "distinct when it is a distinct (trainer, rate signs, reduction, call, history, step) whose "
                         "specified parts are not all zero.")
    chk.assumptions += [
        "term magnitudes are measured from reference runs of the same trainer (documented Hebbian signs, "
        "one-hot rewards); their values as sums over spike pairs are C08's subject, not C09's",
        "netting to the signed rule is only demanded where the batch reduction commutes with the split "
        "(per-term reductions; sum for per-sample rewards)",
    ]
    model_check(chk, tier)
    tables = routing_tables(chk)
    quick = tier == "quick"
    steps = 5 if quick else 8
    for kind in KINDS:
        hists = histories(rng, steps)
        if not quick:      # two more random histories
            hists = hists + [(f"random{j}", histories(rng, steps)[0][1]) for j in (2, 3)]
        reds = ["sum"] if quick else ["sum", "mean", "amax"]
        if quick and kind in ("STDP", "MSTDP", "HomeoWeight", "KernelSTDP", "DelayAdjustedSTDPD"):
            reds = ["sum", "mean"]
        for red in reds:
            if kind in HOMEO_KINDS:
                check_homeostasis(chk, tables, kind, red, [h for h in hists if h[0].startswith("random")],
                                  do_bounds=True)
            else:
                cfgs = rate_classes(kind)
                check_match_kind(chk, tables, kind, red, hists, cfgs, do_bounds=(red == "sum"))
                if kind in CLAMP_KINDS:
                    check_probe_kernels(chk, tables, kind, red, rng, steps)
    canary(chk, tables)
    if "not_constructible" in chk.extra:
        chk.extra["not_constructible"] = sorted(chk.extra["not_constructible"])
    return chk.finish()


def replay(path: str) -> int:
    """./check C09 --replay <file>: re-run the recorded trainer kind (same seed, every sign
    configuration) and report whether the recorded clause fails again."""
    import json, os
    doc = json.load(open(path))
    sig = doc["signature"]
    kind = sig.get("kind")
    if kind not in KINDS:
        print(json.dumps(doc, indent=1)[:4000])
        return 2
    seed = int(os.environ.get("VERIF_SEED", "20261003"))
    chk = Check(PID, "quick", seed)
    chk.known = []
    tables = routing_tables(chk)
    rng = random.Random(seed)
    for k in KINDS:                       # consume the generator exactly as run() does
        hists = histories(rng, 5)
        if k != kind:
            continue
        red = doc["replay"].get("reduction", "sum")
        if kind in HOMEO_KINDS:
            check_homeostasis(chk, tables, kind, red, hists[:1], do_bounds=True)
        else:
            check_match_kind(chk, tables, kind, red, hists, rate_classes(kind), do_bounds=True)
            if kind in CLAMP_KINDS:
                check_probe_kernels(chk, tables, kind, red, rng, 5)
    again = [v for v in chk.violations if v["signature"].get("clause") == sig.get("clause")]
    for v in chk.violations:
        print("  ", json.dumps(v["signature"], sort_keys=True))
    if again:
        print(f"VIOLATION property={PID} replay={again[0]['path']}")
        return 1
    print("replay: the recorded clause holds on the current tree")
    return 0
