"""C09 - Every trainer's LTP/LTD split is non-negative and nets to the signed rule.

T: TLC checks exhaustively, over trainer kinds x sign classes of both learning rates x
   reward sign patterns (scalar and per-sample) x element sign patterns (clamp split) x
   (rate vs target), that the routing code transcribed in SplitCore (Mech) hands over only
   positive coefficients on non-negative magnitudes and that pos - neg is the signed rule
   monomial by monomial (Abs); direction properties; accumulation over several calls.
A: TLC prints the routing table of every configuration; the REAL trainers are run on small
   cells and `updater.<param>.pos/.neg` after `trainer(...)` is compared, part by part, with
   the table evaluated numerically (term magnitudes measured from reference runs of the
   same trainer under the documented Hebbian signs / one-hot rewards, the homeostasis
   magnitude from the documented formula and the forced spike history, probe kernels for
   the clamp split), plus element-wise sign, net = signed rule, direction on causal /
   anti-causal anchors, and recording bounding functions showing which part reached which
   bound.
"""
from __future__ import annotations
import itertools, random
from ..core import Check, MachineryFailure
from .. import tlc, graph
from ..impl_split import (torch, KINDS, NO_ZERO_RATE, CLAMP_KINDS, HOMEO_KINDS, REDS, Run, MultiRun, HP, histories,
                          random_history, call_kwargs, site_of, B, NI, NO, MAG1, MAG2, SIG_SCALAR, SIG_TENSOR, SCALE, TAU,
                          HOMEO_TARGET)

PID = "C09"
EN = 2
RTOL, ATOL = 1e-5, 1e-6
CLASSES = (-1, 0, 1)
LT_KINDS = {"DelayAdjustedSTDPD", "DelayAdjustedMSTDPD"}          # Hebbian is (eta_- < 0, eta_+ > 0)
DELAY_PARAM_KINDS = {"DelayAdjustedSTDPD", "DelayAdjustedMSTDPD", "DelayAdjustedKernelSTDPD", "HomeoDelay"}
MC_INVARIANTS = ["Split", "CellsIndependent", "Direction", "Accumulated"]
INHERIT = 2
ALLC, SIGNC, ONLY_INHERIT = {0, 1, 2}, {0, 2}, {3}      # sign classes / Inherit as passed in cfg files (class + 1)


# ------------------------------------------------------------------ T: model checking + tables
def model_check(chk: Check, tier: str):
    kinds = set(KINDS)
    match = kinds - CLAMP_KINDS - HOMEO_KINDS
    one = dict(NC=1, DfClassesO=ALLC, OvClassesO=ONLY_INHERIT)
    runs = [("all-kinds-1cell", dict(KindSet=kinds, B=2, EN=EN, MaxCalls=1, **one)),
            ("match-kinds-2calls", dict(KindSet=match, B=2, EN=EN, MaxCalls=2, **one)),
            ("homeo-2calls", dict(KindSet=kinds & HOMEO_KINDS, B=2, EN=EN, MaxCalls=2, **one)),
            # per-cell overrides of every sign class / inheritance, one cell
            ("overrides-1cell", dict(KindSet=kinds, B=2, EN=1, MaxCalls=1, NC=1, DfClassesO=ALLC,
                                     OvClassesO={0, 1, 2, 3})),
            # two cells on one trainer: no leak between the iterations of forward()
            ("two-cells", dict(KindSet=kinds, B=2, EN=1, MaxCalls=1, NC=2, DfClassesO=SIGNC, OvClassesO={0, 2, 3}))]
    if tier == "thorough":
        runs += [("match-kinds-B3-2calls", dict(KindSet=match, B=3, EN=EN, MaxCalls=2, **one)),
                 ("clamp-EN3", dict(KindSet=kinds & (CLAMP_KINDS | HOMEO_KINDS), B=2, EN=3, MaxCalls=1, **one)),
                 ("clamp-2calls", dict(KindSet={"KernelSTDP"}, B=2, EN=2, MaxCalls=2, **one)),
                 ("three-cells", dict(KindSet={"STDP", "MSTDP", "DelayAdjustedMSTDPD", "HomeoWeight", "HomeoDelay",
                                               "KernelSTDP"}, B=2, EN=1, MaxCalls=1, NC=3, DfClassesO=SIGNC,
                                      OvClassesO={0, 3})),
                 ("two-cells-2calls", dict(KindSet={"STDP", "MSTDP", "HomeoBias"}, B=2, EN=1, MaxCalls=2, NC=2,
                                           DfClassesO=SIGNC, OvClassesO={0, 2, 3}))]
    for name, c in runs:
        cfg = tlc.cfg_text(constants=c, invariants=MC_INVARIANTS)
        res = tlc.run("SplitMC", cfg, workers=4, timeout=3000)
        if res.violated:
            chk.violation({"clause": "MC:" + ",".join(res.violated), "site": "spec", "config": name},
                          {"config": name, "tlc_tail": res.out[-4000:]})
        elif not res.ok:
            raise MachineryFailure(f"TLC run {name} did not complete: {res.out[-2000:]}")
        chk.add_tlc("mc:" + name, res)
        chk.note(f"mc {name}: {res.distinct} states, {res.generated} transitions, {res.wall:.1f}s, "
                 f"violated={res.violated}")


def routing_tables(chk: Check):
    """(kind, d1, d2, o1, o2) -> {canon(call): what a cell with overrides (o1, o2) on a trainer
    with defaults (d1, d2) receives: {"res", "rule", "sx", "tg"}} as printed by TLC."""
    cfg = tlc.cfg_text(constants=dict(KindSet=set(KINDS), B=B, EN=EN, MaxCalls=0, NC=1, DfClassesO=ALLC,
                                      OvClassesO={0, 1, 2, 3}), invariants=["Emit"])
    res = tlc.run("SplitMC", cfg, workers=1, timeout=3000)
    if not res.ok:
        raise MachineryFailure(f"TLC generation run failed: {res.out[-2000:]}")
    tables = {}
    for rec in res.printed():
        if isinstance(rec, dict) and "s" in rec and "out" in rec:
            s = rec["s"]
            cell = s["cells"][0]
            tables[(s["k"], s["df"]["r1"], s["df"]["r2"], cell["o1"], cell["o2"])] = {
                graph.canon(o["op"]): {"res": o["cells"][0]["res"], "sx": o["cells"][0]["sx"],
                                       "tg": o["cells"][0]["tg"], "rule": o["rules"][0]} for o in rec["out"]}
    res.out = ""
    chk.add_tlc("gen:routing-tables", res)
    if not tables:
        raise MachineryFailure("TLC printed no routing table")
    chk.extra["routing_tables"] = len(tables)
    chk.extra["routing_entries"] = sum(len(v) for v in tables.values())
    return tables


def lookup_cell(tables, kind, d, o, call):
    """Routing of `call` for a cell registered with overrides o = (o1, o2) (a sign class or
    INHERIT) on a trainer whose constructor defaults have the sign classes d = (d1, d2)."""
    if kind in HOMEO_KINDS:
        d, o = (d[0], 0), (o[0], INHERIT)
    try:
        return tables[(kind, d[0], d[1], o[0], o[1])][graph.canon(call)]
    except KeyError:
        raise MachineryFailure(f"no routing entry for {(kind, d, o)} {call}")


def lookup(tables, kind, r1, r2, call):
    """A single cell that inherits the constructor's hyperparameters."""
    if kind in HOMEO_KINDS and "tg" not in call:
        call = dict(call, tg="call")
    return lookup_cell(tables, kind, (r1, r2), (INHERIT, INHERIT), call)


# ------------------------------------------------------------------ numeric helpers
def full(x, shape):
    return torch.zeros(shape) if x is None else x.detach().to(torch.float32).broadcast_to(shape).clone()


def close(a, b):
    return bool(torch.allclose(a, b, rtol=RTOL, atol=ATOL))


def hebbian(kind):
    return (-1, 1) if kind in LT_KINDS else (1, -1)


def eval_part(items, comb, tok, f):
    """Numeric value of one part of the specified routing.  tok(t, i) -> tensor."""
    if not items:
        return None
    if comb == "cat":
        return f(torch.stack([tok(it["t"], it["i"]) for it in items], 0), 0)
    out = None
    for it in items:
        v = tok(it["t"], it["i"])
        out = v if out is None else out + v
    return out


def eval_rule(rule, tok):
    out = None
    for x in rule:
        v = x["sg"] * tok(x["m"]["t"], x["m"]["i"])
        out = v if out is None else out + v
    return out


class Judge:
    """Compares one observation (pos, neg) with the specified parts; reports the named
    clauses.  A depressing part that is exactly the negation of the specified one is reported
    once (clause neg-part-sign) and the remaining clauses are examined on the negated part,
    so that any other deviation is still reported."""

    def __init__(self, chk: Check, kind, cfg, red, shape):
        self.chk, self.kind, self.cfg, self.red, self.shape = chk, kind, cfg, red, shape
        self.site = site_of(kind)

    extra: dict = {}
    context: dict = {}

    def sig(self, clause, form, **kw):
        s = {"clause": clause, "site": self.site, "kind": self.kind, "form": form}
        s.update(self.extra)
        s.update(kw)
        return s

    def rep(self, call, step, hist, **kw):
        r = {"kind": self.kind, "rates": {"r1": self.cfg[0], "r2": self.cfg[1]}, "reduction": self.red,
             "history": hist, "step": step, "call": call}
        r.update(self.context)
        r.update({k: (v.tolist() if isinstance(v, torch.Tensor) else v) for k, v in kw.items()})
        return r

    def judge(self, call, step, hist, pos, neg, exp_pos, exp_neg, signed=None, neg_negated=None):
        """neg_negated: what the depressing part would be had its magnitudes been handed over
        negated (before the batch reduction); default: minus the specified part."""
        form = call["form"]
        EP, EN_ = full(exp_pos, self.shape), full(exp_neg, self.shape)
        try:
            P, N = full(pos, self.shape), full(neg, self.shape)
        except RuntimeError:
            # a part that does not even broadcast to the parameter it is meant for
            self.chk.evaluations += 1
            self.chk.violation(self.sig("part-shape", form),
                               self.rep(call, step, hist, parameter_shape=list(self.shape),
                                        pos_shape=None if pos is None else list(pos.shape),
                                        neg_shape=None if neg is None else list(neg.shape)))
            return EP, EN_
        NN = -EN_ if neg_negated is None else full(neg_negated, self.shape)
        self.chk.evaluations += 1
        if bool((EP.abs() > ATOL).any() or (EN_.abs() > ATOL).any()):
            self.chk.nontrivial.add((self.kind, self.cfg, self.red, graph.canon(call), hist, step))
        if bool((P < -ATOL).any()):
            self.chk.violation(self.sig("pos-part-sign", form),
                               self.rep(call, step, hist, observed_pos=P, expected_pos=EP))
        if not close(N, EN_) and close(N, NN):
            # the depressing magnitudes were handed over NEGATED (before the batch reduction): under an
            # additive reduction the part is negative-valued, under amax it collapses towards zero
            self.chk.violation(self.sig("neg-part-sign", form, where="exactly-the-negated-depressing-magnitude"),
                               self.rep(call, step, hist, observed_neg=N, expected_neg=EN_, negated_magnitudes=NN))
            N = EN_.clone()     # examined in full just above; the remaining clauses use the specified part
        elif bool((N < -ATOL).any()):
            self.chk.violation(self.sig("neg-part-sign", form, where="other"),
                               self.rep(call, step, hist, observed_neg=N, expected_neg=EN_))
        if not close(P, EP):
            self.chk.violation(self.sig("pos-part-value", form, rates=f"{self.cfg[0]},{self.cfg[1]}"),
                               self.rep(call, step, hist, observed_pos=P, expected_pos=EP))
        if not close(N, EN_):
            self.chk.violation(self.sig("neg-part-value", form, rates=f"{self.cfg[0]},{self.cfg[1]}"),
                               self.rep(call, step, hist, observed_neg=N, expected_neg=EN_))
        if signed is not None:
            S = full(signed, self.shape)
            if not close(P - N, S):
                self.chk.violation(self.sig("nets-to-signed-rule", form, rates=f"{self.cfg[0]},{self.cfg[1]}"),
                                   self.rep(call, step, hist, observed_net=P - N, signed_rule=S))
        return P, N

    def bounds(self, run: Run, call, hist):
        """Recording bounding functions: the upper bound receives exactly the potentiating
        part, the lower bound the depressing part; the applied change is 2*pos - 4*neg."""
        pos, neg, up, lo, before, after = run.apply_with_probes(call)
        P, N = full(pos, self.shape), full(neg, self.shape)
        ok = ((len(up) == (0 if pos is None else 1)) and (len(lo) == (0 if neg is None else 1))
              and (pos is None or close(full(up[0], self.shape), P))
              and (neg is None or close(full(lo[0], self.shape), N))
              and close(after - before, 2.0 * P - 4.0 * N))
        self.chk.evaluations += 1
        if not ok:
            self.chk.violation(self.sig("bound-routing", call["form"]),
                               self.rep(call, -1, hist, pos=P, neg=N, upper_bound_received=[u.tolist() for u in up],
                                        lower_bound_received=[u.tolist() for u in lo], applied=after - before))


def rate_classes(kind):
    cs = [c for c in CLASSES if not (c == 0 and kind in NO_ZERO_RATE)]
    return list(itertools.product(cs, cs))


def term_part(tables, kind, cfg, call, term, index):
    """Which part ("pos"/"neg") of the specified routing holds item (term, index)."""
    res = lookup(tables, kind, cfg[0], cfg[1], call)["res"]
    for side in ("pos", "neg"):
        if any(it["t"] == term and it["i"] == index for it in res[side]):
            return side
    raise MachineryFailure(f"term {term}@{index} not routed for {kind} {cfg} {call}")


def direction(chk, judge: Judge, hist_name, nets, kind, form):
    """Causal pairs strengthen, anti-causal weaken under Hebbian signs (weights); under the
    documented Hebbian signs of the delay rules (eta_- < 0 < eta_+) a causal pair shortens
    the delay and an anti-causal one lengthens it."""
    total = sum(nets)
    heb = hebbian(kind)
    want = heb[0] if hist_name == "causal" else heb[1]     # the sign of the rate governing the triggered term
    ok = bool(((total * want) >= -ATOL).all() and ((total * want) > ATOL).any())
    chk.evaluations += 1
    if not ok:
        chk.violation(judge.sig("direction", form, history=hist_name),
                      judge.rep({"form": form}, -1, hist_name, accumulated_net=total, wanted_sign=want))


ANCHOR_PLAIN = {"STDP", "StableSTDP", "TripletSTDP", "StableTripletSTDP", "MSTDP", "KernelSTDP"}
ANCHOR_DELAYED = {"DelayAdjustedSTDP", "DelayAdjustedSTDPD", "DelayAdjustedMSTDP", "DelayAdjustedMSTDPD",
                  "DelayAdjustedKernelSTDP", "DelayAdjustedKernelSTDPD"}


def anchor_value(kind, hname, red, shape):
    """Documented magnitude of the triggered term for ONE pair of spikes three steps apart on
    every synapse of every sample (decay 1/2 per step): |eta| * 2^-3 for the trace / kernel
    rules, |eta| * 2^-|3 -/+ d| for the delay-adjusted ones (adjusted difference
    t_post - t_pre - d), times |reward * scale| = 1 for the reward-modulated rules, reduced
    over the batch of B identical samples."""
    from ..impl_split import DELAYS
    mag = MAG1 if hname == "causal" else MAG2
    if kind in ANCHOR_PLAIN:
        per = torch.full(shape, mag * 2.0 ** -3)
    elif kind in ANCHOR_DELAYED:
        d = torch.tensor(DELAYS)
        per = mag * 2.0 ** (-(3.0 - d).abs()) if hname == "causal" else mag * 2.0 ** (-(3.0 + d))
    else:
        return None
    if KINDS[kind][2] == 3:
        per = per * (SIG_SCALAR * SCALE)
    return per * B if red == "sum" else per


# ------------------------------------------------------------------ A: the trainers
def calls_of(kind, cfg):
    """The call variants issued at every step for a cell whose effective sign classes are cfg."""
    factors = KINDS[kind][2]
    if factors == 3:
        return [{"form": "scalar", "s": c} for c in CLASSES] + \
               [{"form": "tensor", "sv": list(v)} for v in itertools.product(CLASSES, repeat=B)]
    if kind in CLAMP_KINDS:
        return [{"form": "elems", "v1": [cfg[0]] * EN, "v2": [cfg[1]] * EN}]
    return [{"form": "none"}]


class Refs:
    """Reference runs that measure the term magnitudes for ONE cell configuration: the same
    trainer kind, constructed with the cell's effective magnitudes / time constants / trace mode /
    reduction, under the documented Hebbian signs and their opposite, on the same connection
    kind and the same spike history.  M[t]: magnitude of term t; MS[(t, side)]: its magnitude
    when routed to `side` (the kernel rules reduce the clamped values before negating them, so
    under a non-additive reduction a term has a different reduced magnitude on either side);
    T[(t, b)]: per-sample magnitude for a unit reward (three-factor rules, reduction sum)."""

    def __init__(self, tables, kind, hp: HP, conn="dense"):
        self.tables, self.kind, self.hp = tables, kind, hp
        self.factors = KINDS[kind][2]
        self.clamp = kind in CLAMP_KINDS
        self.heb = hebbian(kind)
        self.anti = (-self.heb[0], -self.heb[1])
        self.ref = Run(kind, self.heb[0], self.heb[1], hp.red, hp=hp, conn=conn)
        self.ref_anti = Run(kind, self.anti[0], self.anti[1], hp.red, hp=hp, conn=conn)
        self.ref_sum = Run(kind, self.heb[0], self.heb[1], "sum", hp=hp, conn=conn) if self.factors == 3 else None
        self.shape = tuple(self.ref.param_value().shape)
        if self.factors == 3:
            self.base = self.base_anti = {"form": "scalar", "s": 1}
        elif self.clamp:
            self.base = {"form": "elems", "v1": [self.heb[0]] * EN, "v2": [self.heb[1]] * EN}
            self.base_anti = {"form": "elems", "v1": [self.anti[0]] * EN, "v2": [self.anti[1]] * EN}
        else:
            self.base = self.base_anti = {"form": "none"}
        self.idx = 1 if self.clamp else 0

    def side(self, cfg, call, t, index):
        return term_part(self.tables, self.kind, cfg, call, t, index)

    def step(self, pre, post):
        shape = self.shape
        self.ref.step(pre, post)
        self.ref_anti.step(pre, post)
        rp, rn = self.ref.parts(self.base)
        got = {"pos": full(rp, shape), "neg": full(rn, shape)}
        ap, an = self.ref_anti.parts(self.base_anti)
        got_anti = {"pos": full(ap, shape), "neg": full(an, shape)}
        self.M = {t: got[self.side(self.heb, self.base, t, self.idx)] for t in ("T1", "T2")}
        self.MS = {}
        for t in ("T1", "T2"):
            self.MS[(t, self.side(self.heb, self.base, t, self.idx))] = self.M[t]
            sd = self.side(self.anti, self.base_anti, t, self.idx)
            self.MS[(t, sd)] = got_anti[sd]
        self.T = {}
        if self.ref_sum:
            self.ref_sum.step(pre, post)
            for b in range(B):
                sv = [1 if j == b else 0 for j in range(B)]
                op, on = self.ref_sum.parts({"form": "onehot", "b": b})
                g = {"pos": full(op, shape), "neg": full(on, shape)}
                for t in ("T1", "T2"):
                    self.T[(t, b + 1)] = g[self.side(self.heb, {"form": "tensor", "sv": sv}, t, b + 1)]

    def expected(self, ent, call, cfg):
        """The specified parts of `call` for a cell with effective sign classes cfg, evaluated
        with the measured magnitudes through the actual batch reduction; and the signed rule
        where the reduction commutes with the split."""
        res, rule, sx = ent["res"], ent["rule"], ent["sx"]
        f, red, shape = REDS[self.hp.red], self.hp.red, self.shape
        zr = {"T1": float(cfg[0] != 0), "T2": float(cfg[1] != 0)}
        M, MS, T = self.M, self.MS, self.T
        if call["form"] == "tensor":      # |reward_b * scale|: the scale enters sx times
            tokf = lambda side: (lambda t, i: T[(t, i)] * (abs(call["sv"][i - 1]) * SIG_TENSOR[i - 1]
                                                          * SCALE ** sx * zr[t]))
        elif call["form"] == "scalar":    # the references were measured with |reward * scale| (once)
            tokf = lambda side: (lambda t, i: MS[(t, side)] * (abs(call["s"]) * SCALE ** (sx - 1) * zr[t]))
        elif self.clamp:
            tokf = lambda side: (lambda t, i: MS[(t, side)] * zr[t] if i == 1 else torch.zeros(shape))
        else:
            tokf = lambda side: (lambda t, i: MS[(t, side)] * zr[t])
        exp_pos = eval_part(res["pos"], res["comb"], tokf("pos"), f)
        exp_neg = eval_part(res["neg"], res["comb"], tokf("neg"), f)
        # netting is only demanded where the reduction commutes with the split
        linear = (red == "sum") or (res["comb"] == "add") or (res["comb"] == "clamp" and red == "mean")
        signed = eval_rule(rule, tokf("pos")) if linear else None
        return exp_pos, exp_neg, signed


def check_match_kind(chk, tables, kind, red, hists, cfgs, do_bounds):
    """Two- and three-factor rules routed by match statements, and the kernel rules with the
    shipped exponential kernels (every entry of a term has the sign of its learning rate):
    one cell per trainer, hyperparameters given to the constructor."""
    cls, param, factors, _, _ = KINDS[kind]
    heb = hebbian(kind)
    for hname, hist in hists:
        refs = Refs(tables, kind, HP(heb[0], heb[1], red))
        shape, base = refs.shape, refs.base
        runs = {}
        for cfg in cfgs:
            try:
                runs[cfg] = Run(kind, cfg[0], cfg[1], red)
            except ValueError as ex:
                # a zero learning rate is refused by the trace reducers (amplitude must be nonzero)
                if 0 in cfg and "nonzero" in str(ex):
                    chk.extra.setdefault("not_constructible", set()).add(f"{kind}:{cfg[0]},{cfg[1]}")
                    continue
                raise
        nets = {cfg: [] for cfg in runs}
        chk.traces += len(runs)
        for step, (pre, post) in enumerate(hist):
            refs.step(pre, post)
            M = refs.M
            # the reference itself must be a split of non-negative magnitudes
            for t in ("T1", "T2"):
                if bool((M[t] < -ATOL).any()):
                    chk.violation({"clause": "pos-part-sign" if refs.side(heb, base, t, refs.idx) == "pos"
                                   else "neg-part-sign", "site": site_of(kind), "kind": kind, "form": base["form"],
                                   "where": "reference-hebbian"},
                                  {"kind": kind, "history": hname, "step": step, "term": t, "value": M[t].tolist()})
            # anchors: the causal term is the only one triggered by a causal pair, and vice versa;
            # its magnitude is the documented closed form for one pair three steps apart
            if hname in ("causal", "anticausal") and step == 3:
                live, dead = ("T1", "T2") if hname == "causal" else ("T2", "T1")
                chk.evaluations += 1
                if not (bool((M[live] > ATOL).any()) and bool((M[dead].abs() <= ATOL).all())):
                    chk.violation({"clause": "causal-term", "site": site_of(kind), "kind": kind, "history": hname},
                                  {"kind": kind, "history": hname, "step": step, "T1": M["T1"].tolist(),
                                   "T2": M["T2"].tolist()})
                want = anchor_value(kind, hname, red, shape)
                if want is not None:
                    chk.evaluations += 1
                    if not close(M[live], want):
                        chk.violation({"clause": "anchor-magnitude", "site": site_of(kind), "kind": kind,
                                       "history": hname},
                                      {"kind": kind, "history": hname, "step": step, "reduction": red,
                                       "observed": M[live].tolist(), "closed_form": want.tolist()})
            # ---- every configuration, every call
            for cfg, run in runs.items():
                run.step(pre, post)
                judge = Judge(chk, kind, cfg, red, shape)
                step_net = {}
                for call in calls_of(kind, cfg):
                    ent = lookup(tables, kind, cfg[0], cfg[1], call)
                    exp_pos, exp_neg, signed = refs.expected(ent, call, cfg)
                    pos, neg = run.parts(call)
                    P, N = judge.judge(call, step, hname, pos, neg, exp_pos, exp_neg, signed)
                    step_net[graph.canon(call)] = P - N
                    if ent["res"]["posNone"] and pos is not None and bool((P.abs() > ATOL).any()):
                        chk.violation(judge.sig("pos-part-value", call["form"], where="specified-empty"),
                                      judge.rep(call, step, hname, observed_pos=P))
                # a negative reward flips the direction
                if factors == 3 and cfg[0] != 0 and cfg[1] != 0:
                    a = step_net[graph.canon({"form": "scalar", "s": 1})]
                    b_ = step_net[graph.canon({"form": "scalar", "s": -1})]
                    chk.evaluations += 1
                    if not close(a, -b_):
                        chk.violation(judge.sig("reward-flip", "scalar"),
                                      judge.rep({"form": "scalar"}, step, hname, net_positive_reward=a,
                                                net_negative_reward=b_))
                if cfg == heb and hname in ("causal", "anticausal"):
                    nets[cfg].append(step_net[graph.canon(base)])
        if hname in ("causal", "anticausal") and heb in runs:
            direction(chk, Judge(chk, kind, heb, red, shape), hname, nets[heb], kind, base["form"])
        if do_bounds:
            for cfg, run in runs.items():
                call = ({"form": "scalar", "s": -1} if factors == 3 else
                        {"form": "elems", "v1": [cfg[0]] * EN, "v2": [cfg[1]] * EN} if kind in CLAMP_KINDS
                        else {"form": "none"})
                Judge(chk, kind, cfg, red, shape).bounds(run, call, hname)
        chk.sample({"kind": "trainer-run", "trainer": kind, "history": hname, "reduction": red,
                    "configs": [list(c) for c in runs], "steps": len(hist)})


OVERRIDE_KEYS = {
    # which register_cell keywords carry the two rates (overriding only these leaves the time
    # constants, trace mode and reduction to the trainer's defaults)
    "STDP": ("lr_post", "lr_pre"), "StableSTDP": ("lr_post", "lr_pre"),
    "TripletSTDP": ("lr_post_pair", "lr_pre_pair"), "StableTripletSTDP": ("lr_post_pair", "lr_pre_pair"),
    "MSTDP": ("lr_post", "lr_pre"), "MSTDPET": ("lr_post", "lr_pre"),
    "DelayAdjustedSTDP": ("lr_pos", "lr_neg"), "DelayAdjustedSTDPD": ("lr_neg", "lr_pos"),
    "DelayAdjustedMSTDP": ("lr_pos", "lr_neg"), "DelayAdjustedMSTDPD": ("lr_neg", "lr_pos"),
    "KernelSTDP": ("kernel_post_kwargs", "kernel_pre_kwargs"),
    "DelayAdjustedKernelSTDP": ("kernel_post_kwargs", "kernel_pre_kwargs"),
    "DelayAdjustedKernelSTDPD": ("kernel_post_kwargs", "kernel_pre_kwargs"),
}
CONNS = ["dense", "dense23", "direct", "lateral"]


ZERO_RATE_OK = {"StableSTDP", "DelayAdjustedSTDP", "DelayAdjustedSTDPD", "DelayAdjustedMSTDP", "DelayAdjustedMSTDPD",
                "KernelSTDP", "DelayAdjustedKernelSTDP", "DelayAdjustedKernelSTDPD"}


def _pick_classes(rng, kind):
    cs = [-1, 1, 1, -1, 0] if kind in ZERO_RATE_OK else [-1, 1]
    return rng.choice(cs), rng.choice(cs)


def check_multi(chk, tables, kind, rng, steps, ncells, red_default="sum"):
    """ONE trainer, several cells: constructor defaults with one sign combination, every cell
    registered with its own keyword overrides (other signs, magnitudes, time constants, trace
    mode, reduction - or only some of them, the rest inherited), its own connection kind and its
    own spike history.  Every cell's parts are compared with the routing TLC printed for ITS OWN
    configuration (trainer defaults d, cell overrides o), evaluated with magnitudes measured from
    reference runs of that cell's effective hyperparameters; rewards are issued with scale != 1."""
    factors = KINDS[kind][2]
    modes = ["cumulative", "nearest"]
    reds = ["sum", "mean", "amax"]
    d = _pick_classes(rng, kind)
    d = tuple(c if c != 0 else 1 for c in d) if kind in NO_ZERO_RATE else d
    dflt = HP(d[0], d[1], red_default, mag1=rng.choice([0.25, 0.5]), mag2=rng.choice([0.5, 0.125]),
              tc1=rng.choice([TAU, 2 * TAU]), tc2=rng.choice([TAU, 2 * TAU]), mode=rng.choice(modes))
    cells, meta = [], []
    for j in range(ncells):
        # at least one cell overrides the signs; "rate1": only the first rate, the second inherited
        style = rng.choice(["all", "rates", "rate1", "none"]) if j else "rates"
        if style == "rate1" and kind in CLAMP_KINDS:
            style = "rates"
        conn = CONNS[(j + rng.randrange(len(CONNS))) % len(CONNS)]
        if style == "none":
            eff, keys, o = dflt, [], (INHERIT, INHERIT)
        else:
            c = _pick_classes(rng, kind)
            if j == 0:      # a sign combination different from the constructor's
                c = (-d[0] if d[0] else -1, c[1])
            if style == "rate1":
                c = (c[0], d[1])
                eff = HP(c[0], d[1], dflt.red, mag1=rng.choice([0.25, 1.0]), mag2=dflt.mag2, tc1=dflt.tc1,
                         tc2=dflt.tc2, mode=dflt.mode)
                keys = OVERRIDE_KEYS[kind][:1]
            elif style == "all":
                eff = HP(c[0], c[1], rng.choice(reds), mag1=rng.choice([0.25, 0.5, 1.0]),
                         mag2=rng.choice([0.125, 0.5]), tc1=rng.choice([TAU, 2 * TAU]), tc2=rng.choice([TAU, 2 * TAU]),
                         mode=rng.choice(modes))
                keys = None
            else:
                eff = HP(c[0], c[1], dflt.red, mag1=rng.choice([0.25, 1.0]), mag2=rng.choice([0.125, 0.5]),
                         tc1=dflt.tc1, tc2=dflt.tc2, mode=dflt.mode)
                keys = OVERRIDE_KEYS[kind]
                if kind in CLAMP_KINDS:     # the kernel keyword dictionaries also carry the time constants
                    eff = HP(c[0], c[1], dflt.red, mag1=eff.mag1, mag2=eff.mag2, tc1=rng.choice([TAU, 2 * TAU]),
                             tc2=TAU, mode=dflt.mode)
            o = (c[0], INHERIT) if style == "rate1" else c
        cells.append((keys, eff, conn))
        meta.append({"overrides": style, "o": list(o), "conn": conn, "effective": eff.describe()})
    try:
        multi = MultiRun(kind, dflt, cells)
    except ValueError as ex:
        if "nonzero" in str(ex):
            return
        raise
    refs = [Refs(tables, kind, eff, conn) for _, eff, conn in cells]
    hists = [random_history(rng, steps, conn) for _, _, conn in cells]
    chk.traces += 1
    for step in range(steps):
        for j, cv in enumerate(multi.cells):
            cv.step(*hists[j][step])
            refs[j].step(*hists[j][step])
        # every cell sees every call variant of the kind (the clamp kinds: the call of the first cell)
        for call in calls_of(kind, (cells[0][1].r1, cells[0][1].r2)):
            try:
                got = multi.call(call)
            except Exception as ex:      # each of these cells trains fine alone (the reference runs did)
                chk.violation({"clause": "cells-isolated", "site": site_of(kind), "kind": kind, "cells": ncells,
                               "raised": type(ex).__name__},
                              {"kind": kind, "trainer_defaults": dflt.describe(), "cells": meta, "step": step,
                               "call": call, "error": str(ex)[:500]})
                return
            for j, (pos, neg) in enumerate(got):
                eff = cells[j][1]
                cfg = (eff.r1, eff.r2)
                o = tuple(meta[j]["o"])
                ccall = call if kind not in CLAMP_KINDS else {"form": "elems", "v1": [cfg[0]] * EN, "v2": [cfg[1]] * EN}
                ent = lookup_cell(tables, kind, d, o, ccall)
                exp_pos, exp_neg, signed = refs[j].expected(ent, ccall, cfg)
                judge = Judge(chk, kind, cfg, eff.red, refs[j].shape)
                judge.extra = {"cells": ncells, "cell": j}
                judge.context = {"trainer_defaults": dflt.describe(), "cells": meta}
                judge.judge(ccall, step, "multi-cell", pos, neg, exp_pos, exp_neg, signed)
    chk.sample({"kind": "multi-cell-run", "trainer": kind, "defaults": dflt.describe(), "cells": meta, "steps": steps})


def check_probe_kernels(chk, tables, kind, red, rng, steps):
    """Clamp split with mixed signs: kernels that return a fixed signed dyadic tensor."""
    cls = KINDS[kind][0]
    f = REDS[red]
    g = torch.Generator().manual_seed(rng.randrange(2 ** 31))
    vals = torch.tensor([-1.0, -0.5, -0.25, 0.0, 0.0, 0.25, 0.5, 1.0])
    V = [vals[torch.randint(0, len(vals), (B, NO, NI, 1), generator=g)] for _ in range(2)]
    probe = lambda diff, V, **kw: V + 0.0 * torch.nan_to_num(diff)
    tr = cls(probe, probe, {"V": V[0]}, {"V": V[1]}, batch_reduction=f)
    from ..impl_split import make_layer
    layer = make_layer(kind)
    tr.register_cell("cell", layer.cell)
    param = KINDS[kind][1]
    acc = getattr(layer.updater, param)
    shape = tuple(getattr(layer.connection, param).shape)
    # class -> part, from the specified routing of a two-element call holding that class
    place = {}
    for c in CLASSES:
        res = lookup(tables, kind, 0, 0, {"form": "elems", "v1": [c] * EN, "v2": [0] * EN})["res"]
        place[c] = "pos" if any(it["t"] == "T1" for it in res["pos"]) else \
                   "neg" if any(it["t"] == "T1" for it in res["neg"]) else "none"
    judge = Judge(chk, kind, (0, 0), red, shape)
    chk.traces += 1
    for step in range(steps):
        pre = torch.rand(B, NI, generator=g) < 0.5
        post = torch.rand(B, NO, generator=g) < 0.5
        layer(pre, neuron_kwargs={"override": post})
        delattr(layer.updater, param)
        tr()
        exp = {}
        for side in ("pos", "neg"):
            tot = None
            for v in V:
                cls_ = torch.sign(v)
                mask = torch.zeros_like(v)
                for c in CLASSES:
                    if place[c] == side:
                        mask = mask + (cls_ == c).float()
                x = (v.abs() * mask).sum(-1)
                # kernel_stdp.py: pos = reduce(sum clamp_min), neg = -(reduce(sum clamp_max))
                term = f(x, 0) if side == "pos" else -f(-x, 0)
                tot = term if tot is None else tot + term
            exp[side] = tot
        signed = (f(V[0].sum(-1), 0) + f(V[1].sum(-1), 0)) if red in ("sum", "mean") else None
        call = {"form": "elems", "probe": True}
        judge.judge(call, step, "probe-kernel", acc.pos, acc.neg, exp["pos"], exp["neg"], signed)
    chk.sample({"kind": "probe-kernel-run", "trainer": kind, "reduction": red,
                "V_post_sample0": V[0][0].squeeze(-1).tolist()})


def homeo_judge(chk, tables, kind, d, o, cv, call, step, hname, judge):
    """One homeostasis cell after trainer(call): the parts against the specified clamp split of
    k = plasticity (target - rate) / target, with the target TLC says this cell must use (the
    call's when given, else the cell's OWN default) and the cell's own plasticity."""
    from ..impl_split import CALL_TARGET
    param = KINDS[kind][1]
    hp = cv.hp
    flat = param == "bias" or len(judge.shape) == 1     # one value per output (bias, direct connections)
    f, red = REDS[hp.red], hp.red
    place, tg = {}, None
    for c in CLASSES:
        ent = lookup_cell(tables, kind, d, o, {"form": "rates", "d": [c] * EN, "tg": call["tg"]})
        res, tg = ent["res"], ent["tg"]
        place[c] = "pos" if res["pos"] else "neg" if res["neg"] else "none"
    t = CALL_TARGET if tg == "call" else hp.target
    n_out = cv.psum.shape[1]
    target = [[float(t)] * n_out] if isinstance(t, (int, float)) else t
    k = cv.homeo_k(hp.r1, target)                       # (B, n_out), documented formula
    dcls = torch.sign(torch.tensor(target) - cv.psum / cv.count)      # class of target - rate
    exp = {}
    for side in ("pos", "neg"):
        mask = torch.zeros_like(k)
        for c in CLASSES:
            if place[c] == side:
                mask = mask + (dcls == c).float()
        red_ = f(k.abs() * mask, 0)            # (n_out,)
        exp[side] = red_ if flat else red_.unsqueeze(-1)
        if side == "neg":
            alt = f(-(k.abs() * mask), 0)      # the same magnitudes handed over negated
            exp["neg_negated"] = alt if flat else alt.unsqueeze(-1)
    sg = f(k, 0) if red in ("sum", "mean") else None
    signed = None if sg is None else (sg if flat else sg.unsqueeze(-1))
    pos, neg = cv.read()
    P, N = judge.judge(call, step, hname, pos, neg, exp["pos"], exp["neg"], signed, neg_negated=exp["neg_negated"])
    # direction: positive plasticity moves the parameter so that the rate approaches the target
    if hp.r1 == 1 and red in ("sum", "mean"):
        want = torch.sign(f(k, 0))
        want = want if flat else want.unsqueeze(-1)
        net = P - N
        chk.evaluations += 1
        if not bool(((net * full(want, judge.shape)) >= -ATOL).all()):
            chk.violation(judge.sig("direction", "rates"),
                          judge.rep(call, step, hname, net=net, wanted_sign=full(want, judge.shape)))


def check_homeostasis(chk, tables, kind, red, hists, do_bounds):
    """One cell per trainer; the target comes with the call, or from the constructor default."""
    for hname, hist in hists:
        for r1 in CLASSES:
            for tg, target in (("call", None), ("none", 0.25)):
                hp = HP(r1, 0, red, target=target)
                run = Run(kind, r1, 0, red, hp=hp)
                chk.traces += 1
                shape = tuple(run.param_value().shape)
                judge = Judge(chk, kind, (r1, 0), red, shape)
                call = {"form": "rates", "tg": tg}
                for step, (pre, post) in enumerate(hist):
                    run.step(pre, post)
                    run.clear()
                    run.trainer(**call_kwargs(kind, call))
                    homeo_judge(chk, tables, kind, (r1, 0), (INHERIT, INHERIT), run, call, step, hname, judge)
                if do_bounds:
                    judge.bounds(run, call, hname)
        chk.sample({"kind": "homeostasis-run", "trainer": kind, "history": hname, "reduction": red})


def check_multi_homeostasis(chk, tables, kind, rng, steps, ncells):
    """ONE LinearHomeostasis trainer, several cells with their own plasticity (sign and
    magnitude), reduction, default target (a float, or a per-output tensor), connection kind and
    spike history; forward() with and without a call-level target."""
    from ..impl_split import CONN_SIZES
    d = (rng.choice([-1, 1]), 0)
    dflt = HP(d[0], 0, "sum", mag1=rng.choice([0.25, 0.5]), target=rng.choice([0.25, 0.5]))
    cells, meta = [], []
    for j in range(ncells):
        conn = CONNS[(j + rng.randrange(len(CONNS))) % len(CONNS)]
        n_out = CONN_SIZES[conn][1]
        style = rng.choice(["all", "target", "none"]) if j else "all"
        if style == "none":
            eff, keys, o = dflt, [], (INHERIT, INHERIT)
        elif style == "target":
            eff = HP(d[0], 0, dflt.red, mag1=dflt.mag1, target=[[rng.choice([0.125, 0.25, 0.5, 0.75]) for _ in range(n_out)]])
            keys, o = ("target",), (INHERIT, INHERIT)
        else:
            c = rng.choice([-1, 0, 1]) if j else -d[0]
            eff = HP(c, 0, rng.choice(["sum", "mean", "amax"]), mag1=rng.choice([0.25, 1.0]),
                     target=[[rng.choice([0.125, 0.25, 0.5, 0.75]) for _ in range(n_out)]])
            keys, o = ("plasticity", "target", "batch_reduction"), (c, INHERIT)
        cells.append((keys, eff, conn))
        meta.append({"overrides": style, "o": list(o), "conn": conn, "effective": eff.describe()})
    multi = MultiRun(kind, dflt, cells)
    hists = [random_history(rng, steps, conn) for _, _, conn in cells]
    chk.traces += 1
    for step in range(steps):
        for j, cv in enumerate(multi.cells):
            cv.step(*hists[j][step])
        for tg in ("none", "call"):
            call = {"form": "rates", "tg": tg}
            try:
                multi.call(call)
            except Exception as ex:
                chk.violation({"clause": "cells-isolated", "site": site_of(kind), "kind": kind, "cells": ncells,
                               "raised": type(ex).__name__},
                              {"kind": kind, "trainer_defaults": dflt.describe(), "cells": meta, "step": step,
                               "call": call, "error": str(ex)[:500]})
                return
            for j, cv in enumerate(multi.cells):
                eff = cells[j][1]
                judge = Judge(chk, kind, (eff.r1, 0), eff.red, tuple(cv.param_value().shape))
                judge.extra = {"cells": ncells, "cell": j, "target": tg}
                judge.context = {"trainer_defaults": dflt.describe(), "cells": meta}
                homeo_judge(chk, tables, kind, d, tuple(meta[j]["o"]), cv, call, step, "multi-cell", judge)
    chk.sample({"kind": "multi-cell-homeostasis-run", "trainer": kind, "defaults": dflt.describe(), "cells": meta})


# ------------------------------------------------------------------ canary
def canary(chk: Check, tables):
    """The comparison must reject a deviating expectation: an STDP run with two positive
    rates judged against the routing table of two negative rates must produce violations."""
    probe = Check(PID, chk.tier, chk.seed)
    probe.known = []
    swapped = dict(tables)
    # potentiation-only judged with the depression-only routing
    swapped[("STDP", 1, 1, INHERIT, INHERIT)] = tables[("STDP", -1, -1, INHERIT, INHERIT)]
    rng = random.Random(chk.seed)
    check_match_kind(probe, swapped, "STDP", "sum", histories(rng, 4)[:1], [(1, 1)], False)
    if not any(v["signature"]["clause"] in ("pos-part-value", "neg-part-value") for v in probe.violations):
        raise MachineryFailure("canary: a run judged against a deviating routing table was accepted")
    # remove the replay files the probe wrote
    import os
    for v in probe.violations:
        try:
            os.unlink(v["path"])
        except OSError:
            pass
    chk.extra["canary_violations"] = len(probe.violations)
    chk.note(f"canary: deviating routing table rejected ({len(probe.violations)} clauses)")


def check_kind(chk, tables, kind, tier, seed):
    """Everything that is run for one trainer kind (its own generator, so that a recorded
    case can be re-run alone)."""
    rng = random.Random(f"{seed}:{kind}")
    quick = tier == "quick"
    steps = 5 if quick else 8
    hists = histories(rng, steps)
    if not quick:      # two more random histories
        hists = hists + [(f"random{j}", histories(rng, steps)[0][1]) for j in (2, 3)]
    reds = ["sum"] if quick else ["sum", "mean", "amax"]
    if quick and kind in ("STDP", "MSTDP", "HomeoWeight", "KernelSTDP", "DelayAdjustedSTDPD"):
        reds = ["sum", "mean"]
    for red in reds:
        if kind in HOMEO_KINDS:
            check_homeostasis(chk, tables, kind, red, [h for h in hists if h[0].startswith("random")],
                              do_bounds=True)
        else:
            cfgs = rate_classes(kind)
            check_match_kind(chk, tables, kind, red, hists, cfgs, do_bounds=(red == "sum"))
            if kind in CLAMP_KINDS:
                check_probe_kernels(chk, tables, kind, red, rng, steps)
    # one trainer, several cells with per-cell overrides / connection kinds / histories
    for rep_ in range(6 if quick else 40):
        ncells = 2 + (rep_ % 2)
        if kind in HOMEO_KINDS:
            check_multi_homeostasis(chk, tables, kind, rng, steps, ncells)
        else:
            check_multi(chk, tables, kind, rng, steps, ncells, red_default=["sum", "mean", "amax"][rep_ % 3])


def run(tier: str, seed: int) -> int:
    import os
    os.environ.setdefault("_JAVA_OPTIONS", "-Xmx2g")    # small models: keep the JVMs of this check small
    chk = Check(PID, tier, seed)
    rng = random.Random(seed)
    chk.extra["rule"] = ("MC: every (configuration, call) of the routing model; binding: every real trainer under every "
                         "sign combination of its learning rates and every reward / element sign pattern, each "
                         "trainer call compared part by part with the routing TLC printed. A case is non-trivial and "
                         "distinct when it is a distinct (trainer, rate signs, reduction, call, history, step) whose "
                         "specified parts are not all zero.")
    chk.assumptions += [
        "term magnitudes are measured from reference runs of the same trainer (documented Hebbian signs, "
        "one-hot rewards); their values as sums over spike pairs are C08's subject, not C09's",
        "netting to the signed rule is only demanded where the batch reduction commutes with the split "
        "(per-term reductions; sum for per-sample rewards)",
    ]
    from .. import subcheck
    hm = subcheck.spawn(PID, "harness.props.homeo", "phase", tier, seed + 1, "homeostasis-magnitude")
    model_check(chk, tier)
    tables = routing_tables(chk)
    quick = tier == "quick"
    steps = 5 if quick else 8
    for kind in KINDS:
        check_kind(chk, tables, kind, tier, seed)
    canary(chk, tables)
    if "not_constructible" in chk.extra:
        chk.extra["not_constructible"] = sorted(chk.extra["not_constructible"])
    subcheck.join(chk, hm)
    return chk.finish()


def replay(path: str) -> int:
    """./check C09 --replay <file>: re-run everything recorded for that trainer kind (same
    seed) and report whether the recorded clause fails again."""
    import json, os
    doc = json.load(open(path))
    sig = doc["signature"]
    if doc["replay"].get("extension") == "Homeo" and "cfg" in doc["replay"]:
        from .. import graph
        from ..impl_homeo import HomeoImpl
        rc = graph.rerun(doc["replay"], lambda: HomeoImpl(doc["replay"]["cfg"]))
        if rc:
            print(f"VIOLATION property={PID} replay={path}")
        return rc
    kind = sig.get("kind")
    if kind not in KINDS:
        print(json.dumps(doc, indent=1)[:4000])
        return 2
    os.environ.setdefault("_JAVA_OPTIONS", "-Xmx2g")
    seed = int(os.environ.get("VERIF_SEED", "20261003"))
    tier = os.environ.get("VERIF_TIER", "quick")
    chk = Check(PID, tier, seed)
    chk.known = []
    tables = routing_tables(chk)
    check_kind(chk, tables, kind, tier, seed)
    again = [v for v in chk.violations if v["signature"].get("clause") == sig.get("clause")]
    for v in chk.violations:
        print("  ", json.dumps(v["signature"], sort_keys=True))
    if again:
        print(f"VIOLATION property={PID} replay={again[0]['path']}")
        return 1
    print("replay: the recorded clause holds on the current tree")
    return 0
