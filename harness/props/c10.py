"""C10 - Updater algebra: accumulate, reduce, bound, apply once, clear.

T: TLC checks exhaustively (bounded depth, dyadic grid) that the implementation-shaped
   model of Accumulator/Updater/Updatable (ordered lists, caches, full/half bind selection,
   the case split of Accumulator.update) refines the property's formula
   w' = w + BU(reduce(pos bag)) - BL(reduce(neg bag)), plus CacheCoherent, OrderIndependent,
   NoopWhenEmpty, Idempotent, StaysInside (+ the same step over the whole grid),
   SharpNeverFurther, CustomReductionUsed.
A: TLC prints the outcome table of every state; every edge is executed on a real Updater
   bound to a real LinearDense connection and compared exactly (dyadic floats).
B: random interleavings (larger tensors, three parameters, longer histories, shipped
   trainers contributing) recorded from the real code and validated by TLC.
"""
from __future__ import annotations
import copy, random
from concurrent.futures import ThreadPoolExecutor
from ..core import Check, MachineryFailure
from .. import tlc, graph, tracecheck
from ..impl_updater import UpdaterImpl, NOLIM

PID = "C10"
S = 1024
# OpInvariants = Refinement, NoopWhenEmpty, Idempotent, CustomReductionUsed in one pass over Ops(st)
INVARIANTS = ["TypeOK", "CacheCoherent", "OpInvariants", "OrderIndependent", "StaysInside", "GridStep",
              "SharpNeverFurther"]
ALLFAM = {"contrib", "read", "peek", "update", "some", "clear", "red", "bound"}


OFF = 8 * S   # cfg files take no negative numbers: W0Base, BMax, BMin are passed offset by 8*S


def consts(**kw):
    c = dict(S=S, PNames={"weight"}, E=1, W0Base=S // 2, W0Step=S, Red0="default", PartVals={S // 4, S},
             MaxParts=2, Forms={"pair", "single", "attr"}, Reds={"default", "amax"},
             FullKinds={"none", "mult"}, UpKinds=set(), LoKinds=set(), BMax=S, BMin=0,
             FullNoMax=False, FullNoMin=False, PowU=2, PowL=1, Families=set(ALLFAM), MaxDepth=5)
    c.update(kw)
    return c


def cfg_consts(c):
    out = {k: v for k, v in c.items() if k not in ("W0Base", "BMax", "BMin")}
    out.update(W0BaseO=c["W0Base"] + OFF, BMaxO=c["BMax"] + OFF, BMinO=c["BMin"] + OFF)
    return out


def mc_configs(tier):
    q = tier == "quick"
    d = 5 if q else 6
    cfgs = [
        # full multiplicative, one parameter, w inside; sum / amax; two part values
        ("full-mult", consts(Forms={"pair"}, MaxDepth=4 if q else 6)),
        ("full-mult-deep", consts(Forms={"pair"}, PartVals={S // 2}, Reds={"default"}, MaxDepth=d + 1)),
        # the three ways of contributing (tuple, tensor, accumulator attribute), None parts ignored
        ("forms", consts(PartVals={S // 2}, FullKinds={"none"}, Reds={"default"},
                         Families=ALLFAM - {"bound", "some", "red"}, MaxDepth=d)),
        # scaled kinds with a range of 2 and limits [-1, 1]; two elements: inside and outside
        ("full-scaled", consts(FullKinds={"smult", "spow"}, BMax=S, BMin=-S, E=2, W0Base=0, W0Step=2 * S,
                               PartVals={S // 2}, Forms={"pair"}, Reds={"default"}, PowU=2, PowL=1, MaxDepth=d)),
        # half kernels: power above, scaled power below, identity removal, switching from full to half
        ("half-pow", consts(FullKinds={"pow"}, UpKinds={"none", "pow"}, LoKinds={"spow", "mult"}, BMax=2 * S, BMin=0,
                            PartVals={S // 2}, Forms={"pair", "attr"}, Reds={"default"}, PowU=2, PowL=2,
                            MaxDepth=4 if q else d)),
        # sharp: elements at the limit and beyond it, full and half
        ("sharp", consts(FullKinds={"sharp"}, UpKinds={"sharp"}, LoKinds={"none", "sharp"}, E=2, W0Base=S,
                         W0Step=S // 2, PartVals={S // 2}, Forms={"pair", "single"}, Reds={"default"},
                         FullNoMin=True, MaxDepth=d)),
        # full kernels with one limit missing
        ("full-nolim", consts(FullKinds={"mult", "pow"}, FullNoMax=True, FullNoMin=True, PartVals={S // 2},
                              Forms={"pair"}, Reds={"default"}, PowU=2, PowL=3, MaxDepth=4 if q else d)),
        # reductions: mean / amin / amax, constructor reduction
        ("reductions", consts(Red0="amax", Reds={"default", "mean", "amin"}, FullKinds={"none"}, E=1,
                              PartVals={0, S // 2}, Forms={"pair"}, Families=ALLFAM - {"bound", "some"},
                              MaxDepth=4 if q else 5)),
        # custom reductions that are not the identity on ONE part (2*sum, clipped sum, sum of squares),
        # at construction and through reduction(), with 0..3 pending parts
        ("custom-reductions", consts(Red0="clip", Reds={"default", "sum2", "sumsq"}, FullKinds={"none", "mult"},
                                     PartVals={S // 4, S}, MaxParts=3, Forms={"single", "attr"},
                                     Families=ALLFAM - {"some", "clear"} - ({"bound"} if q else set()),
                                     MaxDepth=4 if q else 5)),
        # two parameters: update / updatesome / clear interplay
        ("two-params", consts(PNames={"weight", "bias"}, PartVals={S // 2}, Forms={"pair"}, Reds={"default"},
                              FullKinds={"mult"} if not q else set(),
                              Families=ALLFAM - {"red"} - ({"bound", "read"} if q else set()),
                              MaxDepth=4 if q else 5)),
    ]
    if not q:
        cfgs += [
            ("three-parts", consts(MaxParts=3, PartVals={S // 4, S}, Forms={"pair"}, Reds={"default", "amax"},
                                   FullKinds={"mult"}, Families=ALLFAM - {"some", "clear"}, MaxDepth=6)),
            ("half-mixed", consts(FullKinds=set(), UpKinds={"mult", "smult", "sharp"}, LoKinds={"mult", "smult", "sharp"},
                                  BMax=S, BMin=-S, E=2, W0Base=-S, W0Step=S, PartVals={S // 2}, Forms={"pair"},
                                  Reds={"default"}, Families=ALLFAM - {"some", "red"}, MaxDepth=6)),
        ]
    return cfgs


def gen_configs(tier):
    d = 4 if tier == "quick" else 5
    cfgs = [
        ("full-mult", consts(MaxDepth=d)),
        ("full-scaled-pow", consts(FullKinds={"smult", "spow", "pow"}, BMax=S, BMin=-S, E=2, W0Base=0, W0Step=2 * S,
                                   PartVals={S // 2}, Forms={"pair"}, Reds={"default"}, PowU=2, PowL=1,
                                   MaxDepth=d)),
        ("half-kinds", consts(FullKinds={"mult"}, UpKinds={"none", "pow", "smult"}, LoKinds={"spow", "mult"},
                              BMax=2 * S, BMin=0, PartVals={S // 2}, Forms={"pair", "attr"}, Reds={"default"},
                              PowU=2, PowL=2, MaxDepth=d)),
        ("sharp", consts(FullKinds={"sharp"}, UpKinds={"sharp"}, LoKinds={"none", "sharp"}, E=2, W0Base=S,
                         W0Step=S // 2, PartVals={S // 2}, Forms={"pair", "single"}, Reds={"default"},
                         FullNoMin=True, MaxDepth=d)),
        ("reductions-ctor", consts(Red0="amax", Reds={"default", "mean", "amin"}, FullKinds={"none"},
                                   E=1, PartVals={0, S // 2}, Forms={"pair"},
                                   Families=ALLFAM - {"bound", "some"}, MaxDepth=d)),
        ("custom-reductions-ctor", consts(Red0="sum2", Reds={"default", "clip", "sumsq"}, FullKinds={"none"},
                                          PartVals={S // 4, S}, MaxParts=3, Forms={"pair"},
                                          Families=ALLFAM - {"bound", "some"}, MaxDepth=d)),
        ("reductions-ctor-2el", consts(Red0="amin", Reds={"default", "mean", "amax"}, FullKinds={"none"},
                                       E=2, PartVals={0, S // 2}, Forms={"pair"},
                                       Families=ALLFAM - {"bound", "some"}, MaxDepth=3)),
        ("two-params", consts(PNames={"weight", "bias"}, PartVals={S // 2}, Forms={"pair"}, Reds={"default"},
                              FullKinds={"mult"}, FullNoMax=True, Families=ALLFAM - {"red"}, MaxDepth=4)),
    ]
    if tier == "quick":
        cfgs = [x for x in cfgs if x[0] != "reductions-ctor-2el"]
    return cfgs


def hdr_from_consts(c):
    params = [p for p in ("weight", "bias", "delay") if p in c["PNames"]]
    w0 = [c["W0Base"] + e * c["W0Step"] for e in range(c["E"])]
    return {"S": c["S"], "params": params, "n_in": 1, "n_out": c["E"], "w0": {p: list(w0) for p in params},
            "red0": c["Red0"]}


def _run_parallel(jobs, parallel=4):
    with ThreadPoolExecutor(max_workers=parallel) as ex:
        return list(ex.map(lambda j: (j[0], j[1], j[2]()), jobs))


def _tlc_job(kind, name, cfg):
    """One TLC run; the (large) raw output is dropped as soon as it has been parsed."""
    res = tlc.run("UpdaterMC", cfg, workers=1, timeout=3000)
    extra = None
    if kind == "gen" and res.ok:
        extra = graph.Graph.from_lines(res.printed())
    elif kind == "mc" and res.violated:
        extra = sorted({r["clause"] for r in res.printed() if isinstance(r, dict) and "clause" in r})
    res.out = res.out[-4000:]
    return res, extra


def model_check_and_generate(chk: Check, tier: str):
    """Exhaustive runs and generation runs, one JVM each, side by side.
    workers=1: a TLCGet("level") bound is only complete (and Emit lines only whole) with one worker."""
    jobs = []
    for name, c in mc_configs(tier):
        cfg = tlc.cfg_text(constants=cfg_consts(c), invariants=INVARIANTS, constraints=["Bounded"])
        jobs.append(("mc:" + name, c, (lambda name=name, cfg=cfg: _tlc_job("mc", name, cfg))))
    for name, c in gen_configs(tier):
        cfg = tlc.cfg_text(constants=cfg_consts(c), invariants=["Emit"], constraints=["Bounded"])
        jobs.append(("gen:" + name, c, (lambda name=name, cfg=cfg: _tlc_job("gen", name, cfg))))
    graphs = []
    for name, c, (res, extra) in _run_parallel(jobs, parallel=6):
        if name.startswith("mc:"):
            if res.violated:
                chk.violation({"clause": "MC:" + ",".join(extra or res.violated), "site": "spec", "config": name},
                              {"config": name, "constants": {k: sorted(v) if isinstance(v, set) else v
                                                             for k, v in c.items()},
                               "tlc_tail": res.out[-4000:]})
            elif not res.ok:
                raise MachineryFailure(f"TLC run {name} did not complete: {res.out[-2000:]}")
            chk.add_tlc(name, res)
            chk.note(f"{name}: {res.distinct} states, {res.generated} transitions, depth {res.depth}, "
                     f"{res.wall:.1f}s, violated={res.violated}")
        else:
            if not res.ok:
                raise MachineryFailure(f"TLC generation run {name} failed: {res.out[-2000:]}")
            g = extra
            # Mech states differing only in their caches share one view: the graph has at most as
            # many nodes as TLC has states
            if len(g.states) == 0 or len(g.states) > res.distinct:
                raise MachineryFailure(f"emitted graph {name} has {len(g.states)} states, TLC reports {res.distinct}")
            g.name = name[4:]
            chk.add_tlc(name, res)
            graphs.append((g, c))
    return graphs


def apalache_steps(chk: Check, tier: str):
    """Optional: the range invariant as an inductive step over UNBOUNDED integers (exact
    rationals num/den, no grid, arbitrarily long histories) with Apalache.  Reported
    separately; a stall / missing tool never fails the check, a counterexample does."""
    import shutil, subprocess, tempfile, re
    exe = shutil.which("apalache-mc")
    out = {}
    # (action, init, invariant): the range invariant for the three multiplicative kinds, and "never further beyond a
    # limit it has reached" for sharp dependence from ANY parameter value and ANY non-negative magnitudes
    steps = [("NextMult", "IndInit", "IndInv"), ("NextScaled", "IndInit", "IndInv"), ("NextSharp", "SharpInit", "SharpInv")]
    if tier != "quick":
        steps.append(("NextScaledPow2", "IndInit", "IndInv"))
    if not exe:
        chk.extra["apalache_inductive_step"] = "apalache-mc not found"
        return
    for act, init, inv in steps:
        work = tempfile.mkdtemp(prefix="verif-apa-")
        try:
            shutil.copy(tlc.SPEC_DIR / "UpdaterInd.tla", work)
            try:
                p = subprocess.run(["timeout", "120", exe, "check", f"--init={init}", f"--inv={inv}", f"--next={act}",
                                    "--length=1", f"--out-dir={work}/out", "UpdaterInd.tla"], cwd=work,
                                   capture_output=True, text=True, timeout=150)
                m = re.search(r"The outcome is: (\w+)", p.stdout + p.stderr)
                out[act] = m.group(1) if m else ("timeout" if p.returncode == 124 else f"exit {p.returncode}")
            except subprocess.TimeoutExpired:
                out[act] = "timeout"
        finally:
            shutil.rmtree(work, ignore_errors=True)
        if out[act] == "Error":
            chk.violation({"clause": "StaysInside-inductive-step", "site": "spec", "action": act},
                          {"tool": "apalache", "action": act, "note": "counterexample to the inductive step"})
    chk.extra["apalache_inductive_step"] = out
    chk.note(f"apalache inductive step (unbounded integers): {out}")


def _signature_extras(rep):
    """What identifies the failing edge (used to match known findings precisely)."""
    op = rep.get("op") or {}
    st = rep.get("state") or {}
    out = {}
    if isinstance(op, dict):
        ps = [op["p"]] if op.get("p") in st else list(st)
        modes = sorted({st[p]["bnd"]["mode"] for p in ps}) if ps else []
        kinds = sorted({st[p]["bnd"]["f"]["k"] for p in ps} | {st[p]["bnd"]["u"]["k"] for p in ps}
                       | {st[p]["bnd"]["l"]["k"] for p in ps}) if ps else []
        if op.get("a") in ("peek", "update", "updatesome"):
            out["bind_mode"] = "+".join(modes)
            out["kinds"] = "+".join(k for k in kinds if k != "none") or "none"
        obs = (rep.get("observed") or {}).get("ret") or {}
        if isinstance(obs, dict) and obs.get("t") == "err":
            out["raised"] = obs.get("e")
    return out


def replay_graph(chk: Check, g, c, *, budget, rng, deviate=None, report=True):
    hdr = hdr_from_consts(c)
    hdr["f64"] = bool(report and rng.random() < 0.3)       # some graphs are replayed on a float64 connection
    made = []

    def make():
        impl = UpdaterImpl(hdr)
        made.append(impl)
        if len(made) > 4:
            made.pop(0)
        return impl

    first = make()
    if first.ctor_error and report:
        # Updater(module, *params, reduction=f) must construct and use f
        chk.violation({"clause": "CustomReductionUsed", "op": "construct", "site": "Updater.__init__",
                       "raised": first.ctor_error},
                      {"call": f"Updater(connection, {hdr['params']}, reduction=<{hdr['red0']}>)",
                       "observed": f"raises {first.ctor_error}", "expected": "constructs; reads use the reduction",
                       "hdr": hdr})
    init_key = graph.canon(first.project())
    if init_key not in g.states:
        raise MachineryFailure(f"initial implementation state not in emitted graph {g.name}: {init_key}")
    mism = []

    def on_mismatch(sig, rep):
        rep = dict(rep, hdr=hdr, graph=g.name)
        sig = dict(sig)
        sig.update(_signature_extras(rep))
        mism.append((sig, rep))
        if report:
            chk.violation(sig, rep)

    stats = graph.replay(g, init_key, make, budget=budget, rng=rng, on_mismatch=on_mismatch, deviate=deviate,
                         max_mismatch=200)
    if report:
        chk.evaluations += stats.edges
        for k, o in stats.pairs:
            if '"posL":[[' in k or '"negL":[[' in k:
                chk.nontrivial.add((g.name, k, o))
        chk.extra["replayed_edges"] = chk.extra.get("replayed_edges", 0) + stats.edges
        chk.extra["impl_states_visited"] = chk.extra.get("impl_states_visited", 0) + len(stats.states_visited)
        chk.note(f"replay {g.name}: {stats.edges} edges of {g.n_edges}, {len(stats.states_visited)}/{len(g.states)} "
                 f"states, mismatches={len(stats.mismatches)}")
        for k, o in stats.pairs:
            if '"posL":[[' in k and '"a":"update"' in o:
                chk.sample({"kind": "replayed-edge", "graph": g.name, "state": k, "op": o})
                break
    return stats, mism


def canary_replay(chk: Check, g, c, rng):
    """A replay in which the implementation's reported parameter is off by one grid unit
    after an update must be flagged - otherwise the comparison is not doing anything."""
    def deviate(op, ret, st):
        if op.get("a") in ("update", "updatesome"):
            st = copy.deepcopy(st)
            p = sorted(st)[0]
            st[p]["w"][0] += 1
        return ret, st
    stats, mism = replay_graph(chk, g, c, budget=400, rng=rng, deviate=deviate, report=False)
    if not any(s.get("clause") == "StateOK" and s.get("op") in ("update", "updatesome") for s, _ in mism):
        raise MachineryFailure("canary: a deviating replay (parameter off by one unit) was accepted")
    chk.extra["canary_replay_mismatches"] = len(mism)
    chk.note(f"canary: deviating replay flagged ({len(mism)} mismatching edges)")


# ------------------------------------------------------------------ direction B
TRACE_CFG = tlc.cfg_text(spec="TraceSpec", constants={"S": S}, constraints=["Track"], postcondition="Post")
HALF_KINDS = ["none", "mult", "smult", "pow", "spow", "sharp"]
WMAX = 4 * S


def _mech_init(impl: UpdaterImpl):
    inv = {"valid": False, "some": False, "x": []}
    st = {}
    for p, v in impl.project().items():
        st[p] = {"w": v["w"], "posL": [], "negL": [], "posC": dict(inv), "negC": dict(inv), "red": v["red"],
                 "bnd": v["bnd"]}
    return st


def _rand_part(rng, n, signed=False):
    vals = [0, S // 4, S // 2, S]
    if signed:
        vals = vals + [-S // 4, -S // 2]
    return [rng.choice(vals) for _ in range(n)]


def _rand_bound_op(rng, p):
    lims = [-S, 0, S, 2 * S]
    mn = rng.choice(lims[:-1])
    mx = rng.choice([x for x in lims if x > mn])
    a = rng.choice(["fullbound", "fullbound", "upperbound", "lowerbound"])
    if a == "fullbound":
        k = rng.choice(HALF_KINDS)
        o = {"a": a, "p": p, "k": k, "mx": mx, "mn": mn, "pu": rng.choice([1, 2, 3]), "pl": rng.choice([1, 2, 3])}
        if k not in ("smult", "spow", "none"):
            r = rng.random()
            if r < 0.15:
                o["mx"] = NOLIM
            elif r < 0.3:
                o["mn"] = NOLIM
        return o
    k = rng.choice(HALF_KINDS)
    lim = mx if a == "upperbound" else mn
    return {"a": a, "p": p, "k": k, "lim": lim, "pw": rng.choice([1, 2, 3]), "rg": mx - mn}


def random_updater_traces(rng, count, steps=40):
    """Random interleavings of contributions (all forms), reads, peeks, update / updatesome /
    clear, reduction and bounding changes on connections with 1-3 trainable parameters and
    tensors of 1-6 elements.  An update is only issued when the preceding peeks show that it
    stays on the grid and in range (otherwise the accumulators are cleared instead)."""
    traces = []
    ctor_errors = []
    for _ in range(count):
        params = rng.choice([["weight"], ["weight", "bias"], ["weight", "bias", "delay"], ["weight", "delay"]])
        n_in, n_out = rng.randint(1, 2), rng.randint(1, 3)
        sizes = {"weight": n_in * n_out, "bias": n_out, "delay": n_in * n_out}
        w0 = {p: [rng.choice([-S, -S // 2, 0, S // 4, S // 2, S, 3 * S // 2, 2 * S]) for _ in range(sizes[p])]
              for p in params}
        red0 = rng.choice(["default", "default", "amax", "mean", "amin", "sum2", "clip", "sumsq"])
        hdr = {"S": S, "params": params, "n_in": n_in, "n_out": n_out, "w0": w0, "red0": red0, "f64": rng.random() < 0.25}
        impl = UpdaterImpl(hdr)
        init = _mech_init(impl)
        evs = []
        if impl.ctor_error:
            ctor_errors.append((hdr, impl.ctor_error))
        nparts = {(p, s): 0 for p in params for s in ("pos", "neg")}

        def do(op):
            ret = impl.apply(op)
            evs.append({"op": op, "ret": ret, "st": impl.weights()})
            return ret

        def safe_to_update(ps):
            ok = True
            for p in ps:
                r = do({"a": "peek", "p": p})
                if r.get("t") == "err":
                    return False
                if r["some"]:
                    w = impl.weights()[p]
                    if any(x == -777777 or abs(x + y) > WMAX for x, y in zip(r["x"], w)):
                        ok = False
            return ok

        for _ in range(steps):
            if len(evs) >= steps:
                break
            r = rng.random()
            p = rng.choice(params)
            n = sizes[p]
            if r < 0.40:
                form = rng.choice(["pair", "pair", "single", "attr"])
                signed = rng.random() < 0.1
                pos = _rand_part(rng, n, signed) if rng.random() < 0.8 else []
                neg = _rand_part(rng, n, signed) if rng.random() < 0.8 else []
                side = "-"
                if form == "single":
                    neg = []
                elif form == "attr":
                    side = rng.choice(["pos", "neg"])
                    pos, neg = (pos, []) if side == "pos" else ([], neg)
                if (pos and nparts[(p, "pos")] >= 4) or (neg and nparts[(p, "neg")] >= 4):
                    do({"a": "clear", "p": p, "side": "*"})
                    nparts[(p, "pos")] = nparts[(p, "neg")] = 0
                do({"a": "contrib", "p": p, "form": form, "side": side, "pos": pos, "neg": neg})
                nparts[(p, "pos")] += bool(pos)
                nparts[(p, "neg")] += bool(neg)
            elif r < 0.50:
                do({"a": "read", "p": p, "side": rng.choice(["pos", "neg"])})
            elif r < 0.55:
                do({"a": "peek", "p": p})
            elif r < 0.75:
                clear = rng.random() < 0.7
                if rng.random() < 0.6:
                    ps, op = list(params), {"a": "update", "clear": clear}
                else:
                    ps = rng.sample(params, rng.randint(1, len(params)))
                    op = {"a": "updatesome", "ps": ps, "clear": clear}
                if safe_to_update(ps):
                    do(op)
                    if clear:
                        for q in ps:
                            nparts[(q, "pos")] = nparts[(q, "neg")] = 0
                else:
                    do({"a": "clear", "p": "*", "side": "*"})
                    for k in nparts:
                        nparts[k] = 0
            elif r < 0.82:
                side = rng.choice(["*", "*", "pos", "neg"])
                q = rng.choice([p, "*"]) if side == "*" else p
                do({"a": "clear", "p": q, "side": side})
                for (qq, ss) in nparts:
                    if (q == "*" or qq == q) and (side == "*" or ss == side):
                        nparts[(qq, ss)] = 0
            elif r < 0.90:
                do({"a": "reduction", "p": p, "r": rng.choice(["default", "amax", "amin", "mean", "sum", "sum2", "clip",
                                                               "sumsq"])})
            else:
                do(_rand_bound_op(rng, p))
        traces.append({"hdr": {"init": init, "cfg": hdr, "waive": []}, "ev": evs, "_impl": impl})
    for t in traces:   # connections were kept alive during recording; drop them now
        t.pop("_impl")
    return traces, ctor_errors


def trainer_traces(rng, count, steps=8):
    """Several shipped trainers (two STDP instances with different rates / trace modes, in all
    four sign modes) contribute to the updater of ONE connection in random interleavings with
    reads, peeks, bounding changes and update(clear) calls.  The contributed parts are the
    ones the trainers appended (oracle input of the event); reads, peeks and the parameter
    after every update are validated by TLC.  A trace is cut where a contributed part leaves
    the dyadic grid (never reported)."""
    from ..impl_split import make_layer, torch, L, TAU, B, NI, NO
    traces, cut = [], 0
    for _ in range(count):
        layer = make_layer("STDP")
        conn = layer.connection
        hdr = {"S": S, "params": ["weight"], "red0": "default", "trainers": []}
        impl = UpdaterImpl(hdr, conn=conn)
        trainers = []
        for j in range(rng.choice([1, 2, 2, 3])):
            a = rng.choice([0.25, 0.5, -0.25, -0.5])
            b = rng.choice([0.25, 0.5, -0.25, -0.5])
            mode = rng.choice(["cumulative", "nearest"])
            tr = L.STDP(a, b, TAU, TAU, trace_mode=mode, batch_reduction=torch.sum)
            tr.register_cell(f"cell{j}", layer.cell)
            trainers.append(tr)
            hdr["trainers"].append({"lr_post": a, "lr_pre": b, "trace_mode": mode})
        init = _mech_init(impl)
        evs = []
        acc = impl.acc("weight")
        g = torch.Generator().manual_seed(rng.randrange(2 ** 31))
        alive = True

        def do(op):
            ret = impl.apply(op)
            evs.append({"op": op, "ret": ret, "st": impl.weights()})
            return ret

        for _step in range(steps):
            if not alive:
                break
            pre = torch.rand(B, NI, generator=g) < 0.4
            post = torch.rand(B, NO, generator=g) < 0.4
            layer(pre, neuron_kwargs={"override": post})
            order = [t for t in trainers if rng.random() < 0.8]
            rng.shuffle(order)
            for tr in order:
                npos, nneg = len(acc._pos), len(acc._neg)
                tr()
                pos = impl._ints(acc._pos[-1]) if len(acc._pos) > npos else []
                neg = impl._ints(acc._neg[-1]) if len(acc._neg) > nneg else []
                if -777777 in pos or -777777 in neg or max([abs(x) for x in pos + neg] + [0]) > 4 * S:
                    alive = False
                    cut += 1
                    break
                evs.append({"op": {"a": "contrib", "p": "weight", "form": "pair", "side": "-", "pos": pos, "neg": neg},
                            "ret": {"t": "ok"}, "st": impl.weights()})
                if rng.random() < 0.3:
                    do({"a": "read", "p": "weight", "side": rng.choice(["pos", "neg"])})
            if not alive:
                break
            r = rng.random()
            if r < 0.25:
                do(_rand_bound_op(rng, "weight"))
            if r < 0.7:
                ret = do({"a": "peek", "p": "weight"})
                w = impl.weights()["weight"]
                ok = ret.get("t") != "err" and (not ret["some"] or all(
                    x != -777777 and abs(x + y) <= WMAX for x, y in zip(ret["x"], w)))
                if ok:
                    do({"a": "update", "clear": rng.random() < 0.8})
                else:
                    do({"a": "clear", "p": "*", "side": "*"})
            if len(acc._pos) >= 6 or len(acc._neg) >= 6:
                do({"a": "clear", "p": "*", "side": "*"})
        if evs:
            traces.append({"hdr": {"init": init, "cfg": hdr, "waive": []}, "ev": evs, "_keep": (layer, trainers)})
    for t in traces:
        t.pop("_keep")
    return traces, cut


def _trace_clause(ev, expected):
    if not expected:
        return "Unexplained"
    cr, cs = graph.canon(ev["ret"]), graph.canon(ev["st"])
    if not any(graph.canon(o["ret"]) == cr for o in expected):
        return "RetOK"
    if not any(graph.canon(o["st"]) == cs for o in expected):
        return "StateOK"
    return "OutcomeOK"


def validate_traces(chk: Check, traces, site: str, report=True, shards=8):
    stats, rej = tracecheck.validate("UpdaterTrace", traces, shards=shards, cfg=TRACE_CFG)
    if report:
        chk.traces += len(traces)
        chk.transitions += stats["generated"]
        chk.states += stats["distinct"]
        nev = 0
        for ti, t in enumerate(traces):
            pending = False
            for e in t["ev"]:
                nev += 1
                a = e["op"]["a"]
                if a == "contrib" and (e["op"]["pos"] or e["op"]["neg"]):
                    pending = True
                if pending and a in ("read", "peek", "update", "updatesome"):
                    chk.nontrivial.add(("trace", site, ti, nev))
                if a == "clear" and e["op"]["p"] == "*":
                    pending = False
        chk.evaluations += nev
        chk.extra["trace_events"] = chk.extra.get("trace_events", 0) + nev
        chk.note(f"traces[{site}]: {len(traces)} traces, {nev} events, rejected lines={len(rej)}")
        chk.sample({"kind": "trace", "site": site, "hdr": traces[0]["hdr"]["cfg"], "first_events": traces[0]["ev"][:4]})
        for r in rej:
            t = traces[r["trace"]]
            diag = r["diag"] or {}
            exp = diag.get("expected")
            clause = "Refinement" if diag.get("refok") is False else _trace_clause(r["event"], exp)
            op = r["event"]["op"]
            rep = {"hdr": t["hdr"]["cfg"], "ops": [e["op"] for e in t["ev"][: r["line"]]], "line": r["line"],
                   "spec_state": diag.get("state"), "op": op, "expected": exp,
                   "observed": {"ret": r["event"]["ret"], "st": r["event"]["st"]}}
            sig = {"clause": clause, "op": op.get("a"), "site": site}
            ret = r["event"]["ret"]
            if isinstance(ret, dict) and ret.get("t") == "err":
                sig["raised"] = ret.get("e")
            chk.violation(sig, rep)
    return stats, rej


def canary_trace(chk: Check, trace):
    """A trace with one corrupted parameter value must be rejected at that line, its
    untouched copy accepted."""
    good = copy.deepcopy(trace)
    good["hdr"]["waive"] = []
    bad = copy.deepcopy(good)
    line = None
    for i, e in enumerate(bad["ev"]):
        if e["op"]["a"] in ("update", "updatesome"):
            p = sorted(e["st"])[0]
            e["st"][p][0] += 1
            line = i + 1
            break
    if line is None:
        bad["ev"][0]["ret"] = {"t": "err", "e": "Canary"}
        line = 1
    stats, rej = tracecheck.validate("UpdaterTrace", [good, bad], shards=1, max_waive_rounds=1, cfg=TRACE_CFG)
    lines = {(r["trace"], r["line"]) for r in rej}
    if (1, line) not in lines or any(t == 0 for t, _ in lines):
        raise MachineryFailure(f"canary: expected exactly the corrupted trace to be rejected at line {line}, got {lines}")
    chk.extra["canary_trace_rejected_at_line"] = line
    chk.note(f"canary: corrupted trace rejected at line {line}")


def unused_side_probe(chk: Check, rng):
    """UpdaterCore: with half kernels a potentiation-only application uses the upper kernel ONLY and a depression-only
    one the lower kernel ONLY ("a component nobody contributed to takes no part").  The graphs use integer orders, where
    an evaluated-and-discarded kernel cannot be seen; here the unused side carries a FRACTIONAL order and some parameter
    elements lie beyond its limit (where that kernel is NaN): the result must be finite and equal to that of a twin whose
    unused side is not configured at all."""
    import torch
    import inferno.functional as F
    from inferno.neural import LinearDense, DeltaCurrent
    n = 0
    for used in ("neg", "pos"):
        for unused_fn, kw in ((F.bound_upper_power if used == "neg" else F.bound_lower_power, {"power": 0.5}),
                              (F.bound_upper_scaled_power if used == "neg" else F.bound_lower_scaled_power, {"power": 1.5, "range": 1.0})):
            for f64 in (False, True):
                g = torch.Generator().manual_seed(rng.randrange(1 << 30))
                w0 = torch.rand(3, 4, generator=g) * 0.5 + 0.25
                # elements beyond the UNUSED side's limit (above the maximum for a depression, below the minimum else)
                w0[0, 0], w0[1, 2] = (1.25, 1.5) if used == "neg" else (-0.25, -0.5)
                part = torch.rand(3, 4, generator=g) * 0.1

                def build(with_unused):
                    c = LinearDense((4,), (3,), 1.0, synapse=DeltaCurrent.partialconstructor(1.0), weight_init=lambda w: w0.clone())
                    if f64:
                        c = c.double()
                    c.updater = c.defaultupdater()
                    if used == "neg":
                        c.updater.weight.lowerbound(F.bound_lower_multiplicative, -2.0)
                        if with_unused:
                            c.updater.weight.upperbound(unused_fn, 1.0, **kw)
                    else:
                        c.updater.weight.upperbound(F.bound_upper_multiplicative, 3.0)
                        if with_unused:
                            c.updater.weight.lowerbound(unused_fn, 0.0, **kw)
                    c.updater.weight = (None, part.to(c.weight.dtype)) if used == "neg" else (part.to(c.weight.dtype), None)
                    c.update()
                    return c.weight.detach().clone()
                n += 1
                try:
                    a, b = build(True), build(False)
                except Exception as ex:
                    chk.violation({"clause": "Raised", "site": "unused-side", "used": used, "exc": type(ex).__name__}, {"error": repr(ex)})
                    continue
                if not bool(torch.isfinite(a).all()) or not torch.allclose(a, b, rtol=1e-6, atol=1e-7):
                    chk.violation({"clause": "UnusedSideEvaluated", "site": "unused-side", "used": used, "kernel": unused_fn.__name__},
                                  {"float64": f64, "with_unused_bound": a.reshape(-1).tolist(), "without": b.reshape(-1).tolist(),
                                   "w0": w0.reshape(-1).tolist(), "part": part.reshape(-1).tolist(), "kwargs": kw})
    chk.evaluations += n
    chk.note(f"unused half kernel (fractional order, parameters beyond its limit) takes no part: {n} twin comparisons")


def run(tier: str, seed: int) -> int:
    import os
    os.environ.setdefault("_JAVA_OPTIONS", "-Xmx2g")    # small models: keep the JVMs of this check small
    chk = Check(PID, tier, seed)
    rng = random.Random(seed)
    chk.extra["rule"] = ("MC: all (state, operation) pairs of the bounded Updater model; replay: one execution per "
                         "(sampled) edge of the emitted graph on a real Updater bound to a LinearDense connection; "
                         "traces: recorded random interleavings validated by TLC. A case is non-trivial and distinct "
                         "when it is a distinct (abstract state with pending parts, operation) pair executed on the "
                         "real objects, or a distinct accepted trace event with pending parts.")
    chk.assumptions += [
        "values on a dyadic grid (scale 1/%d): float32 arithmetic is exact, comparison is by equality" % S,
        "operations whose intermediate products/quotients leave the grid are outside the model (never offered)",
        "parts are non-negative in the model-checked alphabets (C09 decides that trainers only hand such parts)",
    ]
    graphs = model_check_and_generate(chk, tier)
    budget = 4000 if tier == "quick" else None
    for g, c in graphs:
        replay_graph(chk, g, c, budget=budget, rng=rng)
    canary_replay(chk, graphs[0][0], graphs[0][1], rng)
    apalache_steps(chk, tier)
    # ---- B: random interleavings on larger configurations
    traces, ctor_errors = random_updater_traces(rng, 120 if tier == "quick" else 2500, steps=40)
    for hdr, err in ctor_errors[:1]:
        chk.violation({"clause": "CustomReductionUsed", "op": "construct", "site": "Updater.__init__", "raised": err},
                      {"call": f"Updater(connection, {hdr['params']}, reduction=<{hdr['red0']}>)",
                       "observed": f"raises {err}", "expected": "constructs; reads use the reduction", "hdr": hdr})
    _, rej = validate_traces(chk, traces, site="random-interleaving")
    ttraces, cut = trainer_traces(rng, 40 if tier == "quick" else 600)
    validate_traces(chk, ttraces, site="shipped-trainers")
    chk.extra["trainer_traces_cut_off_grid"] = cut
    bad = {r["trace"] for r in rej}
    accepted = [t for i, t in enumerate(traces) if i not in bad
                and any(e["op"]["a"] in ("update", "updatesome") for e in t["ev"])]
    if accepted:
        canary_trace(chk, accepted[0])
    elif not chk.violations:
        raise MachineryFailure("no accepted trace with an update to build the trace canary from")
    else:
        chk.note("canary(trace): every recorded trace with an update was rejected (reported above); "
                 "the replay canary stands")
    unused_side_probe(chk, rng)
    return chk.finish()


def replay(path: str) -> int:
    """./check C10 --replay <file>: re-execute a recorded failing case on the current tree."""
    import json
    doc = json.load(open(path))
    rep, sig = doc["replay"], doc["signature"]
    if sig.get("site") == "Updater.__init__":
        impl = UpdaterImpl(rep["hdr"])
        print(f"Updater(..., reduction=<{rep['hdr']['red0']}>): " + (f"raises {impl.ctor_error}" if impl.ctor_error else "constructs"))
        bad = bool(impl.ctor_error)
    elif "path" in rep and "hdr" in rep:
        impl = UpdaterImpl(rep["hdr"])
        for op in rep["path"]:
            impl.apply(op)
        if rep.get("op") is None:
            got = impl.project()
            bad = graph.canon(got) != graph.canon(rep["expected_state"])
            print("path", rep["path"], "\nexpected", rep["expected_state"], "\nobserved", got)
        else:
            impl.project()      # as in the original replay: the source state was observed (reads) first
            ret = impl.apply(rep["op"])
            st = impl.project()
            bad = not any(graph.canon(o["ret"]) == graph.canon(ret) and graph.canon(o["st"]) == graph.canon(st)
                          for o in rep["expected"])
            print("path", rep["path"], "\nop", rep["op"], "\nexpected", rep["expected"], "\nobserved", {"ret": ret, "st": st})
    elif "ops" in rep and "hdr" in rep and "trainers" not in rep["hdr"]:
        impl = UpdaterImpl(rep["hdr"])
        ret = None
        for op in rep["ops"]:
            ret = impl.apply(op)
        obs = {"ret": ret, "st": impl.weights()}
        bad = not any(graph.canon(o["ret"]) == graph.canon(obs["ret"]) and graph.canon(o["st"]) == graph.canon(obs["st"])
                      for o in (rep.get("expected") or []))
        print("ops", rep["ops"], "\nexpected", rep.get("expected"), "\nobserved", obs)
    else:
        print("this replay is not re-executable on its own (specification-level or trainer-driven case):")
        print(json.dumps(rep, indent=1)[:4000])
        return 2
    if bad:
        print(f"VIOLATION property={PID} replay={path}")
        return 1
    print("replay: the recorded case now behaves as specified")
    return 0
