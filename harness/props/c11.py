"""C11 - Batch samples never interact: a batch run equals independent single-sample runs.

T: BatchMC (BatchProduct): the batched neuron machine (per-sample states + ONE shared,
   batch-reduced adaptation + a batch-reduced accumulator) against B independent single
   machines: NonInterference with adaptation frozen, SumReductionAdditive for the sum
   reduction, CouplingIsReduce for identical samples.
B (relational): a batched instance (B in 2..5) and B identically parameterised batch-1
   instances of every component kind run on the same per-sample inputs; per step and sample
   the discrete state (spikes, refrac ticks, ring pointers, spike histories) and the real
   state (voltages, currents, histories; exact scaled integers in dyadic mode, quantised to
   tolerance units otherwise) of both are logged and TLC validates them against BatchTrace
   (clause i), including sum-additivity of the accumulated parts of batched trainers.
   Clause (ii): the per-sample projection of BATCHED neuron runs is validated against the
   single-element NeuronTrace specification given only that sample's inputs (category mode
   for all eight classes, exact dyadic mode for the linear family).
"""
from __future__ import annotations
import copy, math, os, random
import numpy as np
from ..core import Check, MachineryFailure
from .. import tlc, tracecheck
from ..impl_batch import (NeuronFix, SynapseFix, ConnectionFix, LayerFix, SYNAPSES, run_pair, BatchedRaised, torch)
from ..impl_neuron import NeuronProbe, CLASSES, ADAPTIVE, ADAPTIVE_THRESH, RECIPES
from .neuron_common import (TLCJobs, validate_neuron_traces, draw_inputs, OFF, SCALE)

PID = "C11"
# TLC evaluates a quantifier over a long sequence (histories of a delayed Conv2D: hundreds of values
# per stage) recursively: give the JVMs started by this check a deeper thread stack
os.environ.setdefault("JAVA_TOOL_OPTIONS", "-Xss64m")
XS = 1 << 16            # scale of exact real values
RTOL, ATOL = 1e-5, 1e-6


# ------------------------------------------------------------------ T
def batch_mc_constants(B, ds, rmax, depth, adapt=False, same=False, reduce="sum", curs=(0, 16, 8)):
    S = SCALE
    return dict(B=B, Ds=set(ds), Locks={True, False}, RMax=rmax, Off=OFF, CursO={OFF + x * S for x in curs},
                RestO=OFF - 2 * S, ResetO=OFF - 4 * S, ThetaO=OFF + 4 * S, Inc=2 * S, AdaptOn=adapt, SameDrive=same,
                Reduce=reduce, MaxDepth=depth + 1)


BATCH_INVARIANTS = ["NonInterference", "SumReductionAdditive", "CouplingIsReduce", "Exact"]


# ------------------------------------------------------------------ encoding of a pair of runs
class NotExact(Exception):
    pass


MISSING = -(1 << 29)     # the batched tensor has no row for this sample (batch dimension not B)


def _ints(t: torch.Tensor, i: int):
    if t.shape[0] <= i:
        return [MISSING]
    a = t[i].detach().to(torch.float64).reshape(-1).numpy()
    if not np.all(np.isfinite(a)) or np.any(np.abs(a) > 2 ** 30):
        raise NotExact("discrete field out of range")
    return [int(round(float(x))) for x in a]


def _real(tb, ts, i):
    if any(t.shape[0] <= i for t in tb):
        tb = [t if t.shape[0] > i else torch.full((i + 1,) + tuple(t.shape[1:]), float("inf")) for t in tb]
    xb = np.concatenate([t[i].detach().to(torch.float64).reshape(-1).numpy() for t in tb]) if tb else np.zeros(0)
    xs = np.concatenate([t[0].detach().to(torch.float64).reshape(-1).numpy() for t in ts]) if ts else np.zeros(0)
    return xb, xs


def _quant(xb, xs, exact: bool):
    if xb.shape != xs.shape:
        return [0] * len(xb), [1 << 20] * len(xs)
    with np.errstate(invalid="ignore", over="ignore"):
        both_inf = np.isinf(xb) & np.isinf(xs) & (np.sign(xb) == np.sign(xs))
        xb = np.where(both_inf, 0.0, xb)
        xs = np.where(both_inf, 0.0, xs)
        one_inf = np.isinf(xb) | np.isinf(xs)
        xb = np.where(one_inf, 0.0, xb)
        xs = np.where(one_inf, 1e9, xs)
        if exact:
            qb, qs = xb * XS, xs * XS
            if (np.any(np.abs(qb - np.rint(qb)) > 2 ** -8) or np.any(np.abs(qs - np.rint(qs)) > 2 ** -8)
                    or np.any(np.abs(qb) > 2 ** 30) or np.any(np.abs(qs) > 2 ** 30)):
                raise NotExact("value off the dyadic grid")
        else:
            u = RTOL * np.maximum(np.abs(xb), np.abs(xs)) + ATOL
            qb, qs = np.clip(xb / u, -1e9, 1e9), np.clip(xs / u, -1e9, 1e9)
    return [int(v) for v in np.rint(qb)], [int(v) for v in np.rint(qs)]


def encode(fix, log, exact: bool):
    """-> BatchTrace trace (raises NotExact when the dyadic recipe does not stay on the grid)"""
    evs = []
    for rec in log:
        B = rec["B"]
        samples = []
        for i in range(B):
            stages = []
            for k, (db_t, xb_t) in enumerate(rec["b"]):
                ds_t, xs_t = rec["s"][i][k]
                db = [v for t in db_t for v in _ints(t, i)]
                ds = [v for t in ds_t for v in _ints(t, 0)]
                xb, xs = _real(xb_t, xs_t, i)
                if np.isnan(xb).any() or np.isnan(xs).any():
                    raise NotExact("nan")
                bit = bool(xb.shape == xs.shape and np.array_equal(xb, xs))
                qb, qs = _quant(xb, xs, exact)
                stages.append({"db": db, "ds": ds, "qb": qb, "qs": qs, "bit": bit})
            samples.append(stages)
        acc = {"b": [], "p": [[] for _ in range(B)], "tol": 0, "on": False}
        if "acc_b" in rec:
            b = np.concatenate([t.detach().to(torch.float64).reshape(-1).numpy() for t in rec["acc_b"]])
            ps = [np.concatenate([t.detach().to(torch.float64).reshape(-1).numpy() for t in p]) for p in rec["acc_s"]]
            if exact:
                allv = [b] + ps
                if any(np.any(np.abs(v * XS - np.rint(v * XS)) > 2 ** -8) or np.any(np.abs(v * XS) > 2 ** 30) for v in allv):
                    raise NotExact("accumulated part off the dyadic grid")
                acc = {"b": [int(v) for v in np.rint(b * XS)], "p": [[int(v) for v in np.rint(p * XS)] for p in ps],
                       "tol": 0, "on": True}
            else:
                u = RTOL * np.maximum(np.abs(b), sum(np.abs(p) for p in ps)) + ATOL
                acc = {"b": [int(v) for v in np.rint(b / u)], "p": [[int(v) for v in np.rint(p / u)] for p in ps],
                       "tol": 2 + B, "on": True}
        evs.append({"s": samples, "acc": acc, "B": B, "resize": bool(rec["resize"])})
    return {"hdr": {"B": log[0]["B"], "tolq": 0 if exact else 2, "waive": [], "kind": fix.kind, "mode": "exact" if exact else "tol",
                    "desc": _jsonable(fix.desc)}, "ev": evs}


def _jsonable(d):
    out = {}
    for k, v in d.items():
        if isinstance(v, dict):
            out[k] = _jsonable(v)
        elif isinstance(v, (tuple, list)):
            out[k] = [x if isinstance(x, (int, str, bool)) else str(x) for x in v]
        elif isinstance(v, (bool, int, str)):
            out[k] = v
        else:
            out[k] = str(v)
    return out


# ------------------------------------------------------------------ the fixtures of one run
# every exported trainer, batch_reduction = sum (name, connection with learnable delays)
TRAINERS = [("STDP", False), ("STDP", True), ("TripletSTDP", False), ("MSTDP", False), ("MSTDP", True),
            ("MSTDPET", False), ("KernelSTDP", False), ("KernelSTDP", True), ("DelayAdjustedSTDP", True),
            ("DelayAdjustedSTDPD", True), ("DelayAdjustedMSTDP", True), ("DelayAdjustedMSTDPD", True),
            ("DelayAdjustedKernelSTDP", True), ("DelayAdjustedKernelSTDPD", True), ("LinearHomeostasis", False)]


def fixtures(rng: random.Random, tier: str):
    reps = 3 if tier == "quick" else 24
    out = []
    for _ in range(reps):
        for mode in ("exact", "tol"):
            for cls in (["LIF", "GLIF1", "ALIF", "GLIF2"] if mode == "exact" else list(CLASSES)):
                out.append(lambda m=mode, c=cls: NeuronFix(rng, rng.randint(2, 5), m, c))
                # the batch grown / shrunk mid-run through the public `batchsz` setter
                out.append(lambda m=mode, c=cls: NeuronFix(rng, rng.randint(2, 4), m, c, resize="grow"))
                out.append(lambda m=mode, c=cls: NeuronFix(rng, rng.randint(3, 5), m, c, resize="shrink"))
                if cls in ADAPTIVE:
                    # explicit adapt = False / None / True in train and eval mode
                    for var in NeuronFix.VARIANTS[1:]:
                        out.append(lambda m=mode, c=cls, v=var: NeuronFix(rng, rng.randint(2, 5), m, c, variant=v))
            for s in SYNAPSES:
                out.append(lambda m=mode, s=s: SynapseFix(rng, rng.randint(2, 5), m, s))
            for c in ("LinearDense", "LinearDirect", "LinearLateral", "Conv2D"):
                for d in (False, True):
                    out.append(lambda m=mode, c=c, d=d: ConnectionFix(
                        rng, rng.randint(2, 5), m, c, d,
                        rng.choice(["DeltaCurrent", "DeltaCurrent", "SingleExponentialCurrent", "DoubleExponentialCurrent"])))
            for name in ("Serial", "Biclique", "RecurrentSerial"):
                for d in (False, True):
                    out.append(lambda m=mode, n=name, d=d: LayerFix(rng, rng.randint(2, 5), m, n, d))
            for tr, d in TRAINERS:
                out.append(lambda m=mode, tr=tr, d=d: LayerFix(rng, rng.randint(2, 5), m, "Serial", d, tr))
    return out


def record_pairs(chk: Check, rng, tier):
    traces = []
    downgraded = 0
    steps = 12 if tier == "quick" else 16
    for mk in fixtures(rng, tier):
        fix = mk()
        try:
            log, _, _ = run_pair(fix, steps)
        except BatchedRaised as e:
            # the B single instances ran the step; only the batched instance raised
            sig = {"clause": "BatchedRaises", "site": "trace:batch-pair", "kind": fix.kind, "mode": fix.mode,
                   "raised": type(e.exc).__name__}
            sig.update({k: v for k, v in _jsonable(fix.desc).items()
                        if k in ("cls", "synapse", "connection", "layer", "trainer", "delayed")})
            chk.violation(sig, {"desc": _jsonable(fix.desc), "B": fix.B, "step": e.step, "error": str(e)})
            continue
        exact = fix.mode == "exact"
        try:
            tr = encode(fix, log, exact)
        except NotExact as e:
            if str(e) == "nan":
                continue
            # the dyadic recipe left the exactly representable grid: validated with tolerances instead
            downgraded += 1
            try:
                tr = encode(fix, log, False)
            except NotExact:
                continue
        tr["hdr"]["active"] = _activity(fix, log)
        traces.append(tr)
        d = fix.desc
        key = (fix.kind, tr["hdr"]["mode"], fix.B, str(sorted(_jsonable(d).items())))
        chk.nontrivial.add(key)
    if downgraded:
        chk.note(f"{downgraded} dyadic recipes left the exact grid and were validated with tolerances")
    return traces


def _activity(fix, log) -> int:
    """how much happened: spikes emitted (neurons, layers), non-zero currents (synapses,
    connections), non-zero accumulated parts (trainers)"""
    n = 0
    for rec in log:
        if "acc_b" in rec:
            n += int(sum(int((a != 0).sum()) for a in rec["acc_b"]))
            continue
        disc, real = rec["b"][-1]
        if fix.kind in ("neuron", "layer"):
            n += int(sum(int(t.sum()) for t in disc[:1 if fix.kind == "neuron" else len(disc) // 2]))
        else:
            n += int((real[0] != 0).sum())
    return n


def classify(rej):
    d = rej.get("diag") or {}
    bad = d.get("bad") or []
    if bad:
        b = sorted(bad, key=lambda x: (x["stage"], x["sample"]))[0]
        return ("Discrete" if not b["disc"] else "Real"), {"stage": b["stage"]}
    if d.get("acc") is False:
        return "SumAdditive", {}
    return "Shape", {}


def validate_pairs(chk: Check, traces, site, report=True, shards=6):
    stats, rej = tracecheck.validate("BatchTrace", traces, shards=min(shards, max(1, len(traces) // 8 + 1)),
                                     max_waive_rounds=3)
    found = []
    for r in rej:
        clause, extra = classify(r)
        found.append((r["trace"], r["line"], clause, extra))
        if report:
            h = traces[r["trace"]]["hdr"]
            sig = {"clause": clause, "site": site, "kind": h["kind"], "mode": h["mode"]}
            sig.update({k: v for k, v in h["desc"].items() if k in ("cls", "synapse", "connection", "layer", "trainer",
                                                                    "delayed")})
            sig.update(extra)
            chk.violation(sig, {"hdr": h, "line": r["line"], "event": r["event"], "diag": r["diag"]})
    if report:
        chk.traces += len(traces)
        chk.transitions += stats["generated"]
        chk.states += stats["distinct"]
        nev = sum(len(t["ev"]) * t["hdr"]["B"] for t in traces)
        chk.evaluations += nev
        kinds = {}
        for t in traces:
            k = f"{t['hdr']['kind']}/{t['hdr']['mode']}"
            kinds[k] = kinds.get(k, 0) + 1
        chk.extra["pair_traces"] = kinds
        # which neuron variants (module mode, adapt argument, batch resized through the setter) were validated
        var = {}
        for t in traces:
            d = t["hdr"]["desc"]
            if t["hdr"]["kind"] == "neuron":
                rs = "none" if d.get("resize_to") in (None, "None") else ("grow" if int(d["resize_to"]) > t["hdr"]["B"] else "shrink")
                k = f"{d['cls']}|{d['module_mode']}|adapt={d['adapt']}|resize={rs}"
                var[k] = var.get(k, 0) + 1
        chk.extra["neuron_variants"] = var
        if site != "canary":
            need = [f"{c}|eval|adapt=False|resize={r}" for c in CLASSES for r in ("none", "grow", "shrink")]
            need += [f"{c}|{m}|adapt={a}|resize=none" for c in ADAPTIVE
                     for m, a in (("eval", "None"), ("train", "False"), ("coupled-same", "True"), ("coupled-same", "None"),
                                  ("coupled-sum", "True"))]
            need += ["layer:RecurrentSerial:delayed", "connection:LinearLateral:delayed"]
            have = set(var)
            for t in traces:
                d = t["hdr"]["desc"]
                if d.get("layer") == "RecurrentSerial" and d.get("delayed") and t["hdr"]["B"] > 1:
                    have.add("layer:RecurrentSerial:delayed")
                if d.get("connection") == "LinearLateral" and d.get("delayed") and t["hdr"]["B"] > 1:
                    have.add("connection:LinearLateral:delayed")
            missing = [k for k in need if k not in have]
            if missing and not chk.violations:
                raise MachineryFailure(f"batched-vs-single drivers did not exercise: {missing}")
        idle = [f"{t['hdr']['kind']}/{t['hdr']['mode']}/{t['hdr']['desc']}" for t in traces if not t["hdr"].get("active", 1)]
        chk.extra["pair_traces_without_activity"] = len(idle)
        if len(idle) > len(traces) // 5:
            raise MachineryFailure(f"too many batched-vs-single pairs without any activity (vacuous): {idle[:5]}")
        chk.note(f"traces[{site}]: {len(traces)} batched-vs-single pairs ({kinds}), {nev} per-sample step comparisons, "
                 f"rejected lines={len(rej)}")
        t = next((t for t in traces if t["hdr"]["kind"] == "layer" and t["ev"][0]["acc"]["on"]), traces[0])
        chk.sample({"kind": "pair-trace", "hdr": t["hdr"], "first_event_sample_1": t["ev"][0]["s"][0],
                    "first_event_acc": t["ev"][0]["acc"]})
    return stats, found


# ------------------------------------------------------------------ clause (ii)
def projection_traces_category(chk: Check, rng: random.Random, tier: str):
    """batched neurons (adaptation frozen), per-sample random / adversarial drives; every element
    of the batched run, projected, must be a behaviour of the single-element NeuronStep spec"""
    traces, metas = [], []
    reps = 3 if tier == "quick" else 24
    for _ in range(reps):
        for cls in CLASSES:
            B = rng.randint(2, 5)
            lax = rng.random() < 0.4
            D = rng.choice([1, 2, 4])
            R = rng.randint(0, 2 * D + 1)
            tick = rng.choice([0.1, 0.325, 0.7] if lax else [0.25, 0.5, 1.0])
            shape = rng.choice([(3,), (2, 2), (4,)])
            lock = rng.random() < 0.6
            run = dict(cls=cls, lock=lock, adapt=False, lax=lax, D=D, R=R, tick=tick, shape=list(shape), batch=B,
                       recipe=rng.randrange(len(RECIPES[cls])), steps=30 if tier == "quick" else 50,
                       seed=rng.randrange(1 << 30))
            probe = NeuronProbe(cls, shape, B, D, R, tick, lock, False, RECIPES[cls][run["recipe"]], lax)
            probe.n.eval()
            if cls in ADAPTIVE:      # frozen but present adaptations
                K = probe.n.threshold_adaptation.shape[-1] if cls in ADAPTIVE_THRESH else probe.n.current_adaptation.shape[-1]
                preset = torch.tensor([rng.uniform(0.0, 1.5) for _ in range(int(math.prod(shape)) * K)]).reshape(tuple(shape) + (K,))
                if cls in ADAPTIVE_THRESH:
                    probe.n.threshold_adaptation = preset
                else:
                    probe.n.current_adaptation = preset
            init, cfg = probe.init_state(), probe.config()
            evs = [[] for _ in range(probe.E)]
            raws = [[] for _ in range(probe.E)]
            inputs = []
            r2 = random.Random(run["seed"])
            ms = {}
            for t in range(run["steps"]):
                x = draw_inputs(r2, None, probe, ms)
                step = probe.step(x)
                if step is None:
                    break
                inputs.append(x.reshape(-1).tolist())
                for e, ev in enumerate(step):
                    raws[e].append(ev.pop("raw"))
                    evs[e].append(ev)
            for e in range(probe.E):
                if evs[e]:
                    # the spike attribute is C03's clause; here only independence is judged
                    traces.append({"hdr": {"c": cfg, "init": init[e], "waive": [], "wc": ["SpikeAttr"]}, "ev": evs[e]})
                    metas.append({"run": run, "elem": e, "raws": raws[e], "inputs": inputs})
    return traces, metas


def projection_traces_dyadic(chk: Check, rng: random.Random, tier: str):
    """linear family, dyadic recipe: the whole per-sample trajectory (voltages exactly) is
    determined by that sample's inputs alone"""
    traces, metas = [], []
    S = SCALE
    reps = 5 if tier == "quick" else 48
    for _ in range(reps):
        for cls in ("LIF", "GLIF1", "ALIF", "GLIF2"):
            fix = NeuronFix(rng, rng.randint(2, 5), "exact", cls)
            n = fix.make(fix.B)
            E = fix.B * int(math.prod(fix.shape))
            if cls in ADAPTIVE_THRESH:
                adsum = n.threshold_adaptation.detach().double().sum(-1).expand((fix.B,) + fix.shape).reshape(-1).numpy()
            else:
                adsum = np.zeros(E)
            cfg = {"D": fix.D, "R": fix.R, "lock": fix.lock, "lax": False, "attrmode": "stored", "dy": True,
                   "rest": -2 * S, "reset": -4 * S, "theta": 4 * S, "glif": cls == "GLIF2", "mul2": 1, "add": 2 * S,
                   "adapt": False, "inc": 0}
            ad = [int(round(a * S)) for a in adsum]
            init = [{"r": 0, "lag": False, "spk": False, "attr": False, "v": -2 * S, "ad": ad[e]} for e in range(E)]
            evs = [[] for _ in range(E)]
            alive = [True] * E
            run = dict(cls=cls, lock=fix.lock, adapt=False, lax=False, D=fix.D, R=fix.R, tick=fix.tick,
                       shape=list(fix.shape), batch=fix.B, steps=12, mode="dyadic")
            inputs = []
            for t in range(12):
                x = fix.draw(t)[0]
                out = fix.step(n, (x,))
                inputs.append(x.reshape(-1).tolist())
                cur = x.reshape(-1).double().numpy()
                spk = out.reshape(-1).numpy()
                v = n.voltage.detach().double().reshape(-1).numpy()
                r = n.refrac.detach().double().reshape(-1).numpy() / fix.tick
                attr = n.spike.detach().reshape(-1).numpy()
                for e in range(E):
                    if not alive[e]:
                        continue
                    vs = v[e] * S
                    if abs(vs - round(vs)) > 2 ** -8 or abs(vs) > 2 ** 30 or abs(v[e] * 65536 - round(v[e] * 65536)) > 0:
                        alive[e] = False      # beyond the exactly representable grid: stop judging this element
                        continue
                    rt = int(r[e]) if (r[e] == int(r[e]) and r[e] >= 0) else -7
                    evs[e].append({"op": {"cur": int(round(cur[e] * S))}, "ret": {"spk": bool(spk[e])},
                                   "st": {"r": rt, "lag": False, "rneg": bool(r[e] < 0), "attr": bool(attr[e]),
                                          "v": int(round(vs)), "ad": ad[e]}})
            for e in range(E):
                if evs[e]:
                    traces.append({"hdr": {"c": cfg, "init": init[e], "waive": [], "wc": ["SpikeAttr"]}, "ev": evs[e]})
                    metas.append({"run": run, "elem": e, "raws": [None] * len(evs[e]), "inputs": inputs})
    return traces, metas


# ------------------------------------------------------------------ canaries
def canary_pairs(chk: Check, traces):
    """(a) sample 2's spike of the batched run leaks into sample 1's discrete projection;
    (b) a real value off by 5 units; (c) a batched accumulated part that is not the sum."""
    clean = [t for t in traces if not t["hdr"]["waive"]]      # rejected traces carry their failing lines
    src = next((t for t in clean if t["hdr"]["kind"] in ("neuron", "layer") and t["hdr"]["mode"] == "exact"
                and any(e["s"][0][-1]["db"] != e["s"][1][-1]["db"] for e in t["ev"])), None)
    acc = next((t for t in clean if t["ev"][0]["acc"]["on"] and any(any(e["acc"]["b"]) for e in t["ev"])), None)
    if src is None or acc is None:
        if chk.violations:
            chk.note("canary (pairs) skipped: no accepted trace left to corrupt - violations are being reported")
            return
        raise MachineryFailure("canary: no suitable pair trace recorded")
    good = copy.deepcopy(src); good["hdr"]["waive"] = []
    bad1 = copy.deepcopy(good)
    line1 = None
    for li, e in enumerate(bad1["ev"]):
        s1, s2 = e["s"][0], e["s"][1]
        k = len(s1) - 1
        if s1[k]["db"] != s2[k]["db"]:
            s1[k]["db"] = list(s2[k]["db"])
            line1 = li + 1
            break
    if line1 is None:
        raise MachineryFailure("canary: the two first samples never differ")
    bad2 = copy.deepcopy(good)
    st = bad2["ev"][2]["s"][0][-1]
    st["qb"][0] += 5
    st["bit"] = False
    good3 = copy.deepcopy(acc); good3["hdr"]["waive"] = []
    bad3 = copy.deepcopy(good3)
    line3 = next(li for li, e in enumerate(bad3["ev"]) if any(e["acc"]["b"])) + 1
    e3 = bad3["ev"][line3 - 1]["acc"]
    j = next(i for i, v in enumerate(e3["b"]) if v)
    e3["b"][j] += 7 + e3["tol"]
    batch = [good, bad1, bad2, good3, bad3]
    stats, found = validate_pairs(chk, batch, "canary", report=False, shards=1)
    got = {(t, l): c for t, l, c, _ in found}
    want = {(1, line1): "Discrete", (2, 3): "Real", (4, line3): "SumAdditive"}
    if any(t in (0, 3) for t, _ in got):
        raise MachineryFailure(f"canary: an untouched pair trace was rejected: {got}")
    for k, v in want.items():
        if got.get(k) != v:
            raise MachineryFailure(f"canary: corrupted pair trace not rejected as expected: wanted {want}, got {got}")
    chk.extra["canary_pairs"] = [f"trace {k[0]} line {k[1]}: {v}" for k, v in want.items()]
    chk.note("canary: leaked spike (Discrete), shifted voltage (Real) and non-additive accumulated part (SumAdditive) "
             "rejected; originals accepted")


def canary_projection(chk: Check, traces):
    """a per-sample projection whose voltage takes another sample's value must leave the
    single-element spec"""
    src = next((t for t in traces if t["hdr"]["c"]["dy"] and len(t["ev"]) >= 3 and not t["hdr"]["waive"]
                and t["hdr"]["wc"] == ["SpikeAttr"]), None)
    if src is None:
        if chk.violations:
            chk.note("canary (projection) skipped: no accepted trace left to corrupt - violations are being reported")
            return
        raise MachineryFailure("canary: no dyadic projection trace")
    good = copy.deepcopy(src); good["hdr"]["waive"] = []; good["hdr"]["wc"] = ["SpikeAttr"]
    bad = copy.deepcopy(good)
    bad["ev"][1]["st"]["v"] += 1
    tot, found = validate_neuron_traces(chk, [good, bad], [None, None], "canary", report=False, shards=1, rounds=1)
    got = {(g, l) for g, l, c, _, _ in found}
    if (1, 2) not in got or any(g == 0 for g, _ in got):
        raise MachineryFailure(f"canary: corrupted projection not rejected as expected: {got}")
    chk.note("canary: a projection with a foreign voltage was rejected by the single-element spec")


def run(tier: str, seed: int) -> int:
    chk = Check(PID, tier, seed)
    rng = random.Random(seed)
    torch.manual_seed(seed)
    chk.extra["rule"] = ("MC: all per-sample drive combinations of the batched-vs-independent neuron product up to the "
                         "depth bound. Pairs: a distinct non-trivial case is a distinct (component kind, mode, B, "
                         "configuration) batched-vs-single pair executed on the real classes. Projections: distinct "
                         "(class, lock, D, R, lax, spike pattern) element traces of batched runs with a spike.")
    quick = tier == "quick"
    jobs = TLCJobs(parallel=3)
    mc = [("B2-frozen-sum", batch_mc_constants(2, {1, 2}, 3, 4 if quick else 6)),
          ("B2-adaptive-same-mean", batch_mc_constants(2, {1, 2}, 3, 5 if quick else 8, adapt=True, same=True, reduce="mean")),
          ("B3-frozen-sum", batch_mc_constants(3, {1}, 2, 3 if quick else 5, curs=(0, 16)))]
    try:
        for name, consts in mc:
            jobs.submit(name, "BatchMC", tlc.cfg_text(constants=consts, invariants=BATCH_INVARIANTS,
                                                      constraints=["Bounded"]), workers=4, timeout=1500)
        # ---- B (i): pairs of runs
        pairs = record_pairs(chk, rng, tier)
        # ---- B (ii): projections of batched neuron runs
        ptr_c, pm_c = projection_traces_category(chk, rng, tier)
        ptr_d, pm_d = projection_traces_dyadic(chk, rng, tier)
        for name, consts in mc:
            res = jobs.result(name)
            if res.violated:
                chk.violation({"clause": "MC:" + ",".join(res.violated), "site": "spec", "config": name},
                              {"config": name, "tlc_tail": res.out[-4000:]})
            elif not res.ok:
                raise MachineryFailure(f"TLC run {name} did not complete: {res.out[-2000:]}")
            chk.add_tlc("mc:" + name, res)
            chk.note(f"mc {name}: {res.distinct} states, {res.generated} transitions, {res.wall:.1f}s, violated={res.violated}")
    finally:
        jobs.close()

    validate_pairs(chk, pairs, site="trace:batch-pair")
    ptraces, pmetas = ptr_c + ptr_d, pm_c + pm_d
    for t, m in zip(ptraces, pmetas):
        if any(ev["ret"]["spk"] for ev in t["ev"]):
            r = m["run"]
            chk.nontrivial.add((r["cls"], r["lock"], r["D"], r["R"], r["lax"], r.get("mode", "category"),
                                "".join("1" if ev["ret"]["spk"] else "0" for ev in t["ev"])))
    validate_neuron_traces(chk, ptraces, pmetas, site="trace:batch-projection")
    chk.extra["projection_traces"] = {"category": len(ptr_c), "dyadic": len(ptr_d)}
    if ptr_d:
        chk.sample({"kind": "projection-trace", "run": pm_d[0]["run"], "element": pm_d[0]["elem"],
                    "first_events": ptr_d[0]["ev"][:4]})

    canary_pairs(chk, pairs)
    canary_projection(chk, ptraces)
    return chk.finish()
