"""C12 - checkpoint at any step, restore into another instance, identical future.

T: CheckpointMC: the save/load protocol over abstract components whose variables are
   classified persisted / derived-on-load / config / volatile.  TLC explores every table,
   every checkpoint step k, both target kinds (fresh + warm-up, previously run), all inputs:
   LoadRestoresAll(table) => FuturesEqual; and (as a must-fail run) that a volatile variable
   does lead to different futures.
B: for real models (neurons x synapses x connections with and without delays x layer kinds x
   trainers x stand-alone monitors/reducers x MaxRateClassifier, in-place or not) and EVERY
   checkpoint step k in 0..T and both target kinds the two runs are recorded: A (k steps,
   torch.save of all state_dicts) and B (other initial weights, warmed up / run on other
   data, load_state_dict), then common inputs.  The harness derives the variable table from
   the registration mechanism (parameters, buffers, non-persistent buffers, extras, load
   hooks) and from comparing differently driven runs; TLC (CheckpointTrace) validates the
   header against LoadRestoresAll, the per-variable effect of the load against the class of
   each variable, and the equality of outputs / state dictionaries / registered variables /
   public getters of A and B at the load and at every later step.
"""
from __future__ import annotations
import copy, json, os, random
from ..core import Check, MachineryFailure
from .. import tlc, tracecheck
import copy as _copy
from ..impl_checkpoint import (Bundle, Interner, freeze, differing, make_inputs, probe_infer, LAYERS, CONNS, SYNS, NEURONS,
                                TRAINERS)
from ..impl_checkpoint import torch, MaxRateClassifier

PID = "C12"


# ------------------------------------------------------------------------------------------ T
def run_protocol_mc(chk, thorough):
    nv, mt = (4, 4) if thorough else (3, 2)
    c = dict(NVars=nv, MaxT=mt, MaxPrior=2, Tables="all")
    res = tlc.run("CheckpointMC", tlc.cfg_text(constants=c, invariants=["TypeOK", "FuturesEqual"]), workers=4, timeout=3000)
    if res.violated:
        chk.violation({"clause": "MC:" + ",".join(res.violated), "site": "spec"}, {"tlc_tail": res.out[-4000:]})
    elif not res.ok:
        raise MachineryFailure(f"CheckpointMC did not complete: {res.out[-2000:]}")
    chk.add_tlc("mc:protocol", res)
    chk.note(f"mc protocol: {res.distinct} states, {res.generated} transitions, depth {res.depth}, {res.wall:.1f}s")
    c2 = dict(NVars=3, MaxT=2, MaxPrior=1, Tables="volatile")
    res2 = tlc.run("CheckpointMC", tlc.cfg_text(constants=c2, invariants=["NeverDiffer"]), workers=4, timeout=3000)
    if "NeverDiffer" not in res2.violated:
        raise MachineryFailure("protocol model: a volatile variable did not lead to different futures (model insensitive)")
    chk.note("mc protocol: with a volatile variable TLC finds differing futures (NeverDiffer fails, as it must)")


# ------------------------------------------------------------------------------------------ B
def derive_table(cfg, seed, n=4):
    """Classify every registered variable.  dynamic := differs from the freshly built instance
    after n steps, or differs between two runs on different data."""
    fresh = Bundle(cfg, seed)
    r1, r2 = Bundle(cfg, seed), Bundle(cfg, seed)
    x1 = make_inputs(r1, seed * 31 + 1, n)
    x2 = make_inputs(r2, seed * 31 + 2, n)
    for t in range(n):
        r1.step(x1[0][t], x1[1][t], x1[2][t])
        r2.step(x2[0][t], x2[1][t], x2[2][t])
    f, _ = fresh.registered()
    a, hooked = r1.registered()
    b, _ = r2.registered()
    table = {}
    for key in sorted(set(f) | set(a) | set(b)):
        how, base = (a.get(key) or b.get(key) or f.get(key))[1:]
        va, vb, vf = (freeze(d[key][0]) if key in d else None for d in (a, b, f))
        dynamic = va != vf or va != vb
        if how in ("parameter", "buffer", "extra"):
            cls = "persisted"
        elif base in hooked:
            cls = "derived"
        else:
            cls = "volatile" if dynamic else "config"
        table[key] = {"cls": cls, "dyn": dynamic, "how": how}
    return table


def group_tokens(it: Interner, b: Bundle, outs):
    reg, _ = b.registered()
    return {"out": it.group({f"out{i}": y for i, y in enumerate(outs["out"])} | {k: v for k, v in outs.items() if k != "out"})
            if outs is not None else 0,
            "sd": it.group(b.statedicts()), "reg": it.group({k: v[0] for k, v in reg.items()}),
            "pub": it.group(b.public())}


def group_detail(a: Bundle, b: Bundle, oa, ob):
    d = {}
    x = differing(a.statedicts(), b.statedicts())
    if x:
        d["sd"] = x[:12]
    ra, rb = a.registered()[0], b.registered()[0]
    x = differing({k: v[0] for k, v in ra.items()}, {k: v[0] for k, v in rb.items()})
    if x:
        d["reg"] = x[:12]
    x = differing(a.public(), b.public())
    if x:
        d["pub"] = x[:12]
    if oa is not None and ob is not None:
        fa = {f"out{i}": y for i, y in enumerate(oa["out"])} | {k: v for k, v in oa.items() if k != "out"}
        fb = {f"out{i}": y for i, y in enumerate(ob["out"])} | {k: v for k, v in ob.items() if k != "out"}
        x = differing(fa, fb)
        if x:
            d["out"] = x
    return d


def one_trace(cfg, table, seeds, k, target, T):
    """Record one checkpoint experiment.  Returns (trace, details per event, spikes seen)."""
    it = Interner()
    keys = sorted(table)
    sa, sb, sx, sy = seeds
    upd = int(cfg.get("update_every", 1))
    A = Bundle(cfg, sa)
    post = max(T - k, 3)
    xs, ls, rs = make_inputs(A, sx, k + post)
    spikes = 0
    for t in range(k):
        o = A.step(xs[t], ls[t], rs[t])
        spikes += int(sum(int(y.sum()) for y in o["out"]))
    blob = A.save()
    regA = A.registered()[0]
    tokv = lambda reg: [it.tok(freeze(reg[key][0])) if key in reg else 0 for key in keys]  # noqa: E731
    hdr = {"cfg": dict(cfg, k=k, target=target, T=T, seeds=list(seeds)),
           "table": [{"name": key, "cls": table[key]["cls"]} for key in keys], "waive": []}
    evs = [{"op": {"a": "save", "k": k}, "ret": {"vars": tokv(regA)}}]
    det = [{"volatile": [key for key in keys if table[key]["cls"] == "volatile"]}]
    # target kinds: fresh (+ one warm-up step) | prior (run on other data) | prior-recycled (run on other data, then every
    # fold reducer cleared with keepshape=True) | factory-to (built by a
    # factory and passed through .to) | copy-pristine / copy-prior (the classifier of the target is a
    # copy.deepcopy of a pristine template / of the target's own trained classifier)
    if target == "factory-to":
        def factory():
            b = Bundle(cfg, sb)
            for part in b.parts().values():
                part.to(torch.float32)
            return b
        B = factory()
    else:
        B = Bundle(cfg, sb)
    short = target in ("fresh", "factory-to", "copy-pristine")
    if k == 0:
        m = 0                                  # an unshaped checkpoint fits an unshaped target only
    elif short:
        m = 1 if upd == 1 else (1 if k % upd == 1 else upd)
    else:
        m = 3 + (k % 2) if upd == 1 else (k % upd) + upd
    ys, yl, yr = make_inputs(B, sy, max(m, 1))
    if target == "copy-pristine":
        template = MaxRateClassifier(B.clf.shape, 3, decay=0.1)
        B.keepalive.append(template)
        B.clf = _copy.deepcopy(template)
    for t in range(m):
        B.step(ys[t], yl[t], yr[t])
    if target == "prior-recycled":
        B.recycle()                            # run on other data, then reset for reuse (shapes kept)
    if target == "copy-prior":
        B.keepalive.append(B.clf)              # the original stays alive next to its copy
        B.clf = _copy.deepcopy(B.clf)
    before = B.registered()[0]
    hdr["differs_before_load"] = it.group(B.statedicts()) != it.group(A.statedicts())
    # every other experiment deserialises the checkpoint ONCE and first loads that object into a third instance,
    # which then runs on: the target must still receive the checkpoint as it was saved (a load must not make the
    # instance share mutable state with the checkpoint object)
    sd = None
    if (k + len(target)) % 2 == 0 and k > 0:
        try:
            sd = Bundle.deserialise(blob)
            D = Bundle(cfg, sb + 101)
            zs, zl, zr = make_inputs(D, sy + 7, m + 3)
            for t in range(m):
                D.step(zs[t], zl[t], zr[t])
            D.load(blob, sd)
            for t in range(m, m + 3):
                D.step(zs[t], zl[t], zr[t])
            hdr["cfg"]["shared_checkpoint_object"] = True
        except Exception:
            sd = None                          # the decoy is not the subject: fall back to a private copy
    try:
        B.load(blob, sd)
    except Exception as e:
        evs.append({"op": {"a": "load", "m": m}, "ret": {"t": "err", "e": type(e).__name__}})
        det.append({"raised": type(e).__name__, "message": str(e)[:600]})
        return {"hdr": hdr, "ev": evs}, det, spikes
    after = B.registered()[0]
    ta, tb_, tA = tokv(after), tokv(before), evs[0]["ret"]["vars"]
    bad = [keys[i] for i in range(len(keys))
           if (table[keys[i]]["cls"] in ("persisted", "derived") and ta[i] != tA[i])
           or (table[keys[i]]["cls"] == "config" and (ta[i] != tb_[i] or ta[i] != tA[i]))]
    # classification right after the load, before any update
    ia, ib = probe_infer(A, sx + 17), probe_infer(B, sx + 17)
    ga, gb = group_tokens(it, A, ia), group_tokens(it, B, ib)
    evs.append({"op": {"a": "load", "m": m}, "ret": {"t": "ok", "before": tb_, "after": ta, "a": ga, "b": gb}})
    det.append({"not_restored": bad[:20], "groups": group_detail(A, B, ia, ib) if ga != gb else {}})
    for t in range(k, k + post):
        oa = A.step(xs[t], ls[t], rs[t])
        ob = B.step(xs[t], ls[t], rs[t])
        spikes += int(sum(int(y.sum()) for y in oa["out"]))
        ga, gb = group_tokens(it, A, oa), group_tokens(it, B, ob)
        evs.append({"op": {"a": "step", "t": t + 1}, "ret": {"a": ga, "b": gb}})
        det.append({"groups": group_detail(A, B, oa, ob) if ga != gb else {}})
    return {"hdr": hdr, "ev": evs}, det, spikes


def conv_trainable() -> bool:
    """Conv2D.presyn_receptive raised for every trainer on some trees (a C05/C08 matter, not C12)."""
    try:
        cfg = dict(layer="serial", conn="conv", syn="delta", neuron="lif", trainer="stdp", delayed=False, inplace=False)
        b = Bundle(cfg, 1)
        xs, ls, rs = make_inputs(b, 1, 1)
        b.step(xs[0], ls[0], rs[0])
        return True
    except Exception:
        return False


CONV_TRAINABLE = conv_trainable()


def valid(cfg):
    if cfg["conn"] == "conv" and cfg["trainer"] != "none" and not CONV_TRAINABLE:
        return False
    if cfg["trainer"] in ("dastdp", "dastdpd") and not cfg["delayed"]:
        return False      # delay-adjusted rules need a connection with delays
    if cfg["trainer"] == "stdp-delayed" and not cfg["delayed"]:
        return False
    return True


def choose_configs(rng, thorough):
    base = dict(layer="serial", conn="dense", syn="single", neuron="alif", trainer="stdp", delayed=True, inplace=False)
    cfgs = [dict(base)]
    # one-factor-at-a-time around the base, then random combinations
    for key, vals in (("layer", LAYERS), ("conn", CONNS), ("syn", SYNS), ("neuron", NEURONS), ("trainer", TRAINERS)):
        for v in vals:
            c = dict(base, **{key: v})
            if valid(c) and c not in cfgs:
                cfgs.append(c)
    cfgs.append(dict(base, delayed=False))
    cfgs.append(dict(base, inplace=True))
    cfgs.append(dict(base, update_every=2))
    cfgs.append(dict(base, resized=True))                               # histories lengthened from one slot by setters
    cfgs.append(dict(base, resized=True, syn="delta", trainer="stdp-delayed", inplace=True))
    cfgs.append(dict(base, layer="recurrent", trainer="mstdpet", update_every=2, inplace=True))
    n_rand = 30 if thorough else 2
    tries = 0
    while n_rand and tries < 1000:
        tries += 1
        c = dict(layer=rng.choice(LAYERS), conn=rng.choice(CONNS), syn=rng.choice(SYNS), neuron=rng.choice(NEURONS),
                 trainer=rng.choice(TRAINERS), delayed=rng.random() < 0.6, inplace=rng.random() < 0.5)
        if rng.random() < 0.25:
            c["update_every"] = 2
        if valid(c) and c not in cfgs:
            cfgs.append(c)
            n_rand -= 1
    if not thorough:
        # quick tier: the base, every layer kind, every trainer, and a sample of the rest
        keep = [c for c in cfgs if c == base or c["layer"] != "serial" or c["trainer"] not in ("stdp",)
                or c.get("update_every") or c["inplace"] or c["conn"] != "dense" or c.get("resized")]
        rest = [c for c in cfgs if c not in keep]
        rng.shuffle(rest)
        cfgs = keep
    return cfgs


def signature_of(clause, cfg, detail, names):
    part = var = None
    keys = []
    if clause in ("Restored", "HeaderOK"):
        keys = names or detail.get("not_restored") or detail.get("volatile") or []
    else:
        g = detail.get("groups", {})
        keys = g.get({"StateEq": "sd", "RegEq": "reg", "PubEq": "pub", "OutEq": "out", "LoadEq": "sd"}.get(clause, "sd"), []) \
            or g.get("reg", []) or g.get("pub", []) or g.get("out", [])
    if keys:
        first = keys[0]
        part = first.split(":")[0] if ":" in first else first.split(".")[0]
        var = first.split("#")[-1].split("/")[-1].split(".")[-1]
    sig = {"clause": clause, "site": "checkpoint-traces", "part": part, "var": var}
    if clause == "LoadOK":
        sig["raised"] = detail.get("raised")
    return sig


def run_traces(chk, rng, thorough):
    T = 15 if thorough else 6
    cfgs = choose_configs(rng, thorough)
    traces, details = [], []
    spiking = 0
    tables = {}
    skipped = []
    for ci, cfg in enumerate(list(cfgs)):
        seed = rng.randrange(1, 10 ** 6)
        try:
            table = derive_table(cfg, seed)
        except Exception as e:
            # the model itself cannot be stepped on this tree: nothing to checkpoint (not a C12 matter)
            skipped.append({"cfg": cfg, "raised": type(e).__name__, "message": str(e)[:200]})
            cfgs.remove(cfg)
            continue
        tables[json.dumps(cfg, sort_keys=True)] = table
        ks = list(range(0, T + 1))
        extras = ("factory-to", "copy-pristine", "copy-prior", "prior-recycled")
        for k in ks:
            for target in ("fresh", "prior") + extras:
                if k == 0 and target in ("prior", "copy-prior", "prior-recycled"):
                    continue
                if target in extras and thorough:
                    # thorough tier: every k on the first ten configurations, four values of k elsewhere
                    if ci >= 10 and k not in (0, 1, T // 2, T):
                        continue
                if target in extras and not thorough:
                    # quick tier: all extra kinds on the first configurations at a few k, one rotating kind elsewhere
                    if ci < 3:
                        if k not in (0, 1, 3, T):
                            continue
                    elif k != 2 or target != extras[ci % len(extras)]:
                        continue
                seeds = (seed, seed + 1, seed * 3 + k, seed * 5 + k + 1)
                tr, det, spikes = one_trace(cfg, table, seeds, k, target, T)
                traces.append(tr)
                details.append(det)
                if spikes:
                    spiking += 1
                    chk.nontrivial.add((json.dumps(cfg, sort_keys=True), k, target))
    if skipped:
        chk.extra["configurations_not_runnable"] = skipped
        chk.note(f"{len(skipped)} configurations cannot be stepped on this tree and were left out: "
                 + "; ".join(sorted({f"{x['cfg']['layer']}/{x['cfg']['conn']}/{x['cfg']['trainer']}: {x['raised']}" for x in skipped})))
    if len(skipped) > len(cfgs):
        raise MachineryFailure(f"most configurations cannot be stepped ({len(skipped)} of {len(skipped) + len(cfgs)})")
    if spiking < len(traces) // 2:
        raise MachineryFailure(f"checkpoint runs are mostly silent ({spiking}/{len(traces)}): vacuous")
    differing_targets = sum(1 for t in traces if t["hdr"].get("differs_before_load"))
    if differing_targets < 0.9 * len(traces):
        raise MachineryFailure(f"only {differing_targets}/{len(traces)} targets differed from the checkpoint before load")
    chk.extra["targets_differing_before_load"] = differing_targets
    ncls = {}
    for t in tables.values():
        for v in t.values():
            ncls[v["cls"]] = ncls.get(v["cls"], 0) + 1
    chk.extra["configurations"] = len(cfgs)
    chk.extra["table_classes"] = ncls
    chk.extra["dynamic_variables"] = sum(1 for t in tables.values() for v in t.values() if v["dyn"])
    chk.note(f"tables: {len(cfgs)} configurations, registered variables by class {ncls}")
    clean = [{"hdr": {"table": t["hdr"]["table"], "waive": []}, "ev": t["ev"]} for t in traces]
    stats, rej = tracecheck.validate("CheckpointTrace", clean, shards=4)
    chk.traces += len(traces)
    chk.transitions += stats["generated"]
    chk.states += stats["distinct"]
    chk.evaluations += sum(len(t["ev"]) for t in traces)
    chk.note(f"traces[checkpoint]: {len(traces)} experiments ({len(cfgs)} configurations x k in 0..{T} x target kinds), "
             f"{sum(len(t['ev']) for t in traces)} events, rejected lines={len(rej)}")
    s = traces[len(traces) // 2]
    chk.sample({"kind": "checkpoint-experiment", "cfg": s["hdr"]["cfg"],
                "table_head": s["hdr"]["table"][:5], "events": [dict(e, ret="...") if e["op"]["a"] != "step" else e
                                                                for e in s["ev"][:4]]})
    for r in rej:
        t = traces[r["trace"]]
        cfg = t["hdr"]["cfg"]
        det = details[r["trace"]][r["line"] - 1]
        diag = r["diag"] or {}
        names = [t["hdr"]["table"][i - 1]["name"] for i in sorted(diag.get("vars", []))]
        for clause in sorted(diag.get("clauses", ["Unexplained"])):
            chk.violation(signature_of(clause, cfg, det, names),
                          {"cfg": cfg, "line": r["line"], "op": r["event"]["op"], "clauses": diag.get("clauses"),
                           "variables": names[:20], "detail": det})
    return traces, rej


def canary(chk, traces, rej):
    bad_traces = {r["trace"] for r in rej}
    src = next((t for i, t in enumerate(traces) if i not in bad_traces and len(t["ev"]) > 3), None)
    if src is None:
        src = next(t for t in traces if len(t["ev"]) > 1)
    good = {"hdr": {"table": src["hdr"]["table"], "waive": []}, "ev": copy.deepcopy(src["ev"])}
    results = []
    # (1) a state variable of B that differs two steps after the load
    bad1 = copy.deepcopy(good)
    line1 = len(bad1["ev"])
    if bad1["ev"][-1]["op"]["a"] == "step":
        bad1["ev"][-1]["ret"]["b"]["sd"] += 100000
        results.append(("StateEq", bad1, line1))
    # (2) a persisted variable (e.g. a ring pointer) not restored by the load
    bad2 = copy.deepcopy(good)
    li = next((i for i, e in enumerate(bad2["ev"]) if e["op"]["a"] == "load" and e["ret"]["t"] == "ok"), None)
    if li is not None:
        idx = next(i for i, row in enumerate(bad2["hdr"]["table"]) if row["cls"] == "persisted")
        bad2["ev"][li]["ret"]["after"][idx] += 100000
        results.append(("Restored", bad2, li + 1))
    # (3) a table with a volatile variable must fail the header clause
    bad3 = copy.deepcopy(good)
    bad3["hdr"]["table"][0] = dict(bad3["hdr"]["table"][0], cls="volatile")
    results.append(("HeaderOK", bad3, 1))
    batch = [good] + [b for _, b, _ in results]
    _, rj = tracecheck.validate("CheckpointTrace", batch, shards=1, max_waive_rounds=1)
    got = {(r["trace"], r["line"]): set((r["diag"] or {}).get("clauses", [])) for r in rj}
    for i, (clause, _, line) in enumerate(results, start=1):
        if clause not in got.get((i, line), set()):
            raise MachineryFailure(f"canary: corrupted experiment not rejected by {clause} at line {line}: {got}")
    if src in [traces[i] for i in range(len(traces)) if i not in bad_traces] and any(t == 0 for t, _ in got):
        raise MachineryFailure(f"canary: the untouched experiment was rejected: {got}")
    chk.note(f"canary: corrupted experiments rejected ({', '.join(c for c, _, _ in results)})")


def probe_deepcopy(chk):
    """Is a copy.deepcopy of an inferno component 'another instance'?  Deep-copied classifiers are
    used as restore targets above; for the other parts this probe records what the tree does."""
    from ..impl_checkpoint import _neuron, Bundle as _B
    n = _neuron("lif", (3,), 1)
    try:
        c = _copy.deepcopy(n)
        v0 = n.voltage.clone()
        c(torch.full((1, 3), 500.0))
        aliased = not torch.equal(n.voltage, v0)
        stale = torch.equal(c._buffers.get("_voltage__data", c.voltage), v0) if "_voltage__data" in c._buffers else False
        if aliased:
            chk.violation({"clause": "CopyIndependent", "site": "deepcopy-probe", "part": "neuron"},
                          {"what": "stepping copy.deepcopy(LIF) changed the ORIGINAL neuron's voltage",
                           "original_voltage_before": v0.tolist(), "original_voltage_after": n.voltage.tolist(),
                           "copy_own_buffer_unchanged": bool(stale)})
        else:
            chk.note("deepcopy probe: a deep-copied neuron is independent of its original")
    except Exception as e:
        chk.note(f"deepcopy probe: neurons cannot be deep-copied ({type(e).__name__})")
    cfg = dict(layer="serial", conn="dense", syn="delta", neuron="lif", trainer="stdp", delayed=False, inplace=False)
    b = _B(cfg, 1)
    for name, part in b.parts().items():
        if name == "clf":
            continue
        try:
            _copy.deepcopy(part)
            chk.note(f"deepcopy probe: {name} can be deep-copied (not used as a restore target: shares the neuron limitation)")
        except Exception as e:
            chk.note(f"deepcopy probe: {name} cannot be deep-copied ({type(e).__name__}: {str(e)[:60]}); "
                     "deep-copied restore targets are limited to the classifier")


def run(tier: str, seed: int) -> int:
    chk = Check(PID, tier, seed)
    rng = random.Random(seed)
    thorough = tier == "thorough"
    chk.extra["rule"] = ("MC: the checkpoint protocol over all variable tables, checkpoint steps and target kinds; traces: "
                         "one recorded two-run experiment per (configuration, checkpoint step k, target kind). A case is "
                         "distinct and non-trivial when it is a distinct (configuration, k, target) whose runs spiked.")
    chk.assumptions.append("a checkpoint taken before the first step (k = 0) is loaded into an equally unshaped fresh target; "
                           "targets with pending accumulated updates are phase-aligned with the checkpoint")
    if not CONV_TRAINABLE:
        chk.note("Conv2D cells cannot be trained on this tree (presyn_receptive raises): conv is checkpointed without trainer")
    # persistence clause for the ring buffers themselves ("ring-buffer contents together with their write
    # positions"): RecordPersist specification, its TLC runs and graph replays, in a process of its own
    from .. import subcheck
    rp = None if os.environ.get("G6_SKIP_EXT") else subcheck.spawn(PID, "harness.props.record_persist",
                                                                    "run_record_persist", tier, seed + 1, "record-persist")
    try:
        run_protocol_mc(chk, thorough)
        traces, rej = run_traces(chk, rng, thorough)
        canary(chk, traces, rej)
        probe_deepcopy(chk)
    finally:
        if rp is not None:
            subcheck.join(chk, rp)
    # extensions of the specification beyond the listed property (DESIGN section 7)
    if not os.environ.get("G6_SKIP_EXT"):
        run_module_extras(chk, rng, thorough)
        run_classifier(chk, rng, thorough)
    return chk.finish()


def replay(path: str) -> int:
    doc = json.loads(open(path).read())
    rep = doc["replay"]
    cfg = dict(rep["cfg"])
    k, target, T, seeds = cfg.pop("k"), cfg.pop("target"), cfg.pop("T"), tuple(cfg.pop("seeds"))
    table = derive_table(cfg, seeds[0])
    tr, det, _ = one_trace(cfg, table, seeds, k, target, T)
    clean = [{"hdr": {"table": tr["hdr"]["table"], "waive": []}, "ev": tr["ev"]}]
    _, rej = tracecheck.validate("CheckpointTrace", clean, shards=1)
    for r in rej:
        print(json.dumps({"line": r["line"], "op": r["event"]["op"], "clauses": (r["diag"] or {}).get("clauses"),
                          "detail": det[r["line"] - 1]}, indent=1, default=str))
    if rej:
        print(f"VIOLATION property={PID} replay={path}")
    return 1 if rej else 0


# ------------------------------------------------------------------------------------------
# Extension phase 1 (DESIGN section 7, item 1): Module extras / attribute storage
# ------------------------------------------------------------------------------------------
def run_module_extras(chk, rng, thorough):
    from .. import graph
    from ..impl_moduleextras import ModuleImpl
    ALLK = {"reg", "assign", "delete", "read", "persist"}
    INV = ["TypeOK", "ExclusiveInv", "Refinement", "RoundTrip", "Consistent"]

    def mc(name, names, kinds, depth, inv, mismatch=False, must_fail=None):
        c = dict(Names=set(names), OpKinds=set(kinds), AllowMismatch=mismatch, MaxDepth=depth)
        res = tlc.run("ModuleExtrasMC", tlc.cfg_text(constants=c, invariants=inv, constraints=["Bounded"]), workers=4,
                      timeout=3000)
        if must_fail:
            if must_fail not in res.violated:
                raise MachineryFailure(f"ModuleExtras {name}: TLC did not reach the expected counterexample of {must_fail}")
            chk.note(f"mc extras {name}: {must_fail} fails as expected (design-level observation, see notes/EXT-ModuleExtras.md)")
            return
        if res.violated:
            chk.violation({"clause": "MC:" + ",".join(res.violated), "site": "spec:ModuleExtras", "config": name},
                          {"config": name, "tlc_tail": res.out[-4000:]})
        elif not res.ok:
            raise MachineryFailure(f"ModuleExtrasMC {name} did not complete: {res.out[-2000:]}")
        chk.add_tlc("mc:extras-" + name, res)
        chk.note(f"mc extras {name}: {res.distinct} states, {res.generated} transitions, depth {res.depth}, {res.wall:.1f}s")

    # the state spaces are finite: no depth bound, the whole closure is explored (MaxDepth never binds)
    mc("2names-closure", "ab", ALLK - {"persist"}, 1000, INV)
    mc("1name-persist-closure", "a", ALLK, 1000, INV)
    if thorough:
        mc("3names-closure", "abc", ALLK - {"persist"}, 1000, INV)
        mc("2names-persist-closure", "ab", ALLK, 1000, INV)
    mc("extras-can-hold-tensors", "a", ALLK, 1000, ["ExtrasTyped"], must_fail="ExtrasTyped")
    mc("mismatched-load-shadows", "a", ALLK, 1000, ["ExclusiveInv"], mismatch=True, must_fail="ExclusiveInv")

    gens = [("1name", "a", ALLK, 1000, None if thorough else 600),
            ("2names", "ab", ALLK - {"persist"}, 1000, None if thorough else 600)]
    first = None
    for name, names, kinds, depth, budget in gens:
        c = dict(Names=set(names), OpKinds=set(kinds), AllowMismatch=False, MaxDepth=depth)
        res = tlc.run("ModuleExtrasMC", tlc.cfg_text(constants=c, invariants=["Emit"], constraints=["Bounded"]), workers=1,
                      timeout=3000)
        if not res.ok:
            raise MachineryFailure(f"ModuleExtras generation {name} failed: {res.out[-2000:]}")
        g = graph.Graph.from_lines(res.printed())
        if len(g.states) != res.distinct:
            raise MachineryFailure(f"ModuleExtras graph {name}: {len(g.states)} states printed, TLC reports {res.distinct}")
        chk.add_tlc("gen:extras-" + name, res)
        make = lambda names=names: ModuleImpl(names)  # noqa: E731
        init_key = graph.canon(make().project())
        if init_key not in g.states:
            raise MachineryFailure(f"ModuleExtras: initial implementation state not in graph {name}: {init_key}")

        def on_mismatch(sig, rep, name=name):
            obs = (rep.get("observed") or {}).get("ret") or {}
            sig = dict(sig, site="extras-" + sig.get("site", ""), raised=obs.get("e"))
            chk.violation(sig, dict(rep, extension="ModuleExtras", names=list(names)))

        stats = graph.replay(g, init_key, make, budget=budget, rng=rng, on_mismatch=on_mismatch, max_mismatch=20)
        chk.evaluations += stats.edges
        for k, o in stats.pairs:
            chk.nontrivial.add(("extras", k, o))
        chk.note(f"replay extras {name}: {stats.edges} edges of {g.n_edges}, {len(stats.states_visited)}/{len(g.states)} "
                 f"states, mismatches={len(stats.mismatches)}")
        first = first or (g, init_key, make)
    # canary: a module that reports a different value for a lookup must be flagged
    g, init_key, make = first
    seen = []

    def deviate(op, ret, st):
        if ret.get("t") == "val":
            ret = dict(ret, val=dict(ret["val"], v=ret["val"]["v"] + 1))
        return ret, st
    graph.replay(g, init_key, make, budget=300, rng=rng, on_mismatch=lambda s, r: seen.append(s), deviate=deviate,
                 max_mismatch=5)
    if not any(s.get("clause") == "RetOK" for s in seen):
        raise MachineryFailure("canary: a deviating Module replay was not reported")
    chk.note(f"canary extras: deviating replay reported ({len(seen)} mismatches)")


# ------------------------------------------------------------------------------------------
# Extension phase 3 (DESIGN section 7, item 3): MaxRateClassifier as an exact state machine
# ------------------------------------------------------------------------------------------
def run_classifier(chk, rng, thorough):
    from .. import graph
    from ..impl_classifier import ClassifierImpl
    INV = ["TypeOK", "DerivedInv", "Refinement", "OccSum"]

    def consts(n, rinit="derive", rhook="recompute", b=2, maxrow=None, invals=(0, 2)):
        return dict(N=n, K=2, B=b, InVals=set(invals), XVals={0, 1, 2} if thorough else {0, 2},
                    MaxRow=(4 if thorough else 2) if maxrow is None else maxrow, RInit=rinit, RHook=rhook)

    def mc(name, c, must_fail=False):
        res = tlc.run("ClassifierMC", tlc.cfg_text(constants=c, invariants=INV), workers=4, timeout=3000)
        if must_fail:
            if not res.violated:
                raise MachineryFailure(f"classifier rule {name} was not rejected by TLC: {res.out[-1500:]}")
            chk.note(f"mc classifier {name}: rejected by TLC, violated={res.violated}")
            return
        if res.violated:
            chk.violation({"clause": "MC:" + ",".join(res.violated), "site": "spec:Classifier", "config": name},
                          {"config": name, "tlc_tail": res.out[-4000:]})
        elif not res.ok:
            raise MachineryFailure(f"ClassifierMC {name} did not complete: {res.out[-2000:]}")
        chk.add_tlc("mc:classifier-" + name, res)
        chk.note(f"mc classifier {name}: {res.distinct} states, {res.generated} transitions, depth {res.depth}, {res.wall:.1f}s")

    mc("N2", consts(2))
    if thorough:
        mc("N3", consts(3, b=1, maxrow=2, invals=(0, 1, 2)))      # single-sample batches: any integer counts
    # what the constructor / the load hook must do, as rules TLC rejects
    mc("rule constructor leaves zeros", consts(2, rinit="zeros", maxrow=0), must_fail=True)
    mc("rule no load hook", consts(2, rhook="none", maxrow=0), must_fail=True)
    mc("rule hook bound to the registering object", consts(2, rhook="closure", maxrow=0), must_fail=True)

    c = consts(2)
    res = tlc.run("ClassifierMC", tlc.cfg_text(constants=c, invariants=["Emit"]), workers=1, timeout=3000)
    if not res.ok:
        raise MachineryFailure(f"classifier generation failed: {res.out[-2000:]}")
    g = graph.Graph.from_lines(res.printed())
    if len(g.states) != res.distinct:
        raise MachineryFailure(f"classifier graph: {len(g.states)} states printed, TLC reports {res.distinct}")
    chk.add_tlc("gen:classifier", res)
    make = lambda: ClassifierImpl(2, 2)  # noqa: E731
    init_key = graph.canon(make().project())
    if init_key not in g.states:
        raise MachineryFailure(f"classifier: initial implementation state not in graph: {init_key}")

    def on_mismatch(sig, rep):
        op = rep.get("op") or {}
        sig = dict(sig, site="classifier-" + sig.get("site", ""), kind=op.get("kind"))
        chk.violation(sig, dict(rep, extension="Classifier"))

    stats = graph.replay(g, init_key, make, budget=None if thorough else 1000, rng=rng, on_mismatch=on_mismatch,
                         max_mismatch=20, op_class=lambda op: f"{op.get('a')}:{op.get('kind')}:{op.get('prop')}")
    chk.evaluations += stats.edges
    for k, o in stats.pairs:
        chk.nontrivial.add(("classifier", k, o))
    chk.note(f"replay classifier: {stats.edges} edges of {g.n_edges}, {len(stats.states_visited)}/{len(g.states)} states, "
             f"mismatches={len(stats.mismatches)}")
    seen = []

    def deviate(op, ret, st):
        return ret, dict(st, oc=[st["oc"][0] + 1] + st["oc"][1:])
    graph.replay(g, init_key, make, budget=200, rng=rng, on_mismatch=lambda s, r: seen.append(s), deviate=deviate,
                 max_mismatch=5)
    if not seen:
        raise MachineryFailure("canary: a classifier replay with wrong occurrences was not reported")
    chk.note(f"canary classifier: deviating replay reported ({len(seen)} mismatches)")
