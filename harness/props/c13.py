"""C13 - resizing a record keeps the newest observations in order and the size formula;
constraint bookkeeping stays consistent.

T: RecordMC with the temporal setters and reconstrain: from EVERY ring state (pointer x fill level)
   to every (dt, duration, inclusive) of a tick grid, on all storage kinds: size formula (TypeOK),
   newest-preserving resize (Refinement against the list model), SettersTotal (never fails merely
   because storage is not initialised).  ConstraintsMC: add/edit/remove/assign sequences on
   strict and non-strict constraint sets with positive and negative dims: a tensor reported valid
   satisfies every constraint, refused adds have no side effects, remove never alters data.
A: every edge of both emitted graphs on real RecordTensor / ShapedTensor objects (buffer, parameter).
B: random float (dt, duration) including non-representable ratios, with ceil(duration/dt) as
   evaluated in IEEE arithmetic supplied as an oracle input (nq).
"""
from __future__ import annotations
import math, random
from ..core import Check, MachineryFailure
from .. import graph, tlc, tracecheck
from ..impl_record import RecordImpl
from .record_common import (mc_constants, run_mc_configs, gen_graph, replay_graph, validate_traces, canary_trace, canary_replay)

PID = "C13"
KINDS = {"push", "resize", "recon", "life"}


def float_resize_traces(rng, count, steps=14):
    """Random float dt/duration (milli-tick resolution) incl. ratios that are not exactly
    representable; the IEEE value of ceil(duration/dt) is passed to the spec as oracle input."""
    traces = []
    tick = 0.001
    S = lambda k: round(k * tick, 6)          # the float a user would write (0.7, 2.1, ...), not k * 0.001
    dts = [1000, 500, 1300, 100, 300, 700, 1100, 250, 2000, 600, 1900]
    # (dt, multiple) pairs whose IEEE quotient is NOT the exact integer (e.g. 2.1 / 0.7 = 3.0000000000000004)
    fuzzy = [(d, q) for d in dts for q in range(1, 8) if math.ceil(S(d * q) / S(d)) != q]
    for _ in range(count):
        dtk = rng.choice(dts)
        q = rng.randint(0, 6)
        durk = dtk * q if rng.random() < 0.7 else rng.randint(0, 6 * dtk)
        if fuzzy and rng.random() < 0.3:
            dtk, q = rng.choice(fuzzy)
            durk = dtk * q
        incl = rng.random() < 0.4
        kind = rng.choice(["ready", "ready", "none", "empty", "uninit"])
        param = kind != "none" and rng.random() < 0.4
        E = rng.choice([1, 2, 3])
        hdr = {"kind": kind, "dty": rng.choice(["f", "i"]), "dtk": dtk, "durk": durk, "incl": incl, "shape": [E],
               "param": param, "tick": tick, "dt_s": S(dtk), "dur_s": S(durk), "track_temporal": True}
        impl = RecordImpl(hdr)
        init = impl.project()
        nq0 = math.ceil(S(durk) / S(dtk))
        if init["n"] != max(nq0 + int(incl), 1):
            # constructor disagrees with the documented formula evaluated on the same floats
            traces.append({"hdr": {"init": dict(init, n=max(nq0 + int(incl), 1)), "cfg": hdr, "waive": []},
                           "ev": [{"op": {"a": "peek"}, "ret": {"t": "ctor-size"}, "st": init}]})
            continue
        st = init
        evs = []
        for _ in range(steps):
            r = rng.random()
            if r < 0.45:
                d = st["dty"] if st["dty"] in ("f", "i") else "f"
                Ecur = len(st["store"][0]) if st["kind"] == "ready" else E
                v = [2 * rng.randint(0, 6) for _ in range(Ecur)]
                o = {"a": "push", "v": v, "d": d, "inpl": rng.random() < 0.5}
            elif r < 0.65:
                x = rng.choice(dts)
                cand = [d for d, q in fuzzy if d * q == st["durk"]]
                if cand and rng.random() < 0.6:
                    x = rng.choice(cand)          # reach a fuzzy quotient through the dt setter
                o = {"a": "set_dt", "x": x, "x_s": S(x)}
                if rng.random() < 0.25:
                    # a step time that differs from the current one by a relative 2^-40 only: still a NEW step time - the
                    # size formula is evaluated on it (an exact multiple of dt becomes a shade more than that many steps)
                    x = st["dtk"]
                    o = {"a": "set_dt", "x": x, "x_s": float(impl.rec.dt) * (1.0 + rng.choice([-1.0, 1.0]) * 2.0 ** -40)}
                o["nq"] = math.ceil(impl.rec.duration / o["x_s"])
            elif r < 0.88:
                cur = st["dtk"]
                x = cur * rng.randint(0, 6) if rng.random() < 0.7 else rng.randint(0, 6 * cur)
                cand = [d * q for d, q in fuzzy if d == cur]
                if rng.random() < 0.4:
                    # a duration that is a fuzzy multiple of the current dt, or of a dt set later
                    x = rng.choice(cand) if cand and rng.random() < 0.5 else (lambda p: p[0] * p[1])(rng.choice(fuzzy))
                o = {"a": "set_duration", "x": x, "x_s": S(x)}
                o["nq"] = math.ceil(S(x) / impl.rec.dt)
            else:
                o = {"a": "set_inclusive", "x": rng.random() < 0.5}
                o["nq"] = math.ceil(impl.rec.duration / impl.rec.dt)
            ret = impl.apply(o)
            st = impl.project()
            o = {k: v for k, v in o.items() if k != "x_s"}
            evs.append({"op": o, "ret": ret, "st": st})
        traces.append({"hdr": {"init": init, "cfg": hdr, "waive": []}, "ev": evs})
    return traces


def run(tier: str, seed: int) -> int:
    chk = Check(PID, tier, seed)
    rng = random.Random(seed)
    chk.extra["rule"] = ("MC: all (ring state, setter/reconstrain) pairs on the tick grid and all constraint programs to the "
                         "depth bound; replay: sampled edges on real objects; non-trivial distinct case = distinct (state, op) "
                         "pair where the operation changes a size or is refused, or a distinct accepted trace event")
    R = dict(dtset=(2, 4), durset=(0, 4, 8), esizes=(1, 2))
    R1 = dict(dtset=(2, 4), durset=(0, 4, 8), esizes=(1,))
    mc = [
        ("ready-E1", mc_constants(dt=4, dur=8, E0=1, vals={0, 2, 4}, pdty={"f"}, kinds={"push", "resize", "life"},
                                  kind0="ready", **R1)),
        ("none-E1", mc_constants(dt=4, dur=8, E0=1, vals={0, 2}, pdty={"f", "i"}, kinds=KINDS, kind0="none", **R)),
        ("ready-E2-incl", mc_constants(dt=4, dur=4, incl=True, E0=2, vals={0, 2}, pdty={"f"}, kinds={"push", "resize", "recon"},
                                       kind0="ready", **R)),
    ]
    if tier == "thorough":
        R2 = dict(dtset=(2, 4, 6), durset=(0, 3, 4, 6, 8, 12), esizes=(1,))
        R3 = dict(dtset=(2, 4), durset=(0, 3, 4, 8), esizes=(1, 2, 3))
        mc += [
            ("ready-E1-big", mc_constants(dt=4, dur=8, E0=1, vals={0, 2}, pdty={"f"}, kinds={"push", "resize", "life"},
                                          kind0="ready", **R2)),
            ("ready-E1-v3", mc_constants(dt=4, dur=8, E0=1, vals={0, 2, 4}, pdty={"f"}, kinds={"push", "resize"},
                                         kind0="ready", dtset=(2, 4, 6), durset=(0, 4, 8, 12), esizes=(1,))),
            ("uninit-E2", mc_constants(dt=2, dur=4, E0=2, vals={0, 2}, pdty={"f"}, kinds=KINDS, kind0="uninit", **R3)),
        ]
    run_mc_configs(chk, mc, invariants=["TypeOK", "Refinement", "SettersTotal"])

    gens = [
        ("ready-E1", mc_constants(dt=4, dur=8, E0=1, vals={0, 2, 4}, pdty={"f"}, kinds={"push", "resize", "life"},
                                  kind0="ready", **R1), 15000),
        ("none-E2", mc_constants(dt=4, dur=4, E0=2, vals={0, 2}, pdty={"f"}, kinds=KINDS, kind0="none",
                                 dtset=(2, 4), durset=(0, 4), esizes=(1, 2)), 15000),
    ]
    for name, consts, budget in gens:
        g = gen_graph(chk, name, consts)
        for param in (False, True):
            replay_graph(chk, g, consts, budget=(None if tier == "thorough" else budget), rng=rng, param=param,
                         tick=rng.choice([0.25, 0.5, 0.125]))

    canary_replay(chk, g, consts, rng)
    from .c13_constraints import run_constraints
    run_constraints(chk, tier, rng)

    ntr = 150 if tier == "quick" else 3000
    traces = float_resize_traces(rng, ntr)
    validate_traces(chk, traces, site="float-resize-history")
    canary_trace(chk, [t for t in traces if len(t["ev"]) > 3])
    # resize of a record that is uninitialised but carries a restored (non-zero) write position
    from .record_persist import run_unready_resize
    run_unready_resize(chk, tier, rng)
    from .resize_static import run_resize
    run_resize(chk, rng, tier == "thorough")
    return chk.finish()


def replay(path: str) -> int:
    from .record_common import replay_file
    return replay_file(PID, path)
