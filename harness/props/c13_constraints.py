"""C13, constraint-bookkeeping clause (ShapedTensor): "a tensor reported valid satisfies every
constraint, adding an incompatible constraint is refused without side effects, removing a
constraint never alters data"; an edit keeps the tail / zero-prepends along the edited dimension.

T: ConstraintsMC - the code's three predicates (dimensionality / compatible / consistent) and the
   branch structure of reconstrain / the value setter (Mech) against the abstract meaning (Abs):
     D  bounded programs of add / edit / remove / assign from an ignored tensor, strict x live,
        invariants over ALL operations at every reachable state (one-step look-ahead), the
        invariant work of one exploration shared by several single-worker TLC runs;
     P  all constraint dictionaries over the dims and sizes x all probe shapes (no depth bound);
     U  a small universe explored without any depth bound, with the strict / live setters.
A: every edge of emitted graphs on a real ShapedTensor (buffer and nn.Parameter storage, the ignored
   values cycling through None / empty / UninitializedBuffer / UninitializedParameter).
B: random longer programs (dims -4..3, rank <= 4) validated by ConstraintsTrace.
"""
from __future__ import annotations
import copy, json, random, time
from concurrent.futures import ThreadPoolExecutor
from ..core import Check, MachineryFailure
from .. import tlc, graph, tracecheck
from ..impl_constraints import ConstraintsImpl

MODULE = "ConstraintsMC"
STATE_INV = ["TypeOK", "ValidImpliesSatisfied", "CompatibleImpliesSatisfies", "NonStrictExact", "IndexSafe"]
NAMED = ["AddRefusedNoSideEffects", "RemoveNeverAltersData", "EditKeepsTailOrZeroPrepends",
         "PostAcceptValidIffSatisfied", "LiveAssign"]


def consts(*, strict, live, depth, rank, sizes, wd=3, kinds=("recon", "assign"), part=0, nparts=1):
    return dict(WD=wd, Sizes=set(sizes), MaxRank=rank, Strict0=bool(strict), Live0=bool(live),
                OpKinds=set(kinds), MaxDepth=depth, Part=part, NParts=nparts)


def _mc_jobs(tier):
    """(name, constants, workers, counted): `counted` runs add their state counts to the evidence;
    the other shares of the same exploration visit the same graph and only add invariant work."""
    jobs = []
    S4 = (0, 1, 2, 3)
    if tier == "quick":
        for strict in (True, False):
            for live in (False, True):
                nparts = 2 if live else 4       # live assignment keeps invalid states out: fewer states
                for p in range(nparts):
                    jobs.append((f"D-r2-d3-{'s' if strict else 'n'}{'l' if live else 'x'}-{p}/{nparts}",
                                 consts(strict=strict, live=live, depth=3, rank=2, sizes=S4, part=p, nparts=nparts),
                                 1, p == 0))
        for strict in (True, False):
            jobs.append((f"P-r2-{'s' if strict else 'n'}",
                         consts(strict=strict, live=False, depth=1000, rank=2, sizes=(0, 1, 2), kinds=("recon",)), 2, True))
        jobs.append(("U-w1", consts(strict=True, live=False, depth=1000, rank=2, sizes=(1, 2), wd=1,
                                    kinds=("recon", "assign", "toggle")), 2, True))
    else:
        nparts = 8
        def mode(st, lv):
            return ("s" if st else "n") + ("l" if lv else "x")
        for strict in (True, False):
            for live in (False, True):
                np_ = 3 if live else nparts     # live assignment keeps invalid states out: fewer states
                for p in range(np_):
                    jobs.append((f"D-r2-d4-{mode(strict, live)}-{p}/{np_}",
                                 consts(strict=strict, live=live, depth=4, rank=2, sizes=S4, part=p, nparts=np_),
                                 1, p == 0))
        # rank 3: programs of 5 operations over sizes {0,2,3}, of 4 operations over sizes 0..3
        for strict, live in ((True, False), (False, False), (True, True)):
            np_ = 2 if live else nparts
            for p in range(np_):
                jobs.append((f"D-r3-d4-{mode(strict, live)}-{p}/{np_}",
                             consts(strict=strict, live=live, depth=4, rank=3, sizes=(0, 2, 3), part=p, nparts=np_),
                             1, p == 0))
        for strict, live in ((True, False), (False, True)):
            np_ = 2 if live else 4
            for p in range(np_):
                jobs.append((f"D-r3-d3-{mode(strict, live)}-{p}/{np_}",
                             consts(strict=strict, live=live, depth=3, rank=3, sizes=S4, part=p, nparts=np_), 1, p == 0))
        for strict in (True, False):
            jobs.append((f"P-r3-{'s' if strict else 'n'}",
                         consts(strict=strict, live=False, depth=1000, rank=3, sizes=S4, kinds=("recon",)), 4, True))
        jobs.append(("U-w2", consts(strict=True, live=False, depth=1000, rank=2, sizes=(1, 2), wd=2,
                                    kinds=("recon", "assign", "toggle")), 4, True))
    return jobs


def _run_mc(job):
    name, c, workers, counted = job
    cfg = tlc.cfg_text(constants=c, invariants=STATE_INV + ["AllProps"])
    res = tlc.run(MODULE, cfg, workers=workers, timeout=3000)
    named = None
    if res.violated:
        # name the failing clause(s): the same run with the clauses as separate invariants
        named = []
        for inv in STATE_INV + NAMED:
            r2 = tlc.run(MODULE, tlc.cfg_text(constants=c, invariants=[inv]), workers=workers, timeout=3000)
            if r2.violated:
                named.append((inv, r2.out[-3000:]))
    return name, c, res, counted, named


def _gen(job):
    name, c = job
    cfg = tlc.cfg_text(constants=c, invariants=["Emit"])
    res = tlc.run(MODULE, cfg, workers=1, timeout=3000)
    return name, c, res


def _informative_converse():
    """Not demanded by the property: does 'satisfies every constraint' imply 'reported valid'?"""
    out = {}
    for strict in (True, False):
        c = consts(strict=strict, live=False, depth=3, rank=2, sizes=(1, 2), wd=2)
        res = tlc.run(MODULE, tlc.cfg_text(constants=c, invariants=["SatisfiedImpliesValid"]), workers=1, timeout=600)
        out["strict" if strict else "non-strict"] = ("fails" if "SatisfiedImpliesValid" in res.violated
                                                     else ("holds" if res.ok else "error"))
    return out


# ------------------------------------------------------------------ direction A
def _nontrivial_edge(state_key: str, op_key: str) -> bool:
    return '"kind":"ready"' in state_key and ('"a":"recon"' in op_key or '"live":true' in state_key)


def _signature_extra(rep):
    op = rep.get("op") or {}
    st = rep.get("state") or {}
    out = {}
    if isinstance(op, dict) and op.get("a") == "recon" and isinstance(st, dict) and "cons" in st:
        w = len(st["cons"]) // 2
        d = op.get("dim", 0)
        has = -w <= d < w and st["cons"][d + w] != -1
        out["action"] = "remove" if op.get("size") == -1 else ("edit" if has else "add")
        out["kind"] = st.get("kind")
        out["strict"] = st.get("strict")
    obs = (rep.get("observed") or {}).get("ret") or {}
    if isinstance(obs, dict) and obs.get("t") == "err":
        out["raised"] = obs.get("e")
    return out


def _edge_class(state, op, outs) -> str:
    """action / state kind / specified outcome (/ whether the data changes) of an executed edge"""
    ret = outs[0]["ret"]
    res = ret.get("e") or (str(ret["b"]).lower() if "b" in ret else "ok")
    a = op["a"]
    if a == "recon":
        w = len(state["cons"]) // 2
        has = state["cons"][op["dim"] + w] != -1
        a = "remove" if op["size"] == -1 else ("edit" if has else "add")
    moved = "/resized" if (a == "edit" and res == "ok" and outs[0]["st"]["data"] != state["data"]) else ""
    return f"{a}/{state['kind']}/{res}{moved}"


REQUIRED_CLASSES = ("add/ready/ok", "add/ready/ValueError", "add/ready/RuntimeError", "add/ign/ok",
                    "remove/ready/ok", "remove/ready/RuntimeError", "remove/ready/ValueError",
                    "edit/ready/ok", "edit/ready/ok/resized", "edit/ready/RuntimeError", "edit/ign/ok",
                    "assign/ready/ok", "assign/ready/ValueError", "assign/ign/ValueError")


def replay_graph(chk: Check, g: graph.Graph, c: dict, *, budget, rng, param, deviate=None, report=True):
    hdr = {"wd": c["WD"], "strict": c["Strict0"], "live": c["Live0"], "param": param, "ignseq": rng.randint(0, 5)}
    make = lambda: ConstraintsImpl(hdr)
    init_key = graph.canon(make().project())
    if init_key not in g.states:
        raise MachineryFailure(f"initial implementation state not in emitted graph {g.name}: {init_key}")
    mism = []

    def on_mismatch(sig, rep):
        rep = dict(rep, hdr=hdr, graph=g.name)
        sig = dict(sig, site="ShapedTensor/" + sig.get("site", "graph-replay"), storage="parameter" if param else "buffer")
        sig.update(_signature_extra(rep))
        sig["op"] = sig.get("action") or (sig["op"] if isinstance(sig.get("op"), str) else "path")
        mism.append((sig, rep))
        if report:
            chk.violation(sig, rep)

    stats = graph.replay(g, init_key, make, budget=budget, rng=rng, on_mismatch=on_mismatch, deviate=deviate,
                         op_class=lambda op: ("recon-remove" if op.get("size") == -1 else "recon") if op.get("a") == "recon" else op.get("a"))
    if report:
        chk.evaluations += stats.edges
        classes = chk.extra.setdefault("constraints_executed_edge_classes", {})
        index = getattr(g, "_op_index", None)
        if index is None:
            index = g._op_index = {k: {graph.canon(op): outs for op, outs in tab} for k, tab in g.table.items()}
        for k, o in stats.pairs:
            if _nontrivial_edge(k, o):
                chk.nontrivial.add(("cons", g.name, param, k, o))
            cl = _edge_class(g.states[k], json.loads(o), index[k][o])
            classes[cl] = classes.get(cl, 0) + 1
        chk.extra["constraints_replayed_edges"] = chk.extra.get("constraints_replayed_edges", 0) + stats.edges
        chk.note(f"constraints replay {g.name} param={param}: {stats.edges} edges of {g.n_edges}, "
                 f"{len(stats.states_visited)}/{len(g.states)} states, mismatches={len(stats.mismatches)}")
    return stats, mism


# ------------------------------------------------------------------ direction B
def _rand_shape(rng, maxrank=4, maxsize=4, maxnumel=64):
    while True:
        r = rng.choice([0, 1, 1, 2, 2, 2, 3, 3, 4][: 2 * maxrank + 1])
        sh = [rng.randint(0, maxsize) if rng.random() < 0.15 else rng.randint(1, maxsize) for _ in range(r)]
        n = 1
        for x in sh:
            n *= max(x, 1)
        if n <= maxnumel:
            return sh


def _shape_for(rng, st, wd):
    """A shape that tends to agree with the current constraints (so that live assignment and
    add are accepted often enough), sometimes deliberately off."""
    cons = {i - wd: s for i, s in enumerate(st["cons"]) if s != -1}
    if not cons or rng.random() < 0.3:
        return _rand_shape(rng)
    need = max(max(cons) + 1, 0) + max(-min(cons), 0) if st["strict"] else max(max(cons) + 1, abs(min(cons)))
    r = min(4, max(need, 0) + rng.choice([0, 0, 0, 1]))
    if rng.random() < 0.15 and r > 0:
        r -= 1
    sh = [rng.randint(1, 3) for _ in range(r)]
    for d, s in cons.items():
        if -r <= d < r and rng.random() < 0.9:
            sh[d] = s
    n = 1
    for x in sh:
        n *= max(x, 1)
    return sh if n <= 64 else _rand_shape(rng)


def _rand_op(rng, st, wd):
    r = rng.random()
    cons = {i - wd: s for i, s in enumerate(st["cons"]) if s != -1}
    rank = len(st["shape"])
    if r < 0.5:
        u = rng.random()
        if cons and u < 0.22:          # remove
            return {"a": "recon", "dim": rng.choice(list(cons)), "size": -1}
        if cons and u < 0.55:          # edit
            return {"a": "recon", "dim": rng.choice(list(cons)), "size": rng.randint(0, 4) if rng.random() < 0.8 else 0}
        d = rng.randint(-wd, wd - 1)
        if st["kind"] == "ready" and rank > 0 and rng.random() < 0.8:
            d = rng.randint(-rank, rank - 1) if rng.random() < 0.9 else rng.choice([rank, -rank - 1])
            d = max(-wd, min(wd - 1, d))
            size = st["shape"][d] if (-rank <= d < rank and rng.random() < 0.75) else rng.randint(0, 4)
        else:
            size = rng.randint(0, 4)
        return {"a": "recon", "dim": d, "size": size if rng.random() < 0.97 else -1}
    if r < 0.78:
        return {"a": "assign", "shape": _shape_for(rng, st, wd)}
    if r < 0.84:
        return {"a": "assign_ign"}
    if r < 0.92:
        return {"a": "compatible", "shape": _shape_for(rng, st, wd)}
    if r < 0.96:
        return {"a": "set_strict", "b": rng.random() < 0.5}
    return {"a": "set_live", "b": rng.random() < 0.5}


def random_traces(rng, count, steps=24, wd=4, on_observe_error=None):
    """Random programs on real objects.  An observation that raises (e.g. `.valid`) cannot be put
    into a trace for TLC: it is reported through on_observe_error and the trace ends before it."""
    traces = []
    for _ in range(count):
        hdr = {"wd": wd, "strict": rng.random() < 0.5, "live": rng.random() < 0.5, "param": rng.random() < 0.4,
               "ignseq": rng.randint(0, 5)}
        impl = ConstraintsImpl(hdr)
        init = impl.project()
        st = init
        evs = []
        for _ in range(steps):
            o = _rand_op(rng, st, wd)
            ret = impl.apply(o)
            nst = impl.project()
            if not isinstance(nst["valid"], bool) or not isinstance(nst["ndim"], int):
                if on_observe_error:
                    on_observe_error(hdr, [e["op"] for e in evs] + [o], st, o, ret, nst)
                break
            st = nst
            evs.append({"op": o, "ret": ret, "st": st})
        if evs:
            traces.append({"hdr": {"init": init, "cfg": hdr, "waive": []}, "ev": evs})
    return traces


def _clause(ev, expected, diag):
    if diag is not None and diag.get("refok") is False:
        return "PropAt"
    if not expected:
        return "Unexplained"
    cr, cs = graph.canon(ev["ret"]), graph.canon(ev["st"])
    if not any(graph.canon(o["ret"]) == cr for o in expected):
        return "RetOK"
    if not any(graph.canon(o["st"]) == cs for o in expected):
        return "StateOK"
    return "OutcomeOK"


def validate_traces(chk: Check, traces, site: str, shards=8):
    stats, rej = tracecheck.validate("ConstraintsTrace", traces, shards=shards)
    chk.traces += len(traces)
    chk.transitions += stats["generated"]
    chk.states += stats["distinct"]
    nev = 0
    for ti, t in enumerate(traces):
        prev = t["hdr"]["init"]
        for e in t["ev"]:
            nev += 1
            if prev["kind"] == "ready" and (e["op"]["a"] == "recon" or prev["live"]):
                chk.nontrivial.add(("cons-trace", ti, nev))
            prev = e["st"]
    chk.evaluations += nev
    chk.extra["constraints_trace_events"] = chk.extra.get("constraints_trace_events", 0) + nev
    chk.note(f"constraints traces[{site}]: {len(traces)} traces, {nev} events, rejected lines={len(rej)}")
    chk.sample({"kind": "constraints-trace", "hdr": traces[0]["hdr"]["cfg"], "first_events": traces[0]["ev"][:3]})
    for r in rej:
        t = traces[r["trace"]]
        prev = t["ev"][r["line"] - 2]["st"] if r["line"] > 1 else t["hdr"]["init"]
        exp = (r["diag"] or {}).get("expected")
        rep = {"hdr": t["hdr"]["cfg"], "ops": [e["op"] for e in t["ev"][: r["line"]]], "line": r["line"],
               "state": prev, "op": r["event"]["op"], "expected": exp,
               "observed": {"ret": r["event"]["ret"], "st": r["event"]["st"]}}
        sig = {"clause": _clause(r["event"], exp, r["diag"]), "op": r["event"]["op"].get("a"),
               "site": "ShapedTensor/" + site, "storage": "parameter" if t["hdr"]["cfg"].get("param") else "buffer"}
        sig.update(_signature_extra(rep))
        sig["op"] = sig.get("action") or sig["op"]
        chk.violation(sig, rep)
    return stats, rej


def canary_trace(chk: Check, traces, rejected_traces=()):
    """One corrupted observation must be rejected at its line, the untouched copy accepted.
    The source is a trace the validation accepted (a trace rejected for a genuine reason is a
    reported violation, not a canary)."""
    clean = [t for i, t in enumerate(traces) if i not in set(rejected_traces)]
    if not clean:
        chk.note("constraints canary: every recorded trace was rejected, trace canary skipped")
        return
    src = next((t for t in clean if any(e["st"]["kind"] == "ready" and e["st"]["data"] for e in t["ev"])), clean[0])
    good = copy.deepcopy(src)
    good["hdr"]["waive"] = []
    bad = copy.deepcopy(good)
    line = None
    for i, e in enumerate(bad["ev"]):
        if e["st"]["kind"] == "ready" and e["st"]["data"]:
            e["st"]["data"][-1] = e["st"]["data"][-1] + 1      # one element is not the one the spec puts there
            line = i + 1
            break
    if line is None:
        bad["ev"][0]["st"]["valid"] = not bad["ev"][0]["st"]["valid"]
        line = 1
    stats, rej = tracecheck.validate("ConstraintsTrace", [good, bad], shards=1, max_waive_rounds=1)
    lines = {(r["trace"], r["line"]) for r in rej}
    if (1, line) not in lines or any(t == 0 for t, _ in lines):
        raise MachineryFailure(f"constraints canary: expected exactly the corrupted trace rejected at line {line}, got {lines}")
    chk.extra["constraints_canary_trace_rejected_at_line"] = line
    chk.note(f"constraints canary: corrupted trace rejected at line {line}")


def canary_replay(chk: Check, g: graph.Graph, c: dict, rng):
    """A replay whose observations are corrupted (valid flag flipped after every accepted
    reconstrain) must produce mismatches."""
    def deviate(op, ret, st):
        if op.get("a") == "recon" and ret.get("t") == "ok":
            st = dict(st, valid=not st["valid"])
        return ret, st
    stats, mism = replay_graph(chk, g, c, budget=300, rng=random.Random(rng.random()), param=False,
                               deviate=deviate, report=False)
    if not mism:
        raise MachineryFailure("constraints canary: deviating replay was accepted")
    chk.extra["constraints_canary_replay_mismatches"] = len(mism)
    chk.note(f"constraints canary: deviating replay rejected ({len(mism)} mismatches)")


# ------------------------------------------------------------------ entry point
def run_constraints(chk: Check, tier: str, rng: random.Random):
    t0 = time.time()
    quick = tier == "quick"
    S4 = (0, 1, 2, 3)
    gens = [(f"G-{'s' if s else 'n'}{'l' if l else 'x'}", consts(strict=s, live=l, depth=2, rank=2, sizes=S4))
            for s in (True, False) for l in (False, True)]
    # non-strict constraints on overlapping positive / negative dims of a 1-d tensor (the
    # consistency test of an edit), deep and tiny
    gens.append(("G-overlap", consts(strict=False, live=False, depth=3, rank=1, sizes=(1, 2, 3), wd=1)))
    gens.append(("G-toggle", consts(strict=True, live=False, depth=2 if quick else 3, rank=2, sizes=(1, 2), wd=2,
                                    kinds=("recon", "assign", "toggle", "probe"))))
    if not quick:
        gens.append(("G-d3-sx", consts(strict=True, live=False, depth=3, rank=2, sizes=(0, 2, 3))))
        gens.append(("G-d3-nl", consts(strict=False, live=True, depth=3, rank=2, sizes=(0, 2, 3))))
        gens.append(("G-r3-sl", consts(strict=True, live=True, depth=2, rank=3, sizes=(0, 2, 3))))
        gens.append(("G-r3-nx", consts(strict=False, live=False, depth=2, rank=3, sizes=(0, 2, 3))))
    jobs = _mc_jobs(tier)
    ex = ThreadPoolExecutor(max_workers=16)
    gen_f = [ex.submit(_gen, j) for j in gens]          # first: the python side waits for these
    mc_f = [ex.submit(_run_mc, j) for j in jobs]
    conv_f = ex.submit(_informative_converse)

    try:
        # ---- B (driver part, python only) while TLC is busy
        ntr = 120 if quick else 2500
        def observe_error(hdr, ops, state, op, ret, nst):
            rep = {"hdr": hdr, "ops": ops, "state": state, "op": op, "observed": {"ret": ret, "st": nst}}
            sig = {"clause": "ObservationRaises", "op": op.get("a"), "site": "ShapedTensor/random-program",
                   "storage": "parameter" if hdr.get("param") else "buffer",
                   "raised": str(nst["valid"] if not isinstance(nst["valid"], bool) else nst["ndim"])}
            chk.violation(sig, rep)

        traces = random_traces(rng, ntr, on_observe_error=observe_error)
        if not traces:
            raise MachineryFailure("constraints: no trace could be recorded")

        # ---- A: every emitted edge (quick: a stratified sample) on real objects
        budget = 5000 if quick else None
        first_graph = None
        for f in gen_f:
            name, c, res = f.result()
            if not res.ok:
                raise MachineryFailure(f"TLC generation run {name} failed: {res.out[-2000:]}")
            g = graph.Graph.from_lines(res.printed())
            if len(g.states) != res.distinct:
                raise MachineryFailure(f"emitted graph {name} has {len(g.states)} states, TLC reports {res.distinct}")
            g.name = name
            chk.add_tlc("cons-gen:" + name, res)
            for param in (False, True):
                replay_graph(chk, g, c, budget=budget, rng=rng, param=param)
            if first_graph is None:
                first_graph = (g, c)
                canary_replay(chk, g, c, rng)
                k = g.order[min(len(g.order) - 1, 30)]
                chk.sample({"kind": "constraints-outcome-table", "state": g.states[k], "first_ops": g.table[k][:2]})

        classes = chk.extra.get("constraints_executed_edge_classes", {})
        missing = [k for k in REQUIRED_CLASSES if not classes.get(k)]
        if missing:
            raise MachineryFailure(f"constraints replay is vacuous for {missing}")

        # ---- B: TLC validates the recorded programs
        _, rej = validate_traces(chk, traces, site="random-program", shards=6 if quick else 16)
        canary_trace(chk, traces, {r["trace"] for r in rej})

        # ---- T: exhaustive runs
        for f in mc_f:
            name, c, res, counted, named = f.result()
            if res.violated:
                clauses = [n for n, _ in (named or [])] or res.violated
                for cl in clauses:
                    chk.violation({"clause": "MC:" + cl, "op": "spec", "site": "ConstraintsMC", "config": name.split("-")[0]},
                                  {"config": name, "constants": {k: (sorted(v) if isinstance(v, set) else v) for k, v in c.items()},
                                   "tlc_tail": dict(named or []).get(cl, res.out[-4000:])})
            elif not res.ok:
                raise MachineryFailure(f"TLC run {name} did not complete: {res.out[-2000:]}")
            elif name.startswith("D-") and res.depth != c["MaxDepth"] + 1:
                raise MachineryFailure(f"TLC run {name} explored depth {res.depth}, expected {c['MaxDepth'] + 1}")
            if counted:
                chk.add_tlc("cons-mc:" + name, res)
            else:
                chk.mc_runs.append({"config": "cons-mc:" + name, "distinct": res.distinct, "generated": res.generated,
                                    "depth": res.depth, "wall_s": round(res.wall, 2), "exhaustive": True,
                                    "note": "share of the exploration above: same graph, not added to the totals"})
            if counted:
                chk.note(f"constraints mc {name}: {res.distinct} states, {res.generated} transitions, {res.wall:.1f}s, "
                         f"violated={res.violated}")
        conv = conv_f.result()
    finally:
        ex.shutdown(wait=False, cancel_futures=True)
    if "error" in conv.values():
        raise MachineryFailure(f"informative converse run failed: {conv}")
    chk.extra["constraints_converse_satisfied_implies_valid"] = conv
    chk.note(f"constraints (informative, not demanded): 'satisfies every constraint => reported valid' {conv}")
    chk.note(f"constraints part: {time.time() - t0:.1f}s")
