def run_constraints(chk, tier, rng):
    chk.note("constraints part not built yet")
