"""C14 - configuration-path independence: setters reach the same model as the constructor.

T: TLC explores ConfigMC: from a freshly constructed component of every kind (neuron group,
   synapse, connection, Serial layer, reducer) EVERY sequence of at most MaxLen property
   assignments (dt, delay, batchsz, duration, inplace, synapse, dtype via .to) over the value
   grids.  The Mech layer transcribes the setters of the mixins; at every state the reported
   configuration is the assigned one (ReportsBack), every history is sized as the constructor
   would size it (SizedAsFresh), everything kept equals what the constructor sets
   (PathIndependent), and one assignment changes one reported attribute (AssignsOnly).  The
   three formulas of the shipped code that drifted (delay + dt, duration -> step_time,
   synapse -> synapses) are selectable rules; TLC rejects each of them in every run.
A: TLC prints the outcome table (observable projection) of every sequence; the sequences are
   replayed on real components; after every assignment all public getters and the recordsz /
   batch dimension of every internal history are compared; `probe` clears the component and
   runs it side by side with a component freshly constructed from the reported configuration.
B: random longer sequences on larger grids, recorded and validated by TLC (ConfigTrace).
"""
from __future__ import annotations
import copy, json, random
from ..core import Check, MachineryFailure
from .. import tlc, graph, tracecheck
from ..impl_config import ConfigImpl, unshaped_reconfigurable

PID = "C14"
UNSHAPED_OK = unshaped_reconfigurable()
INVS = ["TypeOK", "ReportsBackInv", "SizedAsFreshInv", "PathIndependentInv", "AssignsOnlyInv", "ProbeSameInv"]
ALLK = ("neuron", "synapse", "connection", "layer", "reducer")
CLASSES = {"neuron": ["LIF", "ALIF"], "synapse": [None], "connection": ["LinearDense", "LinearDirect"],
           "layer": ["LinearDense"],
           "reducer": ["NearestTraceReducer", "PassthroughReducer", "CumulativeTraceReducer", "EMAReducer", "CAReducer",
                       "EventReducer", "ScaledNearestTraceReducer", "ScaledCumulativeTraceReducer",
                       "ConditionalNearestTraceReducer", "ConditionalCumulativeTraceReducer"]}


def consts(kinds, maxlen, dts=(1, 2, 3), delays=(0, 2, 3), durs=(1, 3, 4), batches=(1, 3), syns=("delta", "double"),
           dtypes=("f32", "f64"), dt0=2, delay0=4, dur0=4, batch0=2, incls=(True, False), syn0=("single",),
           rdelay="delay", rdur="duration", rsyn="synapse_"):
    return dict(KindsC=set(kinds), DtSet=set(dts), DelaySet=set(delays), DurSet=set(durs), BatchSet=set(batches),
                SynSet=set(syns), DTypeSet=set(dtypes), Dt0=dt0, Delay0=delay0, Dur0=dur0, Batch0=batch0,
                InclSet=set(incls), Syn0Set=set(syn0), MaxLen=maxlen, RDelay=rdelay, RDur=rdur, RSyn=rsyn)


def run_mc(chk, name, c, expect=None):
    res = tlc.run("ConfigMC", tlc.cfg_text(constants=c, invariants=INVS), workers=4, timeout=3000)
    if expect is not None:
        if not (set(res.violated) & set(expect)):
            raise MachineryFailure(f"drifted rule {name} was not rejected by TLC ({res.violated}): {res.out[-1500:]}")
        chk.note(f"mc {name}: drifted rule rejected by TLC, violated={res.violated}")
        return
    if res.violated:
        chk.violation({"clause": "MC:" + ",".join(res.violated), "site": "spec", "config": name},
                      {"config": name, "tlc_tail": res.out[-4000:]})
    elif not res.ok:
        raise MachineryFailure(f"TLC run {name} did not complete: {res.out[-2000:]}")
    chk.add_tlc("mc:" + name, res)
    chk.note(f"mc {name}: {res.distinct} states, {res.generated} transitions, depth {res.depth}, {res.wall:.1f}s, "
             f"violated={res.violated}")


def gen_graph(chk, name, c):
    res = tlc.run("ConfigMC", tlc.cfg_text(constants=c, invariants=["Emit"]), workers=1, timeout=3000)
    if not res.ok:
        raise MachineryFailure(f"TLC generation run {name} failed: {res.out[-2000:]}")
    g = graph.Graph.from_lines(res.printed())
    if len(g.states) != res.distinct:
        raise MachineryFailure(f"emitted graph {name} has {len(g.states)} states, TLC reports {res.distinct}")
    chk.add_tlc("gen:" + name, res)
    g.name = name
    return g


def init_headers(c, rng, tick):
    """One header per (kind, initial configuration, component class)."""
    out = []
    for k in sorted(c["KindsC"]):
        incls = sorted(c["InclSet"]) if k == "reducer" else [False]
        syns = sorted(c["Syn0Set"]) if k in ("synapse", "connection", "layer") else ["none"]
        for incl in incls:
            for syn in syns:
                cfg = dict(dt=c["Dt0"], delay=c["Delay0"] if syn != "none" else 0,
                           batchsz=c["Batch0"] if k != "reducer" else 0, inplace=False,
                           dur=c["Dur0"] if k == "reducer" else 0, incl=incl, syn=syn, dtype="f32")
                for i, cls in enumerate(CLASSES[k]):
                    h = dict(kind=k, cls=cls, tick=tick, cfg=cfg, seed=rng.randrange(1, 10 ** 6))
                    if k == "reducer":
                        w = (i + int(incl)) % 3
                        h["warm"] = "ks" if w == 2 else ((not UNSHAPED_OK) or w == 0)
                    out.append(h)
    return out


def _diff_fields(exp_st, obs_st):
    out = []
    for key in ("cfg", "ncfg"):
        for f in sorted(set(exp_st.get(key, {})) | set(obs_st.get(key, {}))):
            if exp_st.get(key, {}).get(f) != obs_st.get(key, {}).get(f):
                out.append(f"{key}.{f}")
    for key in ("sizes", "tens", "kind"):
        if exp_st.get(key) != obs_st.get(key):
            out.append(key)
    return out


def _detail(rep, impl_detail=None):
    exp = rep.get("expected") or []
    obs = rep.get("observed") or {}
    d = {}
    if exp and "st" in obs:
        d["fields"] = ",".join(_diff_fields(exp[0]["st"], obs["st"]))
    oret = obs.get("ret") or {}
    if oret.get("t") == "err":
        d["raised"] = oret.get("e")
    if oret.get("t") == "diff" and impl_detail:
        d["probe_field"] = impl_detail.get("field")
    return d


def replay_headers(chk, g, hdrs, rng, budget, deviate=None, report=True):
    edges, mism_all = 0, []
    for hdr in hdrs:
        last = {}

        def make(hdr=hdr, last=last):
            last["impl"] = ConfigImpl(hdr)
            return last["impl"]

        init_key = graph.canon(make().project())
        if init_key not in g.states:
            raise MachineryFailure(f"initial implementation state not in emitted graph {g.name}: {init_key}")
        mism = []

        def on_mismatch(sig, rep, hdr=hdr, mism=mism, last=last):
            det = getattr(last.get("impl"), "detail", None)
            sig = dict(sig, kind=hdr["kind"])
            sig.update(_detail(rep, det))
            rep = dict(rep, hdr=hdr, probe_detail=det)
            mism.append((sig, rep))
            if report:
                chk.violation(sig, rep)

        stats = graph.replay(g, init_key, make, budget=budget, rng=rng, on_mismatch=on_mismatch, deviate=deviate,
                             max_mismatch=25)
        edges += stats.edges
        mism_all += mism
        if report:
            chk.evaluations += stats.edges
            for k, o in stats.pairs:
                chk.nontrivial.add((hdr["kind"], str(hdr["cls"]), k, o))
            chk.extra["replayed_edges"] = chk.extra.get("replayed_edges", 0) + stats.edges
            if stats.pairs and len(chk.samples) < 4:
                k, o = sorted(stats.pairs)[len(stats.pairs) // 2]
                chk.sample({"kind": "replayed-edge", "class": hdr["cls"], "state": json.loads(k), "op": json.loads(o)})
    if report:
        chk.note(f"replay {g.name}: {edges} edges over {len(hdrs)} components (graph: {len(g.states)} states, "
                 f"{g.n_edges} edges), mismatches={len(mism_all)}")
    return edges, mism_all


# ------------------------------------------------------------------------------- direction B
FUZZY_DT = (3, 6, 7, 19)          # ticks of 0.1 ms: step times 0.3, 0.6, 0.7, 1.9
FUZZY_Q = (3, 6, 7)               # durations q * dt whose IEEE quotient is a hair above q for some of them


def random_traces(rng, count, steps, fuzzy=False):
    """fuzzy: step times / durations a user would write (0.7, 2.1, ...) chosen so that
    ceil(float(duration) / float(dt)) often differs from the exact ceiling; reached through the
    constructor and through dt / delay / duration setters in either order."""
    traces = []
    for _ in range(count):
        k = rng.choice(ALLK if not fuzzy else ("synapse", "connection", "layer", "reducer"))
        cls = rng.choice(CLASSES[k])
        tick = rng.choice([0.5, 0.25, 1.0]) if not fuzzy else 0.1
        syn = rng.choice(["delta", "deltaplus", "single", "double"]) if k in ("synapse", "connection", "layer") else "none"

        def fdt():
            return rng.choice(FUZZY_DT + (10,))

        def fdur(dt):
            return rng.choice(FUZZY_Q) * dt if rng.random() < 0.8 else rng.randint(0, 40)
        dt0 = fdt() if fuzzy else rng.randint(1, 4)
        cfg = dict(dt=dt0, delay=(fdur(dt0) if fuzzy else rng.randint(0, 8)) if syn != "none" else 0,
                   batchsz=rng.randint(1, 4) if k != "reducer" else 0, inplace=False,
                   dur=(fdur(dt0) if fuzzy else rng.randint(0, 8)) if k == "reducer" else 0,
                   incl=(rng.random() < 0.5) if k == "reducer" else False,
                   syn=syn, dtype="f32")
        hdr = dict(kind=k, cls=cls, tick=tick, cfg=cfg, seed=rng.randrange(1, 10 ** 6))
        if k == "reducer":
            hdr["warm"] = rng.choice([True, "ks", (not UNSHAPED_OK)])
        impl = ConfigImpl(hdr)
        nq0 = impl.nq()
        evs = []
        for _ in range(steps):
            choices = ["set_dt", "to", "probe"]
            if k in ("synapse", "connection", "layer"):
                choices += ["set_delay", "set_delay", "set_batchsz", "set_inplace"]
            if k in ("connection", "layer"):
                choices += ["set_syn"]
            if k == "neuron":
                choices += ["set_batchsz"]
            if k == "reducer":
                choices += ["set_dur", "set_dur", "set_inplace"]
            if fuzzy:
                choices += ["set_dt", "set_dt"]
            a = rng.choice(choices)
            cur_dt = impl.project()["cfg"]["dt"]
            v = {"set_dt": lambda: fdt() if fuzzy else rng.randint(1, 4), "to": lambda: rng.choice(["f32", "f64"]),
                 "probe": lambda: 0,
                 "set_delay": lambda: fdur(cur_dt) if fuzzy and cur_dt > 0 else rng.randint(0, 8),
                 "set_batchsz": lambda: rng.randint(1, 4),
                 "set_inplace": lambda: rng.random() < 0.5,
                 "set_dur": lambda: max(fdur(cur_dt), 1) if fuzzy and cur_dt > 0 else rng.randint(1, 8),
                 "set_syn": lambda: rng.choice(["delta", "deltaplus", "single", "double"])}[a]()
            op = {"a": a}
            if a != "probe":
                op[{"to": "s", "set_syn": "s", "set_inplace": "f"}.get(a, "v")] = v
            if a in ("set_dt", "set_delay", "set_dur", "set_syn"):
                op["nq"] = impl.nq_after(op)       # oracle input: the IEEE ceiling on the floats handed over
            ret = impl.apply(op)
            ev = {"op": op, "ret": ret, "st": impl.project()}
            if a == "probe" and impl.detail:
                ev["_detail"] = impl.detail
            evs.append(ev)
        traces.append({"hdr": {"kind": k, "init": cfg, "cfg": hdr, "nq": nq0, "waive": []}, "ev": evs})
    return traces


def _exact_ceil(ev):
    c = ev["st"]["cfg"]
    d = c["dur"] if ev["st"]["kind"] == "reducer" else c["delay"]
    return -(-d // c["dt"]) if c["dt"] > 0 else -1


def validate_traces(chk, traces, site, report=True):
    clean = [{"hdr": {"kind": t["hdr"]["kind"], "init": t["hdr"]["init"], "nq": t["hdr"]["nq"], "waive": []}, "ev": [{kk: vv for kk, vv in e.items() if not kk.startswith("_")} for e in t["ev"]]}
             for t in traces]
    # two rounds: after a drift the implementation stays off the specification, so later lines of
    # the same execution would only repeat it
    stats, rej = tracecheck.validate("ConfigTrace", clean, shards=4, max_waive_rounds=2)
    if report:
        chk.traces += len(traces)
        chk.transitions += stats["generated"]
        chk.states += stats["distinct"]
        nev = sum(len(t["ev"]) for t in traces)
        chk.evaluations += nev
        for ti, t in enumerate(traces):
            for i, e in enumerate(t["ev"]):
                chk.nontrivial.add(("trace", site, ti, i))
        chk.extra["trace_events"] = chk.extra.get("trace_events", 0) + nev
        chk.note(f"traces[{site}]: {len(traces)} traces, {nev} events, rejected lines={len(rej)}")
        chk.sample({"kind": "trace", "hdr": traces[0]["hdr"]["cfg"], "first_events": clean[0]["ev"][:2]})
        for r in rej:
            t = traces[r["trace"]]
            exp = sorted((r["diag"] or {}).get("expected") or [], key=lambda o: o["ret"].get("t") != "same")
            ev = r["event"]
            clause = "Unexplained"
            if exp:
                rets = [graph.canon(o["ret"]) for o in exp]
                clause = "RetOK" if graph.canon(ev["ret"]) not in rets else "StateOK"
            rep = {"hdr": t["hdr"]["cfg"], "ops": [e["op"] for e in t["ev"][: r["line"]]], "line": r["line"],
                   "op": ev["op"], "expected": exp, "observed": {"ret": ev["ret"], "st": ev["st"]},
                   "probe_detail": t["ev"][r["line"] - 1].get("_detail")}
            sig = {"clause": clause, "op": ev["op"]["a"], "site": site, "kind": t["hdr"]["kind"]}
            sig.update(_detail(rep, rep["probe_detail"]))
            chk.violation(sig, rep)
    return stats, rej


def canary_trace(chk, traces, rejected=()):
    # prefer a recorded execution that was accepted; when none was (broken tree) use the first
    # event of any execution with histories: the initial projection is always explained
    ok = [t for i, t in enumerate(traces) if i not in rejected and any(e["st"]["sizes"] for e in t["ev"])]
    src = ok[0] if ok else next(t for t in traces if t["ev"][0]["st"]["sizes"] and t["ev"][0]["op"]["a"] == "probe"
                                or t["ev"][0]["st"]["sizes"])
    if not ok:
        src = dict(src, ev=src["ev"][:1])
    good = {"hdr": {"kind": src["hdr"]["kind"], "init": src["hdr"]["init"], "nq": src["hdr"]["nq"], "waive": []},
            "ev": [{kk: vv for kk, vv in e.items() if not kk.startswith("_")} for e in copy.deepcopy(src["ev"])]}
    bad = copy.deepcopy(good)
    line = next(i for i, e in enumerate(bad["ev"]) if e["st"]["sizes"]) + 1
    bad["ev"][line - 1]["st"]["sizes"][0]["n"] += 1        # one slot more than the constructor
    _, rej = tracecheck.validate("ConfigTrace", [good, bad], shards=1, max_waive_rounds=1)
    got = {(r["trace"], r["line"]) for r in rej}
    if (1, line) not in got or (ok and any(t == 0 for t, _ in got)):
        raise MachineryFailure(f"canary: expected only the corrupted trace rejected at line {line}, got {got}")
    chk.note(f"canary: corrupted trace (history one slot longer) rejected at line {line}")


def encoder_setters(chk, rng, tier):
    """Configuration-path independence of the encoders (step time, steps, frequency, refractory period incl. the
    'derived from dt' mode, compensation): the setter graph of spec/EncoderCfgMC.tla (specified with C19) replayed on
    real encoders - every reported attribute after every assignment, and the configuration a later dt assignment
    leaves behind."""
    from . import c19
    quick = tier == "quick"
    for name, consts, tick in [("exp", c19.cfg_consts("exp", depth=100), 0.5),
                               ("exp-derived-comp", c19.cfg_consts("exp", derive0=True, comp0=True, depth=100), 0.25)]:
        g = c19.cfg_graph(chk, "c14-" + name, consts)
        c19.replay_cfg_graph(chk, g, consts, tick, rng, 2500 if quick else None)


def run(tier: str, seed: int) -> int:
    chk = Check(PID, tier, seed)
    rng = random.Random(seed)
    thorough = tier == "thorough"
    chk.extra["rule"] = ("MC: every setter sequence up to MaxLen from a freshly built component of each kind; replay: "
                         "one execution per sampled edge (assignment or probe after a sequence) on real components of "
                         "several classes; traces: random longer sequences. A case is distinct and non-trivial when it "
                         "is a distinct (component class, sequence, operation) executed on a real component.")
    if UNSHAPED_OK:
        chk.note("reducers are re-configured both after observing once and before any observation")
    else:
        chk.assumptions.append("reducers observe once before being re-configured: on this tree RecordTensor's temporal "
                               "setters refuse uninitialised storage when the size changes (finding D5 of C13)")
        chk.note("RecordTensor temporal setters refuse uninitialised storage on this tree (C13 D5): reducers are "
                 "re-configured only after one observation")
    # ---- T
    if thorough:
        run_mc(chk, "all-len4", consts(ALLK, 4, delays=(0, 2, 3, 4), batches=(1, 2, 3)))
        run_mc(chk, "all-len3-wide", consts(ALLK, 3, dts=(1, 2, 3, 4), delays=(0, 1, 2, 3, 4, 6), durs=(1, 2, 3, 4, 6),
                                           batches=(1, 2, 3), syns=("delta", "deltaplus", "single", "double")))
    else:
        run_mc(chk, "all-len3", consts(ALLK, 3, delays=(0, 2, 3, 4), batches=(1, 2, 3)))
    # the formulas of the shipped setters, as rules of the Mech layer, are designs TLC rejects
    run_mc(chk, "rule delay+dt", consts(("synapse",), 2, rdelay="delay+dt"), expect=["SizedAsFreshInv", "PathIndependentInv"])
    run_mc(chk, "rule duration->step_time", consts(("reducer",), 2, rdur="step_time"),
           expect=["AssignsOnlyInv", "ReportsBackInv"])
    run_mc(chk, "rule synapse->synapses", consts(("connection",), 2, rsyn="synapses"),
           expect=["AssignsOnlyInv", "ReportsBackInv"])

    # ---- A
    c = consts(ALLK, 3 if thorough else 2)
    g = gen_graph(chk, f"g-len{c['MaxLen']}", c)
    hdrs = init_headers(c, rng, tick=0.5)
    replay_headers(chk, g, hdrs, rng, budget=None if thorough else 170)

    # canary A: a replay that reports a history one slot longer must be flagged
    def deviate(op, ret, st):
        if st["sizes"]:
            st = dict(st, sizes=[dict(st["sizes"][0], n=st["sizes"][0]["n"] + 1)] + st["sizes"][1:])
        return ret, st
    syn_h = [h for h in hdrs if h["kind"] == "synapse"][:1]
    n, mism = replay_headers(chk, g, syn_h, rng, budget=30, deviate=deviate, report=False)
    if not any(s.get("clause") in ("StateOK", "PathState") for s, _ in mism):
        raise MachineryFailure("canary: a deviating replay was not reported")
    chk.note(f"canary: deviating replay reported ({len(mism)} mismatches on {n} edges)")

    # ---- B
    traces = random_traces(rng, 120 if not thorough else 1500, steps=8)
    _, rej = validate_traces(chk, traces, site="random-sequences")
    canary_trace(chk, traces, rejected={r["trace"] for r in rej})
    # step times and durations a user would write, incl. pairs whose IEEE quotient is just above an integer
    ftraces = random_traces(rng, 80 if not thorough else 800, steps=8, fuzzy=True)
    nfuzzy = sum(1 for t in ftraces for e in t["ev"] if "nq" in e["op"] and _exact_ceil(e) != e["op"]["nq"])
    if nfuzzy < 10:
        raise MachineryFailure(f"only {nfuzzy} recorded assignments hit a step-time/duration pair with a fuzzy quotient")
    chk.extra["fuzzy_quotient_events"] = nfuzzy
    validate_traces(chk, ftraces, site="user-floats")
    # extension of the specification beyond the listed property (DESIGN section 7, item 2)
    run_virtual_tensor(chk, rng, thorough)
    encoder_setters(chk, rng, tier)
    return chk.finish()


def replay(path: str) -> int:
    doc = json.loads(open(path).read())
    rep = doc["replay"]
    impl = ConfigImpl(rep["hdr"])
    ops = rep.get("ops") or (rep.get("path", []) + ([rep["op"]] if "op" in rep else []))
    ret = None
    for op in ops:
        ret = impl.apply(op)
    obs = {"ret": ret, "st": impl.project()}
    exp = rep.get("expected") or []
    ok = any(graph.canon(o["ret"]) == graph.canon(obs["ret"]) and graph.canon(o["st"]) == graph.canon(obs["st"])
             for o in exp)
    print(json.dumps({"observed": obs, "expected": exp, "probe_detail": impl.detail, "matches": ok}, indent=1))
    if not ok:
        print(f"VIOLATION property={PID} replay={path}")
    return 0 if ok else 1


# ------------------------------------------------------------------------------------------
# Extension phase (DESIGN section 7, item 2): VirtualTensor
# ------------------------------------------------------------------------------------------
def run_virtual_tensor(chk, rng, thorough):
    from ..impl_virtualtensor import VTImpl
    INV = ["TypeOK", "RefInv", "UsableInv", "ValueInv", "FrameInv"]
    dts = {"f32", "f64", "i64", "f16"} if thorough else {"f32", "f64", "i64"}
    mx = 3 if thorough else 2

    def consts(rule, mx, dts):
        return dict(MaxObjs=mx, RRecreate=rule, DtSetC=set(dts))

    res = tlc.run("VirtualTensorMC", tlc.cfg_text(constants=consts("guarded", 3, dts), invariants=INV), workers=4, timeout=3000)
    if res.violated:
        chk.violation({"clause": "MC:" + ",".join(res.violated), "site": "spec:VirtualTensor"}, {"tlc_tail": res.out[-4000:]})
    elif not res.ok:
        raise MachineryFailure(f"VirtualTensorMC did not complete: {res.out[-2000:]}")
    chk.add_tlc("mc:virtualtensor", res)
    chk.note(f"mc virtualtensor: {res.distinct} states, {res.generated} transitions, depth {res.depth}, {res.wall:.1f}s")
    bad = tlc.run("VirtualTensorMC", tlc.cfg_text(constants=consts("by-name", 2, {"f32", "f64"}), invariants=INV), workers=4,
                  timeout=3000)
    if "UsableInv" not in bad.violated:
        raise MachineryFailure(f"rule by-name (finaliser deletes the buffer of a replacing VirtualTensor) not rejected: {bad.violated}")
    chk.note("mc virtualtensor: rule 'finaliser deletes by name' rejected by TLC (UsableInv)")

    c = consts("guarded", mx, dts)
    res = tlc.run("VirtualTensorMC", tlc.cfg_text(constants=c, invariants=["Emit"]), workers=1, timeout=3000)
    if not res.ok:
        raise MachineryFailure(f"VirtualTensor generation failed: {res.out[-2000:]}")
    g = graph.Graph.from_lines(res.printed())
    if len(g.states) != res.distinct:
        raise MachineryFailure(f"VirtualTensor graph: {len(g.states)} states printed, TLC reports {res.distinct}")
    chk.add_tlc("gen:virtualtensor", res)
    make = lambda: VTImpl(mx)  # noqa: E731
    init_key = graph.canon(make().project())
    if init_key not in g.states:
        raise MachineryFailure(f"VirtualTensor: initial implementation state not in graph: {init_key}")

    def on_mismatch(sig, rep):
        op = rep.get("op") or {}
        obs = (rep.get("observed") or {}).get("ret") or {}
        path = rep.get("path") or []
        sig = dict(sig, site="virtualtensor-" + sig.get("site", ""), raised=obs.get("e"),
                   recreated=sum(1 for p in path + [op] if isinstance(p, dict) and p.get("a") == "create") > 1)
        chk.violation(sig, dict(rep, extension="VirtualTensor"))

    import gc
    gc.collect()
    gc.freeze()          # the adaptor calls gc.collect() after lifetime operations: keep the graph out of its way
    try:
        stats = graph.replay(g, init_key, make, budget=None if thorough else 1500, rng=rng, on_mismatch=on_mismatch,
                             max_mismatch=20, op_class=lambda op: f"{op.get('a')}:{op.get('via')}:{op.get('mat')}")
    finally:
        gc.unfreeze()
    chk.evaluations += stats.edges
    for k, o in stats.pairs:
        chk.nontrivial.add(("virtualtensor", k, o))
    chk.note(f"replay virtualtensor: {stats.edges} edges of {g.n_edges}, {len(stats.states_visited)}/{len(g.states)} states, "
             f"mismatches={len(stats.mismatches)}")
    seen = []

    def deviate(op, ret, st):
        if ret.get("t") == "val":
            ret = dict(ret, dt="f16" if ret["dt"] != "f16" else "f32")
        return ret, st
    graph.replay(g, init_key, make, budget=300, rng=rng, on_mismatch=lambda s, r: seen.append(s), deviate=deviate,
                 max_mismatch=200)
    if not any(s.get("clause") == "RetOK" for s in seen):
        raise MachineryFailure("canary: a VirtualTensor replay reporting the wrong dtype was not flagged")
    chk.note(f"canary virtualtensor: deviating replay reported ({len(seen)} mismatches)")
