"""C15 - Trainer/monitor lifecycle: one observation per training step, cells isolated.

T: TLC explores every program over {register_cell, del_cell, add_monitor, del_monitor,
   trainer.train/eval, layer.train/eval, layer step, trainer step, clear, drop-and-collect,
   listings} to a bounded depth, with two cells sharing a neuron group (or a connection) and one
   or two trainers (STDP/STDP, MSTDPET/STDP), and checks that the implementation-shaped pool
   model (physical monitors, aliasing, deregistration on delete, train()/eval()) refines the
   logical monitors of the property (Refinement, StepExact), Isolation, ListingsExact,
   TrainerStepOK.  The model of the code AS FOUND (D14 = TRUE) must violate Isolation (a
   canary for the model checking itself); the shared Observable name table violates NoRedirect
   (known finding).
A: TLC prints the outcome table of every state; every edge is executed on a real Biclique layer
   with ExactNeurons and shipped trainers and compared (exception class, listings, and for every
   physical monitor: aliasing structure, `registered`, decoded sequence of recorded step ids).
B: random long programs are recorded and validated by TLC against the trace specification
   (which also carries the logical monitors and checks the refinement at every event).
"""
from __future__ import annotations
import copy, random, time
from concurrent.futures import ThreadPoolExecutor
from ..core import Check, MachineryFailure
from .. import tlc, graph, tracecheck
from ..impl_lifecycle import LifecycleImpl, MAXOBS

PID = "C15"
INVS = ["TypeOK", "Refinement", "StepExact", "Isolation", "ListingsExact", "TrainerStepOK"]


def consts(ntr=1, t1="stdp", t2="stdp", share="neuron", samehp=True, d14=False, am=(1, 3), drop=True, prune=True,
           depth=6, uniques=(False,), variants=("std",), extras=False):
    return dict(NTr=ntr, TType1=t1, TType2=t2, Share=share, SameHp=samehp, D14=d14, AMNames=set(am),
                Uniques=set(uniques), Vars=set(variants), Extras=extras, WithDrop=drop, Prune=prune, MaxDepth=depth)


def run_tlc(c, invariants, workers=2):
    cfg = tlc.cfg_text(constants=c, invariants=invariants, constraints=["Bounded"])
    return tlc.run("LifecycleMC", cfg, workers=workers, timeout=3400)


def collect_mc(chk: Check, name, res, expect_violation=None):
    if expect_violation:
        # a model that MUST violate the invariant (non-vacuity of the model checking)
        if expect_violation not in res.violated:
            raise MachineryFailure(f"mc {name}: expected {expect_violation} to be violated, got {res.violated}: "
                                   f"{res.out[-1500:]}")
        chk.note(f"mc {name}: {expect_violation} violated as expected after {res.generated} states "
                 f"({res.wall:.1f}s)")
        chk.extra.setdefault("expected_spec_violations", []).append({"config": name, "invariant": expect_violation})
        return
    if res.violated:
        chk.violation({"clause": "MC:" + ",".join(res.violated), "site": "spec", "config": name},
                      {"config": name, "tlc_tail": res.out[-6000:]})
    elif not res.ok:
        raise MachineryFailure(f"TLC run {name} did not complete: {res.out[-2500:]}")
    chk.add_tlc("mc:" + name, res, exhaustive=not res.violated)
    chk.note(f"[t+{time.time() - chk.t0:.0f}s] mc {name}: {res.distinct} states, {res.generated} transitions, depth {res.depth}, "
             f"{res.wall:.1f}s, violated={res.violated}")


def gen_graph(chk: Check, name, c, res):
    if not res.ok:
        raise MachineryFailure(f"TLC generation run {name} failed: {res.out[-2500:]}")
    lines = list(res.printed())
    g = graph.Graph.from_lines(lines)
    if not g.states:
        raise MachineryFailure(f"TLC generation run {name} printed no state")
    g.inits = [graph.canon(r["s"]) for r in lines if isinstance(r, dict) and r.get("init") and "s" in r]
    g.inits = list(dict.fromkeys(g.inits))
    if len(g.inits) != 1:
        raise MachineryFailure(f"emitted graph {name}: {len(g.inits)} initial states")
    g.name = name
    chk.add_tlc("gen:" + name, res)
    return g


def _redirected(st):
    return any(any(r) for r in st.get("redir", []))


def _signature(sig, rep):
    sig = dict(sig)
    op = rep.get("op") or {}
    obs = rep.get("observed") or {}
    oret, ost = obs.get("ret") or {}, obs.get("st") or {}
    exp = rep.get("expected") or []
    st = rep.get("state") or {}
    if isinstance(op, dict) and op.get("a"):
        sig["op"] = op.get("a")
        if op.get("a") == "list":
            sig["what"] = op.get("what")
            if sig.get("clause") == "RetOK":
                sig["clause"] = "ListingsExact"
    if oret.get("err"):
        sig["raised"] = oret["err"]
    if sig.get("clause") == "StateOK" and exp and ost:
        est = exp[0]["st"]
        # which part of the state differs
        if ost.get("pool") != est.get("pool"):
            sig["differs"] = "pool"
        elif [p["reg"] for p in ost.get("ph", [])] != [p["reg"] for p in est.get("ph", [])]:
            sig["differs"] = "registered"
            if op.get("a") in ("del_cell", "del_monitor", "add_monitor"):
                # a monitor still listed under a surviving cell lost its registration
                sig["clause"] = "Isolation"
                sig["shared_monitor_deregistered"] = True
        elif [p["rec"] for p in ost.get("ph", [])] != [p["rec"] for p in est.get("ph", [])]:
            sig["differs"] = "recorded"
        elif ost.get("redir") != est.get("redir"):
            sig["differs"] = "redir"
        else:
            sig["differs"] = "modes"
    if isinstance(st, dict) and st.get("cfg"):
        sig["trainers"] = "+".join(st["cfg"]["ttype"])
    return sig


def replay_graph(chk: Check, g, *, budget, rng, deviate=None, report=True):
    ik = g.inits[0]
    init = g.states[ik]
    if report:
        make = lambda: RedirectWatch(LifecycleImpl(init), chk, g.name, init)
    else:
        make = lambda: LifecycleImpl(init)
    got = graph.canon(make().project())
    if got != ik:
        raise MachineryFailure(f"initial implementation state differs from the specified one in {g.name}: {got} vs {ik}")
    mism = []

    def on_mismatch(sig, rep):
        rep = dict(rep, init=init, graph=g.name)
        sig = _signature(sig, rep)
        mism.append((sig, rep))
        if report:
            chk.violation(sig, rep)

    stats = graph.replay(g, ik, make, budget=budget, rng=rng, on_mismatch=on_mismatch, deviate=deviate,
                         max_mismatch=200)
    if report:
        chk.evaluations += stats.edges
        for k, o in stats.pairs:
            chk.nontrivial.add((g.name, k, o))
        chk.extra["replayed_edges"] = chk.extra.get("replayed_edges", 0) + stats.edges
        chk.extra["impl_states_visited"] = chk.extra.get("impl_states_visited", 0) + len(stats.states_visited)
        chk.note(f"[t+{time.time() - chk.t0:.0f}s] replay {g.name}: {stats.edges} edges of {g.n_edges}, {len(stats.states_visited)}/{len(g.states)} "
                 f"states, mismatches={len(stats.mismatches)}")
        chk.sample({"kind": "replayed-graph", "graph": g.name, "init": init})
    return stats, mism


class RedirectWatch:
    """Wraps an implementation object: reports when the real objects take the redirecting outcome
    (allowed by the Mech model because it is what the code does, forbidden by the property)."""

    def __init__(self, impl, chk, gname, init):
        self.impl, self.chk, self.gname, self.init = impl, chk, gname, init
        self.path = []

    def apply(self, op):
        ret = self.impl.apply(op)
        self.path.append(op)
        return ret

    def project(self):
        st = self.impl.project()
        if _redirected(st) and self.path:
            op = self.path[-1]
            self.chk.violation({"clause": "Isolation", "site": "Observable name table", "redirected": True,
                                "op": op.get("a"), "trainers": "+".join(st["cfg"]["ttype"])},
                               {"init": self.init, "graph": self.gname, "path": list(self.path), "observed_state": st})
        return st


# ------------------------------------------------------------------ direction B
def random_trace(rng, steps, cfg, am):
    ntr = len(cfg["ttype"])
    init = {"cfg": cfg, "ltr": [True, True], "clk": 0,
            "tr": [{"alive": True, "training": True, "cells": [False, False]} for _ in range(ntr)],
            "pool": [[[0] * 6 for _ in range(2)] for _ in range(ntr)], "ph": [],
            "redir": [[False, False] for _ in range(ntr)]}
    impl = LifecycleImpl(init)
    st = impl.project()
    if graph.canon(st) != graph.canon(init):
        raise MachineryFailure(f"driver: initial projection differs from the header: {st}")
    evs = []
    nsteps = 0
    for _ in range(steps):
        alive = [t + 1 for t, r in enumerate(st["tr"]) if r["alive"]]
        r = rng.random()
        nl = 2 if cfg["share"] == "layers" else 1
        if (r < 0.28 or not alive) and nsteps < MAXOBS - 2:
            op = {"a": "step", "l": rng.randint(1, nl)}
            nsteps += 1
        elif r < 0.34 or not alive:
            op = {"a": "ltrain", "l": rng.randint(1, nl), "b": rng.random() < 0.6}
        else:
            t = rng.choice(alive)
            tt = cfg["ttype"][t - 1]
            names = [m for m in am if (m >= 5) == (tt == "mstdpet")]
            c = rng.randint(1, 2)
            x = rng.random()
            if x < 0.20:
                op = {"a": "register_cell", "t": t, "c": c}
            elif x < 0.22 and tt == "stdp":
                op = {"a": "add_cell", "t": t, "c": c}
            elif x < 0.30:
                op = {"a": "del_cell", "t": t, "c": c}
            elif x < 0.44 and names:
                op = {"a": "add_monitor", "t": t, "c": c, "m": rng.choice(names), "u": rng.random() < 0.4,
                      "var": "alt" if rng.random() < 0.35 else "std"}
            elif x < 0.50 and names:
                op = {"a": "del_monitor", "t": t, "c": c, "m": rng.choice(names)}
            elif x < 0.62:
                op = {"a": "ttrain", "t": t, "b": rng.random() < 0.6}
            elif x < 0.74:
                op = {"a": "tstep", "t": t}
            elif x < 0.80:
                op = {"a": "clear", "t": t}
            elif x < 0.82 and ntr > 1:
                op = {"a": "drop", "t": t}
            elif x < 0.85:
                op = {"a": "update", "t": t}
            elif x < 0.90:
                op = {"a": "list", "t": t, "what": "of", "c": c}
            else:
                op = {"a": "list", "t": t, "what": rng.choice(["named", "monitors", "cells"]), "c": 1}
        ret = impl.apply(op)
        st = impl.project()
        evs.append({"op": op, "ret": ret, "st": st})
        if _redirected(st):
            break   # beyond a redirection the behaviour is the known design defect: not modelled
    return {"hdr": {"init": init, "cfg": cfg, "waive": []}, "ev": evs}


def _clause(ev, expected, diag):
    if not expected:
        return "Unexplained"
    cr, cs = graph.canon(ev["ret"]), graph.canon(ev["st"])
    if not any(graph.canon(o["ret"]) == cr for o in expected):
        return "RetOK"
    if not any(graph.canon(o["st"]) == cs for o in expected):
        return "StateOK"
    if diag is not None and diag.get("redirected"):
        return "Isolation"
    return "AbsOK"


def validate_traces(chk: Check, traces, site, report=True, shards=6):
    stats, rej = tracecheck.validate("LifecycleTrace", traces, shards=shards)
    if report:
        chk.traces += len(traces)
        chk.transitions += stats["generated"]
        chk.states += stats["distinct"]
        nev = 0
        for ti, t in enumerate(traces):
            for li, e in enumerate(t["ev"]):
                nev += 1
                if e["st"]["ph"]:
                    chk.nontrivial.add(("trace", ti, li))
        chk.evaluations += nev
        chk.extra["trace_events"] = chk.extra.get("trace_events", 0) + nev
        chk.note(f"[t+{time.time() - chk.t0:.0f}s] traces[{site}]: {len(traces)} traces, {nev} events, rejected lines={len(rej)}")
        chk.sample({"kind": "trace", "cfg": traces[0]["hdr"]["cfg"], "first_events": traces[0]["ev"][:3]})
        for r in rej:
            t = traces[r["trace"]]
            prev = t["ev"][r["line"] - 2]["st"] if r["line"] > 1 else t["hdr"]["init"]
            exp = (r["diag"] or {}).get("expected")
            rep = {"init": t["hdr"]["init"], "ops": [e["op"] for e in t["ev"][: r["line"]]], "line": r["line"],
                   "state": prev, "op": r["event"]["op"], "expected": exp,
                   "observed": {"ret": r["event"]["ret"], "st": r["event"]["st"]}}
            clause = _clause(r["event"], exp, r["diag"])
            sig = {"clause": clause, "site": site}
            if clause == "Isolation":
                sig = {"clause": "Isolation", "site": "Observable name table", "redirected": True}
            sig = _signature(sig, rep)
            chk.violation(sig, rep)
    return stats, rej


def _recorded_now(e):
    """A step event after which some trace / pass-through monitor holds this very step."""
    return any(p["reg"] and p["rec"] and p["rec"][-1] == e["st"]["clk"] for p in e["st"]["ph"])


def canary_trace(chk: Check, trace, clean=True):
    good = copy.deepcopy(trace)
    good["hdr"]["waive"] = []
    bad = copy.deepcopy(good)
    line = None
    for i, e in enumerate(bad["ev"]):
        if e["op"]["a"] == "step" and _recorded_now(e):
            # pretend the first monitor that recorded this step missed it
            p = next(p for p in e["st"]["ph"] if p["reg"] and p["rec"] and p["rec"][-1] == e["st"]["clk"])
            p["rec"] = p["rec"][:-1]
            line = i + 1
            break
    if line is None:
        bad["ev"][0]["st"]["ltr"][0] = not bad["ev"][0]["st"]["ltr"][0]
        line = 1
    stats, rej = tracecheck.validate("LifecycleTrace", [good, bad], shards=1, max_waive_rounds=1)
    lines = {(r["trace"], r["line"]) for r in rej}
    if not clean:
        if not any(t == 1 and l <= line for t, l in lines):
            raise MachineryFailure(f"canary: corrupted trace not rejected by line {line}: {lines}")
    elif (1, line) not in lines or any(t == 0 for t, _ in lines):
        raise MachineryFailure(f"canary: expected rejection of the corrupted trace at line {line} only, got {lines}")
    chk.extra["canary_trace_rejected_at_line"] = line
    chk.note(f"canary: corrupted trace (a missed observation) rejected at line {line}")


def canary_replay(chk: Check, g, rng):
    def deviate(op, ret, st):
        if op.get("a") == "step" and st["ltr"][op["l"] - 1]:
            st = copy.deepcopy(st)
            for p in st["ph"]:
                if p["reg"] and p["rec"] and p["rec"][-1] == st["clk"]:
                    p["rec"] = p["rec"][:-1]      # the observation of this step is lost
                    break
        return ret, st

    _, mism = replay_graph(chk, g, budget=600, rng=rng, deviate=deviate, report=False)
    if not mism:
        raise MachineryFailure("canary: a deviating replay (lost observation) was not detected")
    chk.extra["canary_replay_detected"] = mism[0][0].get("clause")
    chk.note(f"canary: deviating replay detected ({mism[0][0].get('clause')}/{mism[0][0].get('differs')})")


def run(tier: str, seed: int) -> int:
    chk = Check(PID, tier, seed)
    rng = random.Random(seed)
    quick = tier == "quick"
    chk.extra["rule"] = ("MC: all (state, operation) pairs of the bounded lifecycle model. A case is non-trivial and "
                         "distinct when it is a distinct (abstract state, operation) pair executed on the real layer "
                         "and trainers, or a distinct recorded trace event with at least one monitor installed.")
    # extension (what each KIND of monitor records per call, and when): runs beside the lifecycle phases
    from .. import subcheck
    mk = subcheck.spawn(PID, "harness.props.monitor_kinds", "phase", tier, seed + 1, "monitor-kinds")
    pt = subcheck.spawn(PID, "harness.props.pool_tags", "phase", tier, seed + 2, "pool-tags")
    d1, d2 = (5, 4) if quick else (8, 6)
    FT = (False, True)
    mc = [
        ("stdp-neuron-same-d%d" % d1, consts(1, depth=d1), INVS + ["NoRedirect"], None),
        # re-adds of an existing / deleted name with unique = True / False, same and different
        # constructor + tags, on a cell that shares the monitor with the other cell; add_cell, update
        ("stdp-neuron-readd-d%d" % (d1 - 1), consts(1, am=(1,), uniques=FT, variants=("std", "alt"), extras=True,
                                                     depth=d1 - 1), INVS + ["NoRedirect"], None),
        ("stdp-neuron-diffhp-d%d" % (d1 - 1), consts(1, samehp=False, uniques=FT, variants=("std", "alt"), am=(1,),
                                                      depth=d1 - 1), INVS + ["NoRedirect"], None),
        ("stdp-conn-readd-d%d" % (d1 - 1), consts(1, share="conn", am=(3, 4), uniques=FT, depth=d1 - 1),
         INVS + ["NoRedirect"], None),
        # one trainer, cells in two different layers with identical component names
        ("stdp-layers-d%d" % (d1 - 1), consts(1, share="layers", am=(1,), uniques=FT, depth=d1 - 1),
         INVS + ["NoRedirect"], None),
        ("stdp+stdp-d%d" % d2, consts(2, am=(1,), uniques=FT, depth=d2), INVS + ["NoRedirect"], None),
        ("mstdpet-d%d" % (d1 - 1), consts(1, t1="mstdpet", am=(5,), uniques=FT, depth=d1 - 1), INVS + ["NoRedirect"], None),
        ("mstdpet+stdp-pruned-d%d" % d2, consts(2, t1="mstdpet", am=(1, 5), depth=d2), INVS, None),
        # the code as found: deleting a cell / monitor deregisters objects shared with a surviving cell
        ("asfound-D14", consts(1, d14=True, depth=5), ["Isolation"], "Isolation"),
        # design-level: the Observable name table is shared by all trainers
        ("mstdpet+stdp-nametable", consts(2, t1="mstdpet", am=(1,), prune=False, depth=4), ["NoRedirect"], None),
    ]
    gens = [
        ("g-stdp-neuron-readd", consts(1, am=(1,), uniques=FT, variants=("std", "alt"), extras=True,
                                       depth=4 if quick else 5), 4500 if quick else 18000),
        ("g-stdp-conn-diffhp", consts(1, share="conn", samehp=False, am=(3, 4), uniques=FT, depth=3 if quick else 5),
         2000 if quick else 10000),
        ("g-stdp-layers", consts(1, share="layers", am=(1,), uniques=FT, depth=3 if quick else 5),
         2000 if quick else 10000),
        ("g-stdp+stdp", consts(2, am=(1,), uniques=FT, depth=3 if quick else 5), 2500 if quick else 15000),
        ("g-mstdpet+stdp", consts(2, t1="mstdpet", am=(1, 5), uniques=FT, depth=3 if quick else 5),
         2500 if quick else 15000),
    ]
    ex = ThreadPoolExecutor(max_workers=5)
    genf = [ex.submit(run_tlc, c, ["Emit"], 1) for _, c, _ in gens]     # first: the replays wait for them
    mcf = [(name, exp, ex.submit(run_tlc, c, invs)) for name, c, invs, exp in mc]

    # ---- A
    first = None
    for (name, c, budget), f in zip(gens, genf):
        g = gen_graph(chk, name, c, f.result())
        first = first or g
        replay_graph(chk, g, budget=budget, rng=rng)

    # ---- B
    ntr = 100 if quick else 1000
    traces = []
    cfgs = [
        ({"ttype": ["stdp"], "share": "neuron", "samehp": True, "d14": False}, (1, 2, 3, 4)),
        ({"ttype": ["stdp"], "share": "conn", "samehp": True, "d14": False}, (1, 2, 3, 4)),
        ({"ttype": ["stdp"], "share": "neuron", "samehp": False, "d14": False}, (1, 3)),
        ({"ttype": ["stdp"], "share": "layers", "samehp": True, "d14": False}, (1, 2, 3, 4)),
        ({"ttype": ["mstdpet"], "share": "layers", "samehp": True, "d14": False}, (5, 6)),
        ({"ttype": ["stdp", "stdp"], "share": "neuron", "samehp": True, "d14": False}, (1, 2, 3, 4)),
        ({"ttype": ["mstdpet"], "share": "neuron", "samehp": True, "d14": False}, (5, 6)),
        ({"ttype": ["mstdpet", "stdp"], "share": "conn", "samehp": True, "d14": False}, (1, 3, 5)),
        ({"ttype": ["stdp", "mstdpet"], "share": "neuron", "samehp": True, "d14": False}, (2, 4, 6)),
    ]
    for i in range(ntr):
        cfg, am = cfgs[i % len(cfgs)]
        traces.append(random_trace(rng, 40, cfg, am))
    validate_traces(chk, traces, site="random-program")

    # ---- T
    for name, exp, f in mcf:
        collect_mc(chk, name, f.result(), exp)
    ex.shutdown()

    # ---- canaries
    withstep = [t for t in traces if any(e["op"]["a"] == "step" and _recorded_now(e) for e in t["ev"])]
    accepted = [t for t in withstep if not t["hdr"]["waive"]]
    canary_trace(chk, (accepted or withstep)[0], clean=bool(accepted))
    canary_replay(chk, first, rng)
    # attribute realignment cell -> layer path (Cell.local_remap, Layer._realign_attribute: named in this property's
    # mechanism): the PathAlgebra specification, model-checked and replayed on real layers
    from . import c20 as _c20
    pa_pool = ThreadPoolExecutor(max_workers=1)
    _c20.paths_phase(chk, tier, pa_pool.submit(_c20.pa_start, tier))
    pa_pool.shutdown()
    subcheck.join(chk, mk)
    subcheck.join(chk, pt)
    return chk.finish()


def replay(path: str) -> int:
    """./check C15 --replay <path>: re-execute a recorded counterexample on the current tree."""
    import json
    data = json.loads(open(path).read())
    rep = data["replay"]
    if rep.get("extension") == "PoolTags":
        from . import pool_tags
        rc = pool_tags.replay(rep)
        if rc:
            print(f"VIOLATION property=C15 replay={path}")
        return rc
    if "init" not in rep:
        print(f"[C15] replay {path}: specification-level counterexample (TLC output kept in the file), "
              "nothing to execute on the code")
        return 0
    impl = LifecycleImpl(rep["init"])
    if "ops" in rep:                       # recorded trace: the last operation is the failing one
        pre, op = rep["ops"][:-1], rep["ops"][-1]
    else:
        pre, op = rep.get("path", []), rep.get("op")
    for o in pre:
        impl.apply(o)
    if op is None:                         # the path itself ended in an unexpected state
        got, want = impl.project(), rep.get("expected_state")
        ok = graph.canon(got) == graph.canon(want)
        print(f"[C15] replay {path}: state after path {'matches' if ok else 'DIFFERS from'} the specified state")
        if not ok:
            print(f"VIOLATION property=C15 replay={path}")
        return 0 if ok else 1
    ret = impl.apply(op)
    st = impl.project()
    exp = rep.get("expected") or []
    ok = any(graph.canon(o["ret"]) == graph.canon(ret) and graph.canon(o["st"]) == graph.canon(st) for o in exp)
    ok = ok and not _redirected(st)
    print(f"[C15] replay {path}: op={op} observed ret={ret} -> {'as specified' if ok else 'NOT an outcome of the specification'}")
    if not ok:
        print(f"VIOLATION property=C15 replay={path}")
    return 0 if ok else 1
