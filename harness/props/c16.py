"""C16 - State hooks fire exactly when armed and enforce clamping / normalisation.

T: TLC checks exhaustively (all hook kinds, placements, prepend, constructor flags, one or two
   hooks plus a foreign bystander hook on the same module, every operation in every reachable
   state) that the implementation-shaped model (ordered handle tables, weakly referenced hook
   objects, finaliser) behaves as the property says: a module call runs exactly the armed and
   mode-enabled hooks, once, in position; manual calls obey force / ignore_mode; registration
   rules; no handle survives deregistration or collection; clamp / norm post-conditions hold at
   every run on exact rational matrices.
A: TLC prints the outcome table of every state; every edge is executed on real Hook /
   ContextualHook / StateHook / Clamping / Normalization objects attached to a real LinearDense.
B: random long programs on real float32 tensors (several shapes, orders, scales, dims, bounds,
   three hooks) are recorded and validated by TLC against the trace specification.
"""
from __future__ import annotations
import copy, json, math, random
from concurrent.futures import ThreadPoolExecutor
from ..core import Check, MachineryFailure
from .. import tlc, graph, tracecheck
from ..impl_hooks import HooksImpl

PID = "C16"
PROBES = {"hook_pre", "hook_post", "hook_both", "hook_pre_p", "hook_post_p", "hook_both_p", "ctx_pre", "ctx_post",
          "ctx_both", "ctx_both_p", "state_pre", "state_post", "state_pre_p", "state_post_p"}
ALLFLAGS = {"TT", "TF", "FT", "FF"}
INVS = ["TypeOK", "Refinement", "NoDangling", "PostOK"]


def consts(nh, names, flags=("TT",), cf=False, xname="none", depth=100):
    return dict(NH=nh, CfgNames=set(names), InitFlags=set(flags), CountFired=cf, XName=xname, MaxDepth=depth)


def submit_mc(ex, configs, workers_each=2):
    def one(item):
        name, c = item
        cfg = tlc.cfg_text(constants=c, invariants=INVS, constraints=["Bounded"])
        return name, tlc.run("HooksMC", cfg, workers=workers_each, timeout=3000)
    return [ex.submit(one, item) for item in configs]


def collect_mc(chk: Check, futures):
    for f in futures:
        name, res = f.result()
        if res.violated:
            chk.violation({"clause": "MC:" + ",".join(res.violated), "site": "spec", "config": name},
                          {"config": name, "tlc_tail": res.out[-4000:]})
        elif not res.ok:
            raise MachineryFailure(f"TLC run {name} did not complete: {res.out[-2500:]}")
        chk.add_tlc("mc:" + name, res)
        chk.note(f"mc {name}: {res.distinct} states, {res.generated} transitions, depth {res.depth}, "
                 f"{res.wall:.1f}s, violated={res.violated}")


def run_gen(name, c):
    cfg = tlc.cfg_text(constants=c, invariants=["Emit"], constraints=["Bounded"])
    return tlc.run("HooksMC", cfg, workers=1, timeout=3000)


def gen_graph(chk: Check, name, c, res=None):
    res = res or run_gen(name, c)
    if not res.ok:
        raise MachineryFailure(f"TLC generation run {name} failed: {res.out[-2500:]}")
    lines = list(res.printed())
    g = graph.Graph.from_lines(lines)
    # with a depth bound TLC also evaluates Emit on the states one step beyond the bound (not counted as distinct)
    if len(g.states) < res.distinct or (c["MaxDepth"] >= 100 and len(g.states) != res.distinct):
        raise MachineryFailure(f"emitted graph {name} has {len(g.states)} states, TLC reports {res.distinct}")
    g.inits = []
    for rec in lines:
        if isinstance(rec, dict) and rec.get("init") and "s" in rec:
            k = graph.canon(rec["s"])
            if k not in g.inits:
                g.inits.append(k)
    if not g.inits:
        raise MachineryFailure(f"no initial state marked in emitted graph {name}")
    g.name = name
    chk.add_tlc("gen:" + name, res)
    return g


def _signature(sig, rep):
    """What fails, in the property's words (never hides a different failure)."""
    sig = dict(sig)
    obs = (rep.get("observed") or {}).get("ret") or {}
    exp = rep.get("expected") or []
    op = rep.get("op") or {}
    if obs.get("err"):
        sig["raised"] = obs["err"]
    if any(not e.get("ok", True) for e in obs.get("ev", [])):
        sig["clause"] = "PostCondition"
    elif obs.get("spur"):
        sig["clause"] = "SpuriousWrite"
    elif sig.get("clause") == "RetOK" and exp:
        want = [(e["h"], e["at"]) for e in exp[0]["ret"]["ev"]]
        got = [(e["h"], e["at"]) for e in obs.get("ev", [])]
        if sorted(want) != sorted(got):
            sig["clause"] = "Firing"
        elif want != got:
            sig["clause"] = "FiringOrder"
    st = rep.get("state") or {}
    if isinstance(op, dict) and "h" in op and st.get("hooks"):
        hk = st["hooks"][op["h"] - 1]
        sig["kind"] = hk["kind"]
        sig["was_registered"] = hk["reg"]
    return sig


def replay_graph(chk: Check, g, *, budget, rng, deviate=None, report=True, max_inits=None):
    inits = list(g.inits)
    if max_inits is not None and len(inits) > max_inits:
        inits = rng.sample(inits, max_inits)
    per = None if budget is None else max(50, budget // len(inits))
    total_edges, visited, mism = 0, set(), []
    for ik in inits:
        init = g.states[ik]
        make = lambda init=init: HooksImpl(init)
        got = graph.canon(make().project())
        if got != ik:
            raise MachineryFailure(f"initial implementation state differs from the specified one in {g.name}: "
                                   f"{got} vs {ik}")
        if ik in visited and not deviate:
            continue    # reached (and its whole reachable part replayed) from an earlier configuration

        def on_mismatch(sig, rep, init=init):
            rep = dict(rep, init=init, graph=g.name)
            sig = _signature(sig, rep)
            mism.append((sig, rep))
            if report:
                chk.violation(sig, rep)

        stats = graph.replay(g, ik, make, budget=per, rng=rng, on_mismatch=on_mismatch, deviate=deviate)
        total_edges += stats.edges
        visited |= stats.states_visited
        if report:
            for k, o in stats.pairs:
                chk.nontrivial.add((g.name, k, o))
        if deviate and mism:
            break
    if report:
        chk.evaluations += total_edges
        chk.extra["replayed_edges"] = chk.extra.get("replayed_edges", 0) + total_edges
        chk.extra["impl_states_visited"] = chk.extra.get("impl_states_visited", 0) + len(visited)
        chk.note(f"replay {g.name}: {total_edges} edges of {g.n_edges} from {len(inits)}/{len(g.inits)} initial "
                 f"configurations, {len(visited)}/{len(g.states)} states, mismatches={len(mism)}")
        chk.sample({"kind": "replayed-graph", "graph": g.name, "init": g.states[inits[0]]})
    return total_edges, mism


# ------------------------------------------------------------------ direction B
BASE = {"kind": "state", "hpre": False, "hpost": True, "prep": False, "haslo": False, "lo": 0, "hashi": False,
        "hi": 0, "p": 0, "sc": 0, "dm": "-", "alive": True, "reg": False, "te": True, "ee": True, "fired": 0}
ORDERS = [1, 2, "inf", 0.5, 1.5, 3, 4]
SCALES = [1.0, 2.0, -1.0, 0.5, -3.25, 10.0, 0.01]


def _rand_tensor(rng, shape, style):
    n = math.prod(shape)
    if style == "zero":
        return [0.0] * n
    if style == "int":
        return [float(rng.randint(-4, 4)) for _ in range(n)]
    if style == "zrow":
        v = [rng.uniform(-2, 2) for _ in range(n)]
        last = shape[-1]
        for j in range(last):
            v[j] = 0.0
        return v
    if style == "big":
        return [rng.uniform(-1e3, 1e3) for _ in range(n)]
    if style == "tiny":      # far above the default epsilon (1e-12), far below ordinary magnitudes
        return [rng.uniform(-2e-9, 2e-9) for _ in range(n)]
    return [rng.uniform(-2, 2) for _ in range(n)]


def random_trace(rng, steps):
    nh = rng.choice([1, 2, 3, 3])
    target = rng.choice(["dense", "dense", "plain", "nested", "deep"])
    shape = rng.choice([(2, 3), (1, 4), (3, 3), (4, 2)] if target == "dense" else [(2, 3), (5,), (2, 2, 3), (3, 1)])
    real = {"target": target, "shape": list(shape), "x0": _rand_tensor(rng, shape, "uniform"), "hooks": {}}
    hooks = []
    for i in range(1, nh + 1):
        kind = rng.choice(["hook", "ctx", "state", "clamp", "clamp", "norm", "norm"])
        h = dict(BASE, kind=kind, prep=rng.random() < 0.4, te=rng.random() < 0.7, ee=rng.random() < 0.7)
        if kind in ("hook", "ctx"):
            pl = rng.choice(["pre", "post", "both"])
            h["hpre"], h["hpost"] = pl in ("pre", "both"), pl in ("post", "both")
        else:
            pre = rng.random() < 0.5
            h["hpre"], h["hpost"] = pre, not pre
        if kind == "clamp":
            lo = rng.choice([None, -1.0, 0.0, 0.25, -0.5])
            hi = rng.choice([None, 1.0, 0.75, 2.0])
            if lo is None and hi is None:
                lo = 0.0
            if lo is not None and hi is not None and hi <= lo:
                hi = lo + 0.5
            real["hooks"][str(i)] = {"min": "None" if lo is None else lo, "max": "None" if hi is None else hi}
        if kind == "norm":
            nd = len(shape)
            dim = rng.choice([None, -1, 0] + ([tuple(range(nd))] if nd > 1 else []) + ([1] if nd > 1 else []))
            real["hooks"][str(i)] = {"order": rng.choice(ORDERS), "scale": rng.choice(SCALES),
                                     "dim": list(dim) if isinstance(dim, tuple) else ("None" if dim is None else dim),
                                     # the documented epsilon only guards zero-valued norms: a vector whose norm is
                                     # above it is normalised exactly, whatever its value
                                     "epsilon": rng.choice(["None", "None", 1e-3, 1e-4, 1e-12])}
        hooks.append(h)
    init = {"training": rng.random() < 0.7, "cf": True, "pre": [0], "post": [0], "hooks": hooks,
            "x": {"num": [], "den": 0, "r": 0, "c": 0}}
    impl = HooksImpl(init, real)
    st = impl.project()
    if graph.canon(st) != graph.canon(init):
        raise MachineryFailure(f"driver: initial projection differs from the header: {st} vs {init}")
    evs = []
    for _ in range(steps):
        alive = [i + 1 for i, h in enumerate(st["hooks"]) if h["alive"]]
        r = rng.random()
        if r < 0.30 or not alive:
            op = {"a": "call"}
        elif r < 0.40:
            op = {"a": "train", "b": rng.random() < 0.5}
        elif r < 0.50:
            style = rng.choice(["uniform", "uniform", "int", "zero", "zrow", "big", "tiny"])
            vals = _rand_tensor(rng, shape, style)
            ret = impl.apply({"a": "setx_real", "vals": vals})
            st = impl.project()
            evs.append({"op": {"a": "setx", "v": []}, "ret": ret, "st": st})
            continue
        else:
            h = rng.choice(alive)
            kind = st["hooks"][h - 1]["kind"]
            c = rng.random()
            if c < 0.30:
                op = {"a": "reg", "h": h}
            elif c < 0.45:
                op = {"a": "dereg", "h": h}
            elif c < 0.58:
                op = {"a": "set_te", "h": h, "b": rng.random() < 0.5}
            elif c < 0.70:
                op = {"a": "set_ee", "h": h, "b": rng.random() < 0.5}
            elif c < 0.75:
                op = {"a": "del", "h": h}
            elif kind in ("hook", "ctx"):
                op = {"a": "reg_bad", "h": h} if rng.random() < 0.3 else {"a": "reg", "h": h}
            else:
                op = {"a": "fire", "h": h, "force": rng.random() < 0.5, "ign": rng.random() < 0.5}
        ret = impl.apply(op)
        st = impl.project()
        evs.append({"op": op, "ret": ret, "st": st})
    return {"hdr": {"init": init, "cfg": real, "waive": []}, "ev": evs}


def _clause(ev, expected, diag):
    if diag is not None and diag.get("refok") is False:
        return "AbsOK"
    if not expected:
        return "Unexplained"
    cr, cs = graph.canon(ev["ret"]), graph.canon(ev["st"])
    if not any(graph.canon(o["ret"]) == cr for o in expected):
        return "RetOK"
    if not any(graph.canon(o["st"]) == cs for o in expected):
        return "StateOK"
    return "OutcomeOK"


def validate_traces(chk: Check, traces, site, report=True):
    stats, rej = tracecheck.validate("HooksTrace", traces, shards=6)
    if report:
        chk.traces += len(traces)
        chk.transitions += stats["generated"]
        chk.states += stats["distinct"]
        nev = 0
        for ti, t in enumerate(traces):
            for li, e in enumerate(t["ev"]):
                nev += 1
                if any(x["h"] > 0 for x in e["ret"]["ev"]):
                    chk.nontrivial.add(("trace", ti, li))
        chk.evaluations += nev
        chk.extra["trace_events"] = chk.extra.get("trace_events", 0) + nev
        chk.note(f"traces[{site}]: {len(traces)} traces, {nev} events, rejected lines={len(rej)}")
        chk.sample({"kind": "trace", "cfg": traces[0]["hdr"]["cfg"], "first_events": traces[0]["ev"][:3]})
        for r in rej:
            t = traces[r["trace"]]
            prev = t["ev"][r["line"] - 2]["st"] if r["line"] > 1 else t["hdr"]["init"]
            exp = (r["diag"] or {}).get("expected")
            rep = {"init": t["hdr"]["init"], "real": t["hdr"]["cfg"], "ops": [e["op"] for e in t["ev"][: r["line"]]],
                   "line": r["line"], "state": prev, "op": r["event"]["op"], "expected": exp,
                   "observed": {"ret": r["event"]["ret"], "st": r["event"]["st"]}}
            sig = _signature({"clause": _clause(r["event"], exp, r["diag"]), "op": r["event"]["op"].get("a"),
                              "site": site}, rep)
            chk.violation(sig, rep)
    return stats, rej


def canary_trace(chk: Check, trace, clean=True):
    """One corrupted observation must be rejected at that line, the untouched copy accepted."""
    good = copy.deepcopy(trace)
    good["hdr"]["waive"] = []
    bad = copy.deepcopy(good)
    line = None
    for i, e in enumerate(bad["ev"]):
        if e["op"]["a"] == "call":
            # pretend the first hook ran once more than it did
            e["ret"]["ev"] = e["ret"]["ev"] + [{"h": 1, "at": "post", "ok": True}]
            line = i + 1
            break
    if line is None:
        bad["ev"][0]["st"]["training"] = not bad["ev"][0]["st"]["training"]
        line = 1
    stats, rej = tracecheck.validate("HooksTrace", [good, bad], shards=1, max_waive_rounds=1)
    lines = {(r["trace"], r["line"]) for r in rej}
    if not clean:
        # the implementation already leaves the specification on this trace: only demand that the
        # corruption does not go unnoticed
        if not any(t == 1 and l <= line for t, l in lines):
            raise MachineryFailure(f"canary: corrupted trace not rejected by line {line}: {lines}")
    elif (1, line) not in lines or any(t == 0 for t, _ in lines):
        raise MachineryFailure(f"canary: expected rejection of the corrupted trace at line {line} only, got {lines}")
    chk.extra["canary_trace_rejected_at_line"] = line
    chk.note(f"canary: corrupted trace rejected at line {line}, intact copy accepted")


def canary_replay(chk: Check, g, rng):
    """A replay whose implementation 'forgets' one hook run must be reported."""
    def deviate(op, ret, st):
        if op.get("a") == "call" and any(e["h"] > 0 for e in ret["ev"]):
            ret = dict(ret, ev=[e for e in ret["ev"] if e["h"] == 0])
        return ret, st

    _, mism = replay_graph(chk, g, budget=400, rng=rng, deviate=deviate, report=False)
    if not mism:
        raise MachineryFailure("canary: a deviating replay (hook runs dropped) was not detected")
    chk.extra["canary_replay_detected"] = mism[0][0].get("clause")
    chk.note(f"canary: deviating replay detected ({mism[0][0].get('clause')})")


def complex_scale_probe(chk: Check):
    """`scale (float | complex)`: with a complex scale the normalised attribute is complex and its p-norm along the chosen
    dimensions equals |scale| (3+4j -> 5); zero vectors stay zero.  (The traces use real scales: a cast back to the
    attribute's real dtype is invisible there.)"""
    import torch
    from inferno.neural import Normalization
    n = 0
    for scale in (3 + 4j, 2j, -1.5 + 2j):
        for order in (1, 2, float("inf")):
            for dim in (-1, 0, None, (0, 1)):
                lin = torch.nn.Identity()              # the attribute is a buffer (a Parameter cannot change its dtype)
                w0 = torch.tensor([[1.0, -2.0, 0.5], [0.0, 0.0, 0.0], [3.0, 1.0, -1.0], [0.25, 0.5, 4.0]])
                if dim in (0, None, (0, 1)):
                    w0[1] = torch.tensor([0.5, -0.5, 2.0])
                lin.register_buffer("weight", w0)
                before = lin.weight.detach().clone()
                n += 1
                try:
                    h = Normalization(lin, "weight", order, scale, dim)
                    h.register()
                    lin(torch.zeros(1, 3))
                    x = lin.weight.detach()
                    dims = tuple(range(x.ndim)) if dim is None else dim
                    got = torch.linalg.vector_norm(x.to(torch.complex128), ord=order, dim=dims, keepdim=True).real
                    zero = (before == 0).all(dim=dims, keepdim=True)
                    ok = bool(torch.where(zero, (x == 0).all(dim=dims, keepdim=True), (got - abs(scale)).abs() <= 1e-5 * abs(scale)).all())
                    h.deregister()
                except Exception as ex:
                    chk.violation({"clause": "Raised", "site": "complex-scale", "exc": type(ex).__name__},
                                  {"scale": str(scale), "order": str(order), "dim": str(dim), "error": repr(ex)})
                    continue
                if not ok:
                    chk.violation({"clause": "NormEqualsScaleMagnitude", "site": "complex-scale"},
                                  {"scale": str(scale), "order": str(order), "dim": str(dim), "specified_norm": abs(scale),
                                   "observed_norms": [float(v) for v in got.reshape(-1).tolist()]})
    chk.evaluations += n
    chk.note(f"complex scales of the Normalization hook: {n} configurations, p-norm = |scale|")


def run(tier: str, seed: int) -> int:
    chk = Check(PID, tier, seed)
    rng = random.Random(seed)
    quick = tier == "quick"
    chk.extra["rule"] = ("MC: all (state, operation) pairs of the bounded hook model. A case is non-trivial and "
                         "distinct when it is a distinct (abstract state, operation) pair executed on real hook "
                         "objects, or a distinct recorded trace event in which at least one hook ran.")
    # ---- T
    mc = [
        ("life-1hook-allcfg-allflags", consts(1, PROBES, ALLFLAGS)),
        ("life-2hooks", consts(2, PROBES if not quick else
                               {"hook_both", "hook_pre_p", "ctx_post", "ctx_both_p", "state_pre", "state_post_p"})),
        ("life-counted-d%d" % (6 if quick else 8), consts(1, PROBES, {"TT", "FT"}, cf=True, depth=6 if quick else 8)),
        ("val-clamp", consts(1, {"clamp_a", "clamp_lo", "clamp_hi_p"}, xname="int")),
        ("val-norm-1-inf", consts(1, {"norm_1row", "norm_1all_p", "norm_infcol", "norm_infrow"}, xname="int")),
        ("val-norm-2row", consts(1, {"norm_2row"}, xname="pythrow")),
        ("val-norm-2all", consts(1, {"norm_2all"}, xname="pythall")),
        ("val-mixed-2hooks", consts(2, {"clamp_a", "norm_1row", "norm_infcol"} if quick else
                                    {"clamp_a", "clamp_lo", "norm_1row", "norm_infcol", "norm_1all_p", "state_pre"},
                                    xname="int", depth=3 if quick else 6)),
    ]
    if not quick:
        mc.append(("life-2hooks-counted-d6", consts(2, {"hook_both", "ctx_pre", "state_post", "state_pre_p"},
                                                    {"TT", "TF"}, cf=True, depth=6)))
    ex = ThreadPoolExecutor(max_workers=5)

    # ---- A
    gens = [
        ("g-life-1hook", consts(1, PROBES, {"TT", "TF", "FT"}), None),
        ("g-life-2hooks", consts(2, {"hook_both", "ctx_pre", "state_post_p"} if quick else
                                 {"hook_both", "hook_pre_p", "ctx_post", "state_pre", "state_post_p"}),
         9000 if quick else None),
        ("g-counted", consts(1, {"hook_both", "ctx_post", "state_pre"}, {"TT"}, cf=True, depth=4 if quick else 6),
         4000 if quick else None),
        ("g-val-1", consts(1, {"clamp_a", "clamp_lo", "clamp_hi_p", "norm_1row", "norm_1all_p", "norm_infcol",
                               "norm_infrow"}, xname="int", depth=4 if quick else 6), 8000 if quick else None),
        ("g-val-2row", consts(1, {"norm_2row"}, xname="pythrow", depth=4 if quick else 6), 2000 if quick else None),
        ("g-val-2all", consts(1, {"norm_2all"}, xname="pythall", depth=4 if quick else 6), 2000 if quick else None),
        ("g-val-mixed", consts(2, {"clamp_a", "norm_1row"} if quick else {"clamp_a", "norm_1row", "norm_infcol"},
                               xname="int", depth=3 if quick else 4), 6000 if quick else 60000),
    ]
    genf = [ex.submit(run_gen, name, c) for name, c, _ in gens]     # first: the replays wait for them
    mcf = submit_mc(ex, mc)
    first = None
    for (name, c, budget), f in zip(gens, genf):
        g = gen_graph(chk, name, c, f.result())
        first = first or g
        replay_graph(chk, g, budget=budget, rng=rng)
    collect_mc(chk, mcf)
    ex.shutdown()

    # ---- B
    ntr = 200 if quick else 3000
    traces = [random_trace(rng, 40) for _ in range(ntr)]
    validate_traces(chk, traces, site="random-program")

    # ---- canaries
    withcall = [t for t in traces if any(e["op"]["a"] == "call" for e in t["ev"])]
    accepted = [t for t in withcall if not t["hdr"]["waive"]]
    canary_trace(chk, (accepted or withcall)[0], clean=bool(accepted))
    canary_replay(chk, first, rng)
    complex_scale_probe(chk)
    return chk.finish()


def replay(path: str) -> int:
    """./check C16 --replay <path>: re-execute a recorded counterexample on the current tree."""
    import json
    data = json.loads(open(path).read())
    rep = data["replay"]
    if "init" not in rep:
        print(f"[C16] replay {path}: specification-level counterexample (TLC output kept in the file), "
              "nothing to execute on the code")
        return 0
    impl = HooksImpl(rep["init"], rep.get("real"))
    if "ops" in rep:                       # recorded trace: the last operation is the failing one
        pre, op = rep["ops"][:-1], rep["ops"][-1]
    else:
        pre, op = rep.get("path", []), rep.get("op")
    for o in pre:
        impl.apply(o)
    if op is None:                         # the path itself ended in an unexpected state
        got, want = impl.project(), rep.get("expected_state")
        ok = graph.canon(got) == graph.canon(want)
        print(f"[C16] replay {path}: state after path {'matches' if ok else 'DIFFERS from'} the specified state")
        if not ok:
            print(f"VIOLATION property=C16 replay={path}")
        return 0 if ok else 1
    ret = impl.apply(op)
    st = impl.project()
    exp = rep.get("expected") or []
    ok = any(graph.canon(o["ret"]) == graph.canon(ret) and graph.canon(o["st"]) == graph.canon(st) for o in exp)
    pass
    print(f"[C16] replay {path}: op={op} observed ret={ret} -> {'as specified' if ok else 'NOT an outcome of the specification'}")
    if not ok:
        print(f"VIOLATION property=C16 replay={path}")
    return 0 if ok else 1
