"""C17 - Layers wire components as documented; clear() restores the initial state.

T: TLC explores LayerWiringMC exhaustively: every topology (Serial, Biclique with 1..3
   connections x 1..2 neuron groups x six combine modes, RecurrentSerial; transforms
   configured or defaulted), every input/clear/learn sequence within the bounds; at every
   reachable state and for every applicable operation the stepwise mechanism (Mech) returns
   what the documented dataflow derives from the history since the last clear (Abs), clear
   succeeds and yields the state of a freshly built layer carrying the learned parameters
   and adaptations, and replaying the history after clear reproduces the outputs.
A: TLC prints the outcome table of every state; the edges are executed on REAL
   Serial / Biclique / RecurrentSerial objects assembled from probe components (minimal
   subclasses of the inferno base classes implementing the probe algebra and recording
   what they are handed); outputs, captured intermediates, recorded neuron / connection
   inputs, shapes and the projected component state are compared after every call.
B: (i) random longer programs on probe layers (3 connections, partial inputs) are recorded
   and validated by TLC against LayerWiringTrace; (ii) layers of real components
   (LIF/ALIF x four synapses x dense/direct/conv, delays, in-place or not) are run, cleared
   at every position j and replayed next to a freshly built twin carrying the same
   parameters and adaptations; TLC validates the recorded protocol (LayerClearTrace).
"""
from __future__ import annotations
import copy, json, random
from ..core import Check, MachineryFailure
from .. import tlc, graph, tracecheck
from ..impl_layerwiring import LayerImpl
from . import c17_real

PID = "C17"
ALL_COMBS = {"sum", "mean", "prod", "min", "max", "custom"}
INVS = ["TypeOK", "Refinement", "ClearSucceeds", "ReplayAfterClear"]


def consts(kinds, ncs=(1, 2), nns=(1, 2), combs=ALL_COMBS, trs=(True, False), toks=(1, 2), partial=False,
           maxsteps=2, wmax=1, iter_="values", depth=6):
    return dict(Kinds=set(kinds), NCs=set(ncs), NNs=set(nns), Combs=set(combs), Trs=set(trs), Toks=set(toks),
                Partial=partial, MaxSteps=maxsteps, WMax=wmax, ClearIter=iter_, MaxDepth=depth)


def run_mc(chk, name, c, workers=4, expect_violation=None):
    cfg = tlc.cfg_text(constants=c, invariants=INVS, constraints=["Bounded"])
    res = tlc.run("LayerWiringMC", cfg, workers=workers, timeout=3000)
    if expect_violation is not None:
        if not res.violated:
            raise MachineryFailure(f"mutant specification {name} was not rejected by TLC: {res.out[-1500:]}")
        chk.note(f"mc {name}: mutant rejected by TLC, violated={res.violated}")
        return res
    if res.violated:
        chk.violation({"clause": "MC:" + ",".join(res.violated), "site": "spec", "config": name},
                      {"config": name, "tlc_tail": res.out[-4000:]})
    elif not res.ok:
        raise MachineryFailure(f"TLC run {name} did not complete: {res.out[-2000:]}")
    chk.add_tlc("mc:" + name, res)
    chk.note(f"mc {name}: {res.distinct} states, {res.generated} transitions, depth {res.depth}, {res.wall:.1f}s, "
             f"violated={res.violated}")
    return res


def gen_graph(chk, name, c):
    cfg = tlc.cfg_text(constants=c, invariants=["Emit"], constraints=["Bounded"])
    res = tlc.run("LayerWiringMC", cfg, workers=1, timeout=3000)
    if not res.ok:
        raise MachineryFailure(f"TLC generation run {name} failed: {res.out[-2000:]}")
    g = graph.Graph.from_lines(res.printed())
    # states just beyond the depth bound are printed too (TLC evaluates invariants before constraints)
    if len(g.states) < res.distinct:
        raise MachineryFailure(f"emitted graph {name} has {len(g.states)} states, TLC reports {res.distinct}")
    chk.add_tlc("gen:" + name, res)
    g.name = name
    return g


def cfgs_of(c):
    out = []
    for t in sorted(c["Trs"]):
        if "serial" in c["Kinds"]:
            out.append(dict(kind="serial", nc=1, nn=1, comb="none", tr=t))
        if "recurrent" in c["Kinds"]:
            out.append(dict(kind="recurrent", nc=3, nn=2, comb="none", tr=t))
        if "biclique" in c["Kinds"]:
            for nc in sorted(c["NCs"]):
                for nn in sorted(c["NNs"]):
                    for m in sorted(c["Combs"]):
                        out.append(dict(kind="biclique", nc=nc, nn=nn, comb=m, tr=t))
    return out


def _detail(rep):
    """What differs between expectation and observation (used in signatures)."""
    exp = rep.get("expected") or []
    obs = rep.get("observed") or {}
    d = {}
    if exp:
        e = exp[0]
        oret, eret = obs.get("ret", {}), e.get("ret", {})
        if oret.get("t") == "err":
            d["raised"] = oret.get("e")
        elif eret.get("t") == "out" and oret.get("t") == "out":
            fields = [f for f in ("y", "nin", "cin", "cout") if oret.get(f) != eret.get(f)]
            d["fields"] = ",".join(fields)
            if any(-777 in (oret.get(f) or []) for f in fields):
                d["shape_or_uniformity"] = True
    return d


def replay_all(chk, g, c, rng, budget_per_cfg, deviate=None, report=True):
    total_edges, mism_all = 0, []
    for cfg in cfgs_of(c):
        make = lambda cfg=cfg: LayerImpl(cfg)  # noqa: E731
        init_key = graph.canon(make().project())
        if init_key not in g.states:
            raise MachineryFailure(f"initial implementation state not in emitted graph {g.name}: {init_key}")
        mism = []

        def on_mismatch(sig, rep, cfg=cfg, mism=mism):
            sig = dict(sig, kind=cfg["kind"], comb=cfg["comb"])
            sig.update(_detail(rep))
            rep = dict(rep, cfg=cfg, graph=g.name)
            mism.append((sig, rep))
            if report:
                chk.violation(sig, rep)

        stats = graph.replay(g, init_key, make, budget=budget_per_cfg, rng=rng, on_mismatch=on_mismatch,
                             deviate=deviate, max_mismatch=12)
        total_edges += stats.edges
        mism_all += mism
        if report:
            chk.evaluations += stats.edges
            for k, o in stats.pairs:
                chk.nontrivial.add((k, o))
            chk.extra["replayed_edges"] = chk.extra.get("replayed_edges", 0) + stats.edges
            chk.extra["impl_states_visited"] = chk.extra.get("impl_states_visited", 0) + len(stats.states_visited)
            if stats.pairs and cfg["kind"] != "serial":
                k, o = sorted(stats.pairs)[len(stats.pairs) // 2]
                chk.sample({"kind": "replayed-edge", "state": json.loads(k), "op": json.loads(o)})
    if report:
        chk.note(f"replay {g.name}: {total_edges} edges over {len(cfgs_of(c))} topologies "
                 f"(graph: {len(g.states)} states, {g.n_edges} edges), mismatches={len(mism_all)}")
    return total_edges, mism_all


# ---------------------------------------------------------------------- direction B (probe layers)
def random_probe_traces(rng, count, steps):
    traces = []
    for _ in range(count):
        kind = rng.choice(["serial", "biclique", "biclique", "biclique", "recurrent"])
        if kind == "biclique":
            cfg = dict(kind=kind, nc=rng.randint(1, 3), nn=rng.randint(1, 2), comb=rng.choice(sorted(ALL_COMBS)),
                       tr=rng.random() < 0.6)
        else:
            cfg = dict(kind=kind, nc=3 if kind == "recurrent" else 1, nn=2 if kind == "recurrent" else 1,
                       comb="none", tr=rng.random() < 0.6)
        impl = LayerImpl(cfg)
        init = impl.project()
        evs = []
        since = 0
        for _ in range(steps):
            r = rng.random()
            if since >= 3 or r < 0.2:
                op = {"a": "clear"}
            elif r < 0.3 and impl._w() < 3:
                op = {"a": "learn"}
            else:
                n = cfg["nc"] if kind == "biclique" else 1
                while True:
                    x = [rng.choice([0, 1, 2, 3]) if (kind == "biclique" and n > 1) else rng.choice([1, 2, 3])
                         for _ in range(n)]
                    if any(x):
                        break
                op = {"a": "step", "x": x}
            ret = impl.apply(op)
            if op["a"] == "step":
                since += 1
            elif op["a"] == "clear" and ret.get("t") == "ok":
                since = 0
            evs.append({"op": op, "ret": ret, "st": impl.project()})
        traces.append({"hdr": {"init": init, "cfg": cfg, "waive": []}, "ev": evs})
    return traces


def _clause(ev, expected):
    if not expected:
        return "Unexplained"
    cr, cs = graph.canon(ev["ret"]), graph.canon(ev["st"])
    if not any(graph.canon(o["ret"]) == cr for o in expected):
        return "RetOK"
    if not any(graph.canon(o["st"]) == cs for o in expected):
        return "StateOK"
    return "OutcomeOK"


def validate_probe_traces(chk, traces, site, report=True):
    # only the first rejection of a trace is examined: after a divergence the logged states
    # need not stay within the integer range of the probe algebra
    stats, rej = tracecheck.validate("LayerWiringTrace", traces, shards=4, max_waive_rounds=1)
    if report:
        chk.traces += len(traces)
        chk.transitions += stats["generated"]
        chk.states += stats["distinct"]
        nev = sum(len(t["ev"]) for t in traces)
        chk.evaluations += nev
        for ti, t in enumerate(traces):
            for i, e in enumerate(t["ev"]):
                chk.nontrivial.add(("ptrace", ti, i))
        chk.extra["probe_trace_events"] = nev
        chk.note(f"traces[{site}]: {len(traces)} traces, {nev} events, rejected lines={len(rej)}")
        chk.sample({"kind": "probe-trace", "cfg": traces[0]["hdr"]["cfg"], "first_events": traces[0]["ev"][:2]})
        for r in rej:
            t = traces[r["trace"]]
            exp = (r["diag"] or {}).get("expected")
            cfg = t["hdr"]["cfg"]
            rep = {"cfg": cfg, "ops": [e["op"] for e in t["ev"][: r["line"]]], "line": r["line"],
                   "op": r["event"]["op"], "expected": exp,
                   "observed": {"ret": r["event"]["ret"], "st": r["event"]["st"]}}
            sig = {"clause": _clause(r["event"], exp), "op": r["event"]["op"].get("a"), "site": site,
                   "kind": cfg["kind"], "comb": cfg["comb"]}
            sig.update(_detail(rep))
            chk.violation(sig, rep)
    return stats, rej


def canary_probe_trace(chk, traces):
    """A recorded execution with one corrupted neuron input must be rejected at that line."""
    src = next((t for t in traces if any(e["ret"].get("t") == "out" for e in t["ev"])), None)
    if src is None:
        raise MachineryFailure("canary: no trace with a step event")
    good = copy.deepcopy(src)
    good["hdr"]["waive"] = []
    bad = copy.deepcopy(good)
    line = next(i for i, e in enumerate(bad["ev"]) if e["ret"].get("t") == "out") + 1
    bad["ev"][line - 1]["ret"]["nin"][0] += 1
    _, rej = tracecheck.validate("LayerWiringTrace", [good, bad], shards=1, max_waive_rounds=1)
    lines = {(r["trace"], r["line"]) for r in rej}
    if (1, line) not in lines:
        raise MachineryFailure(f"canary: corrupted probe trace accepted (expected rejection at line {line}, got {lines})")
    chk.note(f"canary: corrupted probe trace rejected at line {line}")


def run(tier: str, seed: int) -> int:
    chk = Check(PID, tier, seed)
    rng = random.Random(seed)
    chk.extra["rule"] = ("MC: all (state, operation) pairs of the bounded layer model over all topologies; replay: one "
                         "execution per sampled edge of the emitted graph on real layer objects with probe components; "
                         "traces: recorded programs on probe layers and clear-at-every-position protocols on layers of "
                         "real components. A case is distinct and non-trivial when it is a distinct (abstract state, "
                         "operation) pair executed on a real layer, a distinct accepted trace event, or a distinct "
                         "(real configuration, clear position) pair.")
    thorough = tier == "thorough"
    # end-to-end composition of two layers, a trainer and the updaters (NetworkCore), in a process of its own
    from .. import subcheck
    net = subcheck.spawn(PID, "harness.props.network", "phase", tier, seed + 1, "network")
    # ---- T: exhaustive
    if thorough:
        mcs = [("flat-3x2", consts({"serial", "biclique"}, ncs=(1, 2, 3), maxsteps=3, depth=7, partial=False)),
               ("flat-partial", consts({"biclique"}, ncs=(2, 3), nns=(1, 2), maxsteps=2, depth=6, partial=True, trs=(True,))),
               ("recurrent", consts({"recurrent"}, maxsteps=3, toks=(1, 2, 3), depth=9, wmax=1))]
    else:
        mcs = [("flat-2x2", consts({"serial", "biclique"}, ncs=(1, 2), maxsteps=2, depth=6)),
               ("flat-3x2-partial", consts({"biclique"}, ncs=(3,), nns=(2,), maxsteps=2, depth=3, partial=True, trs=(True,))),
               ("recurrent", consts({"recurrent"}, maxsteps=3, depth=7))]
    for name, c in mcs:
        run_mc(chk, name, c)
    # the loop of Layer.clear as literally written (iterating a ModuleDict yields its keys) is a
    # design that TLC rejects: keeps the invariants honest in every run
    run_mc(chk, "mutant-clear-iterates-keys", consts({"serial"}, iter_="keys", depth=3), expect_violation=True)

    # ---- A: emitted graph replayed on real layers built from probe components
    if thorough:
        gens = [("g-flat", consts({"serial", "biclique"}, ncs=(1, 2, 3), maxsteps=2, depth=5), None),
                ("g-rec", consts({"recurrent"}, maxsteps=3, toks=(1, 2), depth=7), None),
                ("g-partial", consts({"biclique"}, ncs=(3,), nns=(2,), maxsteps=2, depth=4, partial=True, trs=(True,),
                                     combs={"sum", "mean", "custom", "min"}), None)]
    else:
        gens = [("g-flat", consts({"serial", "biclique"}, ncs=(1, 2), maxsteps=2, depth=4), 100),
                ("g-rec", consts({"recurrent"}, maxsteps=3, depth=6), 400)]
    first = None
    for name, c, budget in gens:
        g = gen_graph(chk, name, c)
        replay_all(chk, g, c, rng, budget)
        first = first or (g, c)

    # canary A: a replay whose observations deviate must be reported
    def deviate(op, ret, st):
        if ret.get("t") == "out":
            ret = dict(ret, y=[v + 1 for v in ret["y"]])
        return ret, st
    g, c = first
    cc = dict(c, Kinds={"serial"})
    n, mism = replay_all(chk, g, cc, rng, 40, deviate=deviate, report=False)
    if not any(s.get("clause") == "RetOK" and s.get("op") == "step" for s, _ in mism):
        raise MachineryFailure("canary: a deviating replay was not reported")
    chk.note(f"canary: deviating replay reported ({len(mism)} mismatches on {n} edges)")

    # ---- B(i): recorded programs on probe layers
    traces = random_probe_traces(rng, 60 if not thorough else 600, steps=12)
    validate_probe_traces(chk, traces, site="probe-programs")
    canary_probe_trace(chk, traces)

    # ---- B(ii): real components, clear at every position
    c17_real.run_real(chk, rng, thorough)
    # the component registries (add / del / get, listings, named accessors of the shipped topologies)
    from .layer_registry import run_layer_registry
    run_layer_registry(chk, rng, thorough)
    subcheck.join(chk, net)
    return chk.finish()


def replay(path: str) -> int:
    """Re-execute a stored counterexample against the current tree."""
    doc = json.loads(open(path).read())
    rep = doc["replay"]
    if "real" in rep:
        return c17_real.replay_real(rep)
    impl = LayerImpl(rep["cfg"])
    ops = rep.get("ops") or (rep.get("path", []) + ([rep["op"]] if "op" in rep else []))
    ret = None
    for op in ops:
        ret = impl.apply(op)
    obs = {"ret": ret, "st": impl.project()}
    exp = rep.get("expected") or []
    ok = any(graph.canon(o["ret"]) == graph.canon(obs["ret"]) and graph.canon(o["st"]) == graph.canon(obs["st"])
             for o in exp)
    print(json.dumps({"observed": obs, "expected": exp, "matches": ok}, indent=1))
    if not ok:
        print(f"VIOLATION property={PID} replay={path}")
    return 0 if ok else 1
