"""C17 direction B on layers of real inferno components: build; step^j; [learn]; clear;
step^T next to a reference run and a freshly built twin; the recorded protocol is validated
by TLC against spec/LayerClearTrace.tla."""
from __future__ import annotations
import copy, itertools, json, random
from ..core import Check, MachineryFailure, setup_repo_path
from .. import tracecheck

setup_repo_path()
import torch  # noqa: E402
from inferno.neural import (LIF, ALIF, DeltaCurrent, DeltaPlusCurrent, SingleExponentialCurrent,  # noqa: E402
                            DoubleExponentialCurrent, LinearDense, LinearDirect, Conv2D, Serial, Biclique,
                            RecurrentSerial)

torch.set_num_threads(1)
DT = 1.0
LAYERS = ("serial", "biclique", "recurrent")
CONNS = ("dense", "direct", "conv")
SYNS = ("delta", "deltaplus", "single", "double")
NEURONS = ("lif", "alif")
COMBS = ("sum", "mean", "prod", "min", "max", "custom")


def all_configs():
    for layer, conn, syn, neuron, delayed, inplace in itertools.product(LAYERS, CONNS, SYNS, NEURONS, (False, True),
                                                                        (False, True)):
        yield dict(layer=layer, conn=conn, syn=syn, neuron=neuron, delayed=delayed, inplace=inplace)


def _syn(cfg):
    ip = cfg["inplace"]
    q = 400.0
    return {"delta": lambda: DeltaCurrent.partialconstructor(q, inplace=ip),
            "deltaplus": lambda: DeltaPlusCurrent.partialconstructor(q, inplace=ip),
            "single": lambda: SingleExponentialCurrent.partialconstructor(q * 4, 4.0, inplace=ip),
            "double": lambda: DoubleExponentialCurrent.partialconstructor(q * 4, 6.0, 2.0, inplace=ip)}[cfg["syn"]]()


def _neuron(cfg, shape, B):
    if cfg["neuron"] == "lif":
        return LIF(shape, DT, rest_v=-60.0, reset_v=-65.0, thresh_v=-50.0, refrac_t=2.0, time_constant=20.0,
                   batch_size=B)
    return ALIF(shape, DT, rest_v=-60.0, reset_v=-65.0, thresh_eq_v=-50.0, refrac_t=2.0, tc_membrane=20.0,
                tc_adaptation=(30.0, 9.0), spike_increment=(2.0, 0.5), batch_size=B)


def _conn(kind, cfg, inshape, outshape, B, gen):
    delay = 3.0 if cfg["delayed"] else None
    kw = dict(synapse=_syn(cfg), bias=True, delay=delay, batch_size=B,
              weight_init=lambda w: torch.rand(w.shape, generator=gen),
              bias_init=lambda b: torch.rand(b.shape, generator=gen) * 0.1,
              delay_init=lambda d: torch.rand(d.shape, generator=gen) * 3.0)
    if kind == "dense":
        return LinearDense(inshape, outshape, DT, **kw)
    if kind == "direct":
        return LinearDirect(outshape, DT, **kw)
    if kind == "conv":
        return Conv2D(4, 4, 1, 2, DT, 2, **kw)
    raise KeyError(kind)


class Real:
    """A layer of real components built deterministically from (cfg, seed)."""

    def __init__(self, cfg, seed):
        self.cfg = cfg
        gen = torch.Generator().manual_seed(seed)
        B = self.B = 2
        kind = cfg["conn"]
        out = (2, 3, 3) if kind == "conv" else (3,)
        first_in = {"dense": (4,), "direct": out, "conv": (1, 4, 4)}[kind]
        if cfg["layer"] == "serial":
            self.conns = [_conn(kind, cfg, first_in, out, B, gen)]
            self.neurs = [_neuron(cfg, out, B)]
            self.layer = Serial(self.conns[0], self.neurs[0])
            self.inshapes = [first_in]
        elif cfg["layer"] == "biclique":
            self.conns = [_conn(kind, cfg, first_in, out, B, gen), _conn("dense", cfg, (5,), out, B, gen)]
            self.neurs = [_neuron(cfg, out, B), _neuron(cfg, out, B)]
            comb = cfg.get("comb", "sum")
            if comb == "custom":
                comb = lambda d, **kw: d["a"] + 0.5 * d["b"]  # noqa: E731
            self.layer = Biclique([("a", self.conns[0]), ("b", self.conns[1])],
                                  [("p", self.neurs[0]), ("q", self.neurs[1])], combine=comb)
            self.inshapes = [first_in, (5,)]
        else:
            s2 = (2,)
            self.conns = [_conn(kind, cfg, first_in, out, B, gen), _conn("dense", cfg, out, s2, B, gen),
                          _conn("dense", cfg, s2, out, B, gen)]
            self.neurs = [_neuron(cfg, out, B), _neuron(cfg, s2, B)]
            self.layer = RecurrentSerial(self.conns[0], self.conns[1], self.conns[2], self.neurs[0], self.neurs[1])
            self.inshapes = [first_in]

    def step(self, xs):
        if self.cfg["layer"] == "biclique":
            out = self.layer({"a": (xs[0],), "b": (xs[1],)})
            return [out["p"], out["q"]]
        out = self.layer(xs[0])
        return list(out) if isinstance(out, tuple) else [out]

    def shapes_ok(self, ys):
        return all(tuple(y.shape) == tuple(n.batchedshape) for y, n in zip(ys, self.neurs))

    # observation through the public API
    def dyn(self):
        d = {}
        for i, n in enumerate(self.neurs):
            d[f"n{i}.voltage"], d[f"n{i}.refrac"], d[f"n{i}.spike"] = n.voltage, n.refrac, n.spike
        for i, c in enumerate(self.conns):
            d[f"c{i}.synapse.current"], d[f"c{i}.synapse.spike"] = c.synapse.current, c.synapse.spike
            d[f"c{i}.syncurrent"], d[f"c{i}.synspike"] = c.syncurrent, c.synspike
        if self.cfg["layer"] == "recurrent":
            d["feedback_spikes"] = self.layer.feedback_spikes
        return d

    def par(self):
        d = {}
        for i, c in enumerate(self.conns):
            d[f"c{i}.weight"], d[f"c{i}.bias"], d[f"c{i}.delay"] = c.weight, c.bias, c.delay
        return d

    def ad(self):
        return {f"n{i}.threshold_adaptation": n.threshold_adaptation for i, n in enumerate(self.neurs)
                if hasattr(n, "threshold_adaptation")}

    def learn(self):
        for c in self.conns:
            c.weight = c.weight.data * 0.75 + 0.125
            c.bias = c.bias.data + 0.0625
            if c.delay is not None:
                c.delay = c.delay.data * 0.5

    def adopt(self, other: "Real"):
        """Give this (fresh) layer the learned parameters and adaptations of `other`."""
        for c, o in zip(self.conns, other.conns):
            c.weight = o.weight.data.clone()
            c.bias = o.bias.data.clone()
            if o.delay is not None:
                c.delay = o.delay.data.clone()
        for n, o in zip(self.neurs, other.neurs):
            if hasattr(o, "threshold_adaptation"):
                n.threshold_adaptation = o.threshold_adaptation.clone()


class Interner:
    def __init__(self):
        self.tab = {}

    def tok(self, d: dict) -> int:
        key = tuple((k, None if v is None else (str(v.dtype), tuple(v.shape), v.detach().contiguous().numpy().tobytes()))
                    for k, v in sorted(d.items()))
        return self.tab.setdefault(key, len(self.tab) + 1)


def differing(a: dict, b: dict):
    out = []
    for k in sorted(set(a) | set(b)):
        x, y = a.get(k), b.get(k)
        if (x is None) != (y is None) or (x is not None and (x.shape != y.shape or x.dtype != y.dtype
                                                             or not torch.equal(x, y))):
            out.append(k)
    return out


def make_inputs(real: Real, seed, T):
    gen = torch.Generator().manual_seed(seed * 7919 + 13)
    return [[(torch.rand((real.B, *s), generator=gen) < 0.5).float() for s in real.inshapes] for _ in range(T)]


def protocol(cfg, seed, j, T, learn):
    """One recorded protocol: reference run; build; j steps; [learn]; clear; T steps next to a twin."""
    it = Interner()
    ref_l = Real(cfg, seed)
    xs = make_inputs(ref_l, seed, T)
    d0 = it.tok(ref_l.dyn())
    ref, spikes = [], 0
    for t in range(T):
        ys = ref_l.step(xs[t])
        spikes += int(sum(int(y.sum()) for y in ys))
        ref.append({"i": t + 1, "y": it.tok({str(k): y for k, y in enumerate(ys)}), "d": it.tok(ref_l.dyn())})
    L = Real(cfg, seed)
    literal = cfg["neuron"] == "lif" and not learn
    hdr = {"init": {"n": 0, "cleared": False, "par": it.tok(L.par()), "ad": it.tok(L.ad())},
           "cfg": dict(cfg, seed=seed, j=j, T=T, learn=learn), "literal": literal, "ref": ref, "d0": d0, "waive": []}
    evs, detail = [], []
    for t in range(j):
        ys = L.step(xs[t])
        evs.append({"op": {"a": "step", "i": t + 1},
                    "ret": {"t": "out", "shape": L.shapes_ok(ys), "y": it.tok({str(k): y for k, y in enumerate(ys)}),
                            "d": it.tok(L.dyn()), "ty": -1, "td": -1, "ad": it.tok(L.ad()), "tad": -1}})
        detail.append({})
    if learn:
        L.learn()
        evs.append({"op": {"a": "learn"}, "ret": {"par": it.tok(L.par())}})
        detail.append({})
    par0, ad0 = {k: (None if v is None else v.detach().clone()) for k, v in L.par().items()}, \
                {k: v.detach().clone() for k, v in L.ad().items()}
    try:
        L.layer.clear()
    except Exception as e:
        evs.append({"op": {"a": "clear"}, "ret": {"t": "err", "e": type(e).__name__}})
        detail.append({"raised": type(e).__name__})
        return {"hdr": hdr, "ev": evs}, detail, spikes
    twin = Real(cfg, seed)
    twin.adopt(L)
    evs.append({"op": {"a": "clear"},
                "ret": {"t": "ok", "d": it.tok(L.dyn()), "td": it.tok(twin.dyn()), "par": it.tok(L.par()),
                        "ad": it.tok(L.ad())}})
    detail.append({"dyn_fields": differing(L.dyn(), twin.dyn()), "par_fields": differing(L.par(), par0),
                   "ad_fields": differing(L.ad(), ad0)})
    for t in range(T):
        ys, tys = L.step(xs[t]), twin.step(xs[t])
        evs.append({"op": {"a": "step", "i": t + 1},
                    "ret": {"t": "out", "shape": L.shapes_ok(ys), "y": it.tok({str(k): y for k, y in enumerate(ys)}),
                            "d": it.tok(L.dyn()), "ty": it.tok({str(k): y for k, y in enumerate(tys)}),
                            "td": it.tok(twin.dyn()), "ad": it.tok(L.ad()), "tad": it.tok(twin.ad())}})
        detail.append({"dyn_fields": differing(L.dyn(), twin.dyn()),
                       "out_shapes": [list(y.shape) for y in ys],
                       "expected_shapes": [list(n.batchedshape) for n in twin.neurs]})
    return {"hdr": hdr, "ev": evs}, detail, spikes


def choose_configs(rng, thorough):
    cfgs = list(all_configs())
    if not thorough:
        # every layer x connection x synapse x neuron value appears; pairs are sampled
        rng.shuffle(cfgs)
        seen, out = set(), []
        for c in cfgs:
            feats = {("l", c["layer"], c["conn"]), ("s", c["syn"], c["delayed"]), ("n", c["neuron"], c["layer"]),
                     ("i", c["inplace"], c["syn"]), ("ls", c["layer"], c["syn"])}
            if not feats <= seen:
                seen |= feats
                out.append(c)
        cfgs = out
    for c in cfgs:
        if c["layer"] == "biclique":
            c["comb"] = rng.choice(COMBS)
    return cfgs


def validate(chk: Check, traces, details, site, report=True):
    stats, rej = tracecheck.validate("LayerClearTrace", traces, shards=4)
    if report:
        chk.traces += len(traces)
        chk.transitions += stats["generated"]
        chk.states += stats["distinct"]
        chk.evaluations += sum(len(t["ev"]) for t in traces)
        chk.note(f"traces[{site}]: {len(traces)} protocols, {sum(len(t['ev']) for t in traces)} events, "
                 f"rejected lines={len(rej)}")
        for r in rej:
            t = traces[r["trace"]]
            cfg = t["hdr"]["cfg"]
            det = details[r["trace"]][r["line"] - 1] if details else {}
            for clause in sorted((r["diag"] or {}).get("clauses", ["Unexplained"])):
                sig = {"clause": clause, "op": r["event"]["op"]["a"], "site": site, "layer": cfg["layer"]}
                if clause == "ClearOK":
                    sig["raised"] = r["event"]["ret"].get("e")
                if clause == "ShapeOK":
                    sig["builtin_combine"] = cfg.get("comb") not in (None, "custom")
                chk.violation(sig, {"real": True, "cfg": cfg, "line": r["line"], "event": r["event"],
                                    "detail": det, "clauses": (r["diag"] or {}).get("clauses")})
    return stats, rej


def run_real(chk: Check, rng: random.Random, thorough: bool):
    T = 8 if thorough else 5
    cfgs = choose_configs(rng, thorough)
    traces, details, spiking = [], [], 0
    for ci, cfg in enumerate(cfgs):
        seed = rng.randrange(1, 10 ** 6)
        for j in range(T + 1):
            learn = (ci + j) % 2 == 1
            tr, det, spikes = protocol(cfg, seed, j, T, learn)
            traces.append(tr)
            details.append(det)
            if spikes:
                spiking += 1
                chk.nontrivial.add(("real", json.dumps(cfg, sort_keys=True), j))
    if spiking < len(traces) // 2:
        raise MachineryFailure(f"real-component runs are mostly silent ({spiking}/{len(traces)} spiking): vacuous")
    chk.extra["real_configurations"] = len(cfgs)
    chk.extra["real_protocols_spiking"] = spiking
    chk.sample({"kind": "clear-protocol", "cfg": traces[1]["hdr"]["cfg"], "events": traces[1]["ev"][:4]})
    validate(chk, traces, details, site="real-clear-replay")
    # canary: a twin output that differs after the clear must be rejected
    src = next((t for t in traces if t["ev"][-1]["op"]["a"] == "step" and t["ev"][-1]["ret"].get("ty", -1) != -1), None)
    if src is not None:
        good = copy.deepcopy(src)
        good["hdr"]["waive"] = []
        bad = copy.deepcopy(good)
        bad["ev"][-1]["ret"]["ty"] += 100000
        _, rej = tracecheck.validate("LayerClearTrace", [good, bad], shards=1, max_waive_rounds=1)
        got = {(r["trace"], r["line"]) for r in rej}
        if (1, len(bad["ev"])) not in got:
            raise MachineryFailure(f"canary: corrupted clear protocol accepted ({got})")
        chk.note(f"canary: corrupted clear protocol rejected at line {len(bad['ev'])}")
    else:
        # every clear failed: the canary corrupts the reference output of a pre-clear step instead
        src = next(t for t in traces if t["ev"][0]["op"]["a"] == "step")
        good = copy.deepcopy(src)
        good["hdr"]["waive"] = []
        good["ev"] = good["ev"][:1]
        bad = copy.deepcopy(good)
        bad["ev"][0]["ret"]["y"] += 100000
        _, rej = tracecheck.validate("LayerClearTrace", [good, bad], shards=1, max_waive_rounds=1)
        if (1, 1) not in {(r["trace"], r["line"]) for r in rej}:
            raise MachineryFailure("canary: corrupted reference step accepted")
        chk.note("canary: corrupted reference step rejected at line 1")


def replay_real(rep) -> int:
    cfg = dict(rep["cfg"])
    seed, j, T, learn = cfg.pop("seed"), cfg.pop("j"), cfg.pop("T"), cfg.pop("learn")
    tr, det, _ = protocol(cfg, seed, j, T, learn)
    _, rej = tracecheck.validate("LayerClearTrace", [tr], shards=1)
    for r in rej:
        print(json.dumps({"line": r["line"], "event": r["event"], "clauses": (r["diag"] or {}).get("clauses"),
                          "detail": det[r["line"] - 1]}, indent=1))
    if rej:
        print("VIOLATION property=C17 replay=(re-executed)")
    return 1 if rej else 0
