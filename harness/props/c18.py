"""C18 - delay-adjusted and kernel STDP agree with their formula and with each other.

T: TLC checks for every pre/post history up to T steps and every delay (ticks, on and off the
   step grid, changing at every step) that the event-time recurrence equals "now - true last
   spike", that the mechanism (masked exponentials of e_pre - e_post - d, nansum, routing)
   requests exactly the documented function of t_delta = t_post_last - t_pre_last - d (both
   branches, the t_delta = 0 boundary, nothing before both sides spiked), and the identities
   (delay rule = mirrored weight rule; delay 0 => unadjusted kernel rule).
A: the outcome tables are replayed into the REAL DelayAdjustedSTDP / STDPD / MSTDP / MSTDPD,
   DelayAdjustedKernelSTDP / KernelSTDPD (shipped exponential kernels) and KernelSTDP on a dense
   population in which every (pre history, post history) pair is a synapse with its own,
   step-wise changing delay, and on 1x1 cells with batches; accumulators per step and the
   parameter after update() are compared with the evaluated symbolic values; the
   implementations are also compared with each other directly.
"""
from __future__ import annotations
import random
from concurrent.futures import ThreadPoolExecutor
from ..core import Check, MachineryFailure
from ..stdp_eval import evaluate, delayadj_params
from .stdp_common import run_tlc, emitted, bits, Mismatch, compare, LN2, with_form, syn_hp, per_synapse, multi_cells
from . import stdp_traces

PID = "C18"
DT = 2      # ticks per step
INVARIANTS = ["TypeOK", "EventTimeOK", "Refinement", "Identities", "RoutingOK", "ShiftIdentity"]
SPEC_RULE = {"da_stdp": "w", "dak_stdp": "w", "da_stdpd": "d", "dak_stdpd": "d", "da_mstdp": "mw",
             "da_mstdpd": "md", "k_stdp": "k"}
VARIANTS = tuple(SPEC_RULE)
SIGNS = ((1, -1), (-1, 1), (1, 1), (-1, -1))
RTOK = (-1, 0, 1, 2)


def constants(T, T3):
    return dict(DT=DT, RuleSet={"w", "d", "mw", "md", "k", "ka"}, DelaySet=set(range(2 * DT + 1)), RPos={0, 1, 2},
                RNegMag={1}, T=T, T3=T3, QSet={1, 2})


def load_tables(docs):
    tab = {}
    for doc in docs:
        key = doc["s"]["rule"]
        if key == "ka":
            key = f"ka{doc['s']['q']}"         # KernelSTDP with a constant delay of q steps
        tab.setdefault(key, {})[(tuple(doc["s"]["x"]), tuple(doc["s"]["y"]))] = {
            (o["op"]["x"], o["op"]["y"], o["op"]["d"], o["op"]["r"]): (o["dw"], o["near"]) for o in doc["out"]}
    return tab


def expected(tab, rule, xh, yh, t, d, r):
    if rule == "k" and d:
        # KernelSTDP with a constant on-grid delay (d ticks = d / DT steps): the arrival rule
        return tab[f"ka{d // DT}"][(xh[:t], yh[:t])][(xh[t], yh[t], 0, r)]
    return tab[rule][(xh[:t], yh[:t])][(xh[t], yh[t], d, r)]


def c18_hp(splus, sminus, dt, rng, dyadic):
    """eta_plus != eta_minus in magnitude and tau_plus != tau_minus, always."""
    if dyadic:
        a1, a2 = rng.sample([1.0, 0.5, 0.25], 2)
        t1, t2 = rng.sample([(dt / DT) / LN2 * k for k in (1, 2, 4)], 2)   # decay per tick 1/2, 2^-1/2, 2^-1/4
    else:
        a1, a2 = rng.sample([1.0, 0.6, 0.35, 0.8], 2)
        t1, t2 = rng.sample([2.0, 7.3, 20.0], 2)
    return {"lr_pos": splus * a1, "lr_neg": sminus * a2, "tc_pos": t1, "tc_neg": t2}


HPKEYS = ("lr_pos", "lr_neg", "tc_pos", "tc_neg")
KERNEL = ("k_stdp", "dak_stdp", "dak_stdpd")


def matches(alts, P, gp, gn):
    """Does the observed (pos, neg) equal one of the admissible symbolic outcomes?"""
    for bag in alts:
        ep, en = evaluate(bag, P)
        if compare(ep, gp) and compare(en, gn):
            return True, ep, en
    ep, en = evaluate(alts[0], P)
    return False, ep, en


# ------------------------------------------------------------------ binding A (i): population
def population(chk, tab, mm, *, variant, splus, sminus, dt, dyadic, shift, T, rng, hp=None, script=None,
               deviate=None, count=True, form="float", via="ctor"):
    """Dense n x n cell (n = 2^T) - synapse (o, i): pre history H[i], post history H[o], delay
    (o + 2 i + 3 t + shift) mod (2 DT + 1) ticks at step t (shift None: connection without
    delays; "zero": a delay parameter that is all zeros; KernelSTDP: delay 0).  Returns the per-step (pos, neg) arrays for direct
    cross-implementation comparison."""
    import torch
    from ..impl_stdp import Run
    rule = SPEC_RULE[variant]
    three = rule in ("mw", "md")
    H = bits(T)
    n = len(H)
    hp = dict(hp or c18_hp(splus, sminus, dt, rng, dyadic))
    if form == "tsyn" and variant not in KERNEL:
        form = "t0"            # only kernel keyword arguments can be per-synapse tensors
    hp = with_form(hp, HPKEYS, form, rng, (n, n))
    if variant == "k_stdp":
        hp["delayed"] = bool(rng.random() < 0.5)     # also "delayed" on a connection without delays
    hdr = {"rule": variant, "hp": hp, "conn": {"kind": "dense", "M": n, "N": n}, "dt": dt, "B": 1,
           "reduction": rng.choice(["sum", "mean"]), "dmax": None if shift is None else 2, "delay": 0, "via": via}
    sig = {"site": "population", "rule": variant, "delays": shift is not None, "form": form, "via": via}
    try:
        run = Run(hdr)
    except Exception as e:
        mm.add(dict(sig, clause="Raised", where="register", exc=type(e).__name__), {"hdr": hdr, "error": repr(e)})
        return None
    tick = dt / DT
    total = [[0.0] * n for _ in range(n)]
    steps, outs = [], []
    for t in range(T):
        if shift is None or shift == "zero":
            Dk = [[0] * n for _ in range(n)]
        elif rule == "k":
            # KernelSTDP: per-synapse delays of 0, 1 or 2 whole steps, constant over the run (arrival rule)
            Dk = [[((o + 2 * i + shift) % 3) * DT for i in range(n)] for o in range(n)]
        else:
            Dk = [[(o + 2 * i + 3 * t + shift) % (2 * DT + 1) for i in range(n)] for o in range(n)]
        if shift is not None:
            run.set_delay([[d / DT for d in row] for row in Dk])
        x = torch.tensor([[bool(h[t]) for h in H]])
        y = torch.tensor([[bool(h[t]) for h in H]])
        if script:
            st = script[t]
        else:
            st = {"r": rng.choice(RTOK) if three else 1,
                  "unit": rng.choice([1.0, 0.7, 0.5]) if three and not dyadic else 1.0,
                  "scale": rng.choice([1.0, 0.5, 2.0]) if three else 1.0}
        steps.append(st)
        r = st["r"]
        try:
            pos, neg = run.step(x, y, signal=r * st["unit"], scale=st["scale"])
        except Exception as e:
            mm.add(dict(sig, clause="Raised", where="step", exc=type(e).__name__),
                   {"hdr": hdr, "steps": steps, "t": t, "error": repr(e)})
            return None
        outs.append((pos, neg))
        val = run.value()
        persyn = per_synapse(hp)
        P = None if persyn else delayadj_params(dict(hp, scale=st["unit"] * st["scale"]), tick)
        for o in range(n):
            for i in range(n):
                if persyn:
                    P = delayadj_params(dict(syn_hp(hp, o, i), scale=st["unit"] * st["scale"]), tick)
                d = Dk[o][i]
                dq = (d + 1) % (2 * DT + 1) if deviate == "delay" and rule != "k" else d
                dw, near = expected(tab, rule, H[i], H[o], t, dq, r)
                gp, gn = float(pos[o][i]), float(neg[o][i])
                if deviate == "observed" and (o, i) == (n - 1, n - 1):
                    gp += 1e-3
                ok, ep, en = matches([dw] if dyadic else near, P, gp, gn)
                if dw and count:
                    chk.nontrivial.add((rule, H[i][:t + 1], H[o][:t + 1], d, r))
                    if t == T - 1 and ok and not chk.extra.get("_s"):
                        chk.extra["_s"] = 1
                        chk.sample({"kind": "replayed-step", "trainer": variant, "dt": dt, "pre": H[i], "post": H[o],
                                    "delay_ticks": d, "ticks_per_step": DT, "step": t + 1, "specified": dw,
                                    "evaluated": {"pos": ep, "neg": en}, "observed": {"pos": gp, "neg": gn}})
                if not ok:
                    mm.add(dict(sig, clause="PosOK" if not compare(ep, gp) else "NegOK",
                                boundary=len(near) > 1),
                           {"hdr": hdr, "steps": steps, "t": t, "T": T, "shift": shift, "pre": H[i], "post": H[o],
                            "o": o, "i": i, "delay_ticks": d,
                            "ticks_per_step": DT, "expected": {"pos": ep, "neg": en, "value": dw},
                            "observed": {"pos": gp, "neg": gn}})
                    if len(mm) > 40:
                        return None
                    continue
                # parameter after update(): weight accumulates, a learned delay is d + change
                if rule in ("d", "md"):
                    want = d * tick + (gp - gn)
                else:
                    total[o][i] += gp - gn
                    want = total[o][i]
                if not compare(want, float(val[o][i]), atol=2e-6 * (t + 1)):
                    mm.add(dict(sig, clause="ParamOK"),
                           {"hdr": hdr, "steps": steps, "t": t, "pre": H[i], "post": H[o], "delay_ticks": d,
                            "expected": want, "observed": float(val[o][i])})
                    return None
    return {"outs": outs, "hp": hp, "steps": steps, "hdr": hdr}


def cross(chk, mm, a, b, what):
    """Direct comparison of two implementations driven identically."""
    if a is None or b is None:
        return 0
    n = 0
    for t, ((pa, na), (pb, nb)) in enumerate(zip(a["outs"], b["outs"])):
        dp = (pa - pb).abs() - (1e-6 + 1e-5 * pa.abs())
        dn = (na - nb).abs() - (1e-6 + 1e-5 * na.abs())
        n += pa.numel()
        if bool((dp > 0).any()) or bool((dn > 0).any()):
            mm.add({"clause": "CrossImpl", "site": "population", "pair": what},
                   {"a": a["hdr"], "b": b["hdr"], "steps": a["steps"], "t": t,
                    "max_diff_pos": float((pa - pb).abs().max()), "max_diff_neg": float((na - nb).abs().max())})
            break
    return n


# ------------------------------------------------------------------ binding A (ii): 1x1 cells
def cell_1x1(chk, tab, mm, *, variant, splus, sminus, dt, dyadic, nodelay, B, reduction, persample, T, rng,
             form="float", via="ctor"):
    import torch
    from ..impl_stdp import Run
    rule = SPEC_RULE[variant]
    three = rule in ("mw", "md")
    if three and persample:
        reduction = "sum"
    if rule != "k":
        nodelay = False       # the delay-adjusted rules are defined for connections that have delays
    if form == "tsyn" and variant not in KERNEL:
        form = "t0"
    hp = with_form(c18_hp(splus, sminus, dt, rng, dyadic), HPKEYS, form, rng, (1, 1))
    if variant == "k_stdp":
        hp["delayed"] = bool(rng.random() < 0.5)
    xs = [tuple(rng.randint(0, 1) for _ in range(T)) for _ in range(B)]
    ys = [tuple(rng.randint(0, 1) for _ in range(T)) for _ in range(B)]
    hdr = {"rule": variant, "hp": hp, "conn": {"kind": "dense", "M": 1, "N": 1}, "dt": dt, "B": B,
           "reduction": reduction, "dmax": None if nodelay else 2, "delay": 0, "via": via}
    sig = {"site": "cell-1x1", "rule": variant, "delays": not nodelay, "form": form, "via": via}
    try:
        run = Run(hdr)
    except Exception as e:
        mm.add(dict(sig, clause="Raised", where="register", exc=type(e).__name__), {"hdr": hdr, "error": repr(e)})
        return 0
    tick = dt / DT
    steps, edges, total = [], 0, 0.0
    kq = rng.choice([0, 1, 2]) * DT            # KernelSTDP: a constant delay of 0, 1 or 2 steps
    for t in range(T):
        d = 0 if nodelay else (kq if rule == "k" else rng.randrange(2 * DT + 1))
        if not nodelay:
            run.set_delay(d / DT)
        x = torch.tensor([[bool(xs[b][t])] for b in range(B)])
        y = torch.tensor([[bool(ys[b][t])] for b in range(B)])
        unit = rng.choice([1.0, 0.7]) if three and not dyadic else 1.0
        scale = rng.choice([1.0, 0.5, -0.5]) if three else 1.0      # documented: the absolute value of the scale is used
        if three and persample:
            rs = [rng.choice(RTOK) for _ in range(B)]
            # (whole-number rewards also as an INTEGER tensor, e.g. +-1 straight from torch.randint: the scale stays fractional)
            sdt = torch.int64 if (unit == 1.0 and rng.random() < 0.4) else torch.float32
            signal = torch.tensor([r * unit for r in rs], dtype=sdt)
        else:
            r = rng.choice(RTOK) if three else 1
            rs = [r] * B
            signal = r * unit
        steps.append({"d": d, "r": rs, "unit": unit, "scale": scale})
        try:
            pos, neg = run.step(x, y, signal=signal, scale=scale)
        except Exception as e:
            mm.add(dict(sig, clause="Raised", where="step", exc=type(e).__name__),
                   {"hdr": hdr, "pre": xs, "post": ys, "steps": steps, "t": t, "error": repr(e)})
            return edges
        P = delayadj_params(dict(syn_hp(hp, 0, 0), scale=unit * abs(scale)), tick)
        # admissible totals: one alternative per sample (boundary cases double)
        sums = [(0.0, 0.0)]
        nontriv = False
        for b in range(B):
            dw, near = expected(tab, rule, xs[b], ys[b], t, d, rs[b])
            nontriv = nontriv or bool(dw)
            alts = [dw] if dyadic else near
            vals = [evaluate(a, P) for a in alts]
            sums = [(p + vp, q + vq) for (p, q) in sums for (vp, vq) in vals]
            edges += 1
            if dw:
                chk.nontrivial.add((rule, xs[b][:t + 1], ys[b][:t + 1], d, rs[b]))
        k = B if reduction == "mean" else 1
        gp, gn = float(pos.reshape(-1)[0]), float(neg.reshape(-1)[0])
        if not any(compare(p / k, gp) and compare(q / k, gn) for p, q in sums):
            p, q = sums[0]
            mm.add(dict(sig, clause="PosOK" if not compare(p / k, gp) else "NegOK"),
                   {"hdr": hdr, "pre": xs, "post": ys, "steps": steps, "t": t, "ticks_per_step": DT, "persample": bool(persample),
                    "expected": {"pos": p / k, "neg": q / k}, "observed": {"pos": gp, "neg": gn}})
            return edges
        val = float(run.value().reshape(-1)[0])
        if rule in ("d", "md"):
            want = d * tick + gp - gn
        else:
            total += gp - gn
            want = total
        if not compare(want, val, atol=2e-6 * (t + 1)):
            mm.add(dict(sig, clause="ParamOK"), {"hdr": hdr, "pre": xs, "post": ys, "steps": steps, "t": t,
                                                 "expected": want, "observed": val})
            return edges
    return edges


# ------------------------------------------------------------------ several cells on one trainer
def cells_on_one_trainer(chk, tab, mm, *, variant, rng, T, guards):
    rule = SPEC_RULE[variant]
    three = rule in ("mw", "md")
    n = 3 if guards else 2
    dyadic = rng.random() < 0.4
    hdrs = []
    # shared: the cells are the connections of ONE Biclique feeding ONE neuron group (same step time, same postsynaptic
    # spikes), so the trainer's monitor pool may alias their event monitors - which it must do only where they are
    # interchangeable (e.g. not between a delayed and an undelayed kernel cell)
    shared = (not guards) and rng.random() < 0.4
    # a third of those: ONE connection into SEVERAL neuron groups (the presynaptic event monitors are the pooling
    # candidates; the one updater must hold the SUM of the cells' documented changes)
    skind = "conn" if (shared and rng.random() < 0.34) else True
    dt0 = None
    for j in range(n):
        splus, sminus = rng.choice(SIGNS)
        dt = rng.choice([1.0, 0.5]) if dyadic else rng.choice([1.0, 1.3, 0.7])
        if shared:
            dt0 = dt = dt if dt0 is None else dt0
        form = rng.choice(["float", "t0", "mixed", "tsyn"])
        if form == "tsyn" and variant not in KERNEL:
            form = "t0"
        hp = with_form(c18_hp(splus, sminus, dt, rng, dyadic), HPKEYS, form, rng, (1, 1))
        nodelay = rule == "k" and rng.random() < 0.5
        if variant == "k_stdp":
            hp["delayed"] = bool(rng.random() < 0.5)
        hdrs.append({"rule": variant, "hp": hp, "conn": {"kind": "dense", "M": 1, "N": 1}, "dt": dt, "B": 1,
                     "reduction": rng.choice(["sum", "mean"]), "dmax": None if nodelay else 2, "delay": 0})
        if shared:
            hdrs[-1]["shared"] = skind
            if skind == "conn":
                hdrs[-1]["dmax"] = hdrs[0]["dmax"]

    kqs = [rng.choice([0, 1, 2]) for _ in range(n)]       # KernelSTDP: constant whole-step delays per cell

    def delay_of(j, t):
        if hdrs[j]["dmax"] is None:
            return None
        return float(kqs[j]) if rule == "k" else rng.randrange(2 * DT + 1) / DT

    def expect(j, xh, yh, t, r, d):
        dw, near = expected(tab, rule, xh, yh, t, int(round((d or 0) * DT)), r)
        return [dw] if dyadic else near

    def params(j, factor):
        return delayadj_params(dict(syn_hp(hdrs[j]["hp"], 0, 0), scale=factor), hdrs[j]["dt"] / DT)

    def on_edge(j, xh, yh, t, r, d):
        chk.nontrivial.add(("multi", rule, xh[:t + 1], yh[:t + 1], d, r))

    return multi_cells(chk, mm, variant=variant, hdrs=hdrs, via=rng.choice(["ctor", "override"]), T=T, rng=rng,
                       three=three, dyadic=dyadic, expect=expect, params=params, delay_of=delay_of, guards=guards,
                       on_edge=on_edge)


# ------------------------------------------------------------------ the check
def run(tier: str, seed: int) -> int:
    chk = Check(PID, tier, seed)
    rng = random.Random(seed)
    chk.extra["rule"] = ("MC: every history up to T steps x rule x delay in ticks (changing per step), all next "
                         "steps. A non-trivial case is a distinct (rule, pre history, post history, delay, reward "
                         "token) with a non-zero specified change that was executed on a real trainer and compared.")
    quick = tier == "quick"
    Tmc, T3mc = (6, 4) if quick else (7, 5)
    Tg, T3g = (4, 3) if quick else (5, 4)

    pool = ThreadPoolExecutor(max_workers=2)
    fut_mc = pool.submit(run_tlc, chk, "DelayAdjMC", "mc", constants(Tmc, T3mc), INVARIANTS, 4 if quick else 8)
    gen = run_tlc(chk, "DelayAdjMC", "gen", constants(Tg, T3g), ["Emit"], workers=1)
    docs = emitted(gen)
    if len(docs) != gen.distinct or not docs:
        raise MachineryFailure(f"emitted {len(docs)} outcome tables, TLC reports {gen.distinct} states")
    chk.add_tlc("gen", gen)
    tab = load_tables(docs)
    chk.note(f"gen: {gen.distinct} states with outcome tables, {gen.wall:.1f}s")

    mm = Mismatch(chk)
    comps = xcomps = 0
    def pop(variant, shift, T, hp, form, splus, sminus, dt, dyadic):
        nonlocal comps
        comps += (2 ** T) ** 2 * T
        return population(chk, tab, mm, variant=variant, splus=splus, sminus=sminus, dt=dt, dyadic=dyadic,
                          shift=shift, T=T, rng=rng, hp=hp, form=form, via=rng.choice(["ctor", "override"]))

    for k, (splus, sminus) in enumerate(SIGNS):
        shifts = [None, 0, 1, 2, 3, 4] if not quick else [rng.randrange(5), rng.randrange(5)] + ([None] if k == 0 else [])
        for shift in shifts:
            dyadic = rng.random() < 0.4
            dt = rng.choice([1.0, 0.5]) if dyadic else rng.choice([1.0, 1.3, 0.7])
            hp = c18_hp(splus, sminus, dt, rng, dyadic)
            args = (splus, sminus, dt, dyadic)
            got = {}
            for variant in VARIANTS:
                rule = SPEC_RULE[variant]
                if shift is None and rule != "k":
                    continue      # the delay-adjusted rules are defined for connections that have delays
                T = T3g if rule in ("mw", "md") else Tg
                if variant in KERNEL:
                    # kernel keyword arguments as floats, as (0-d) tensors, and per-synapse tensors
                    got[variant] = pop(variant, shift, T, hp, "float", *args)
                    got[variant + ":t"] = pop(variant, shift, T, hp, rng.choice(["t0", "mixed"]), *args)
                    pop(variant, shift, T, hp, "tsyn", *args)
                else:
                    got[variant] = pop(variant, shift, T, hp, rng.choice(["float", "t0"]), *args)
            for sfx in ("", ":t"):
                xcomps += cross(chk, mm, got.get("da_stdp"), got.get("dak_stdp" + sfx),
                                "DelayAdjustedSTDP~DelayAdjustedKernelSTDP" + sfx)
                xcomps += cross(chk, mm, got.get("da_stdpd"), got.get("dak_stdpd" + sfx),
                                "DelayAdjustedSTDPD~DelayAdjustedKernelSTDPD" + sfx)
            # all delays zero: the adjusted rules reduce to the unadjusted kernel rule
            zs = None if shift is None else "zero"
            z = {}
            for variant in ("da_stdp", "dak_stdp", "k_stdp"):
                if shift is None and variant != "k_stdp":
                    continue
                z[variant] = pop(variant, zs, Tg, hp, "float", *args)
                if variant in KERNEL:
                    z[variant + ":t"] = pop(variant, zs, Tg, hp, rng.choice(["t0", "mixed"]), *args)
            for a, b in (("da_stdp", "k_stdp"), ("da_stdp", "k_stdp:t"), ("dak_stdp", "k_stdp"),
                         ("dak_stdp:t", "k_stdp:t"), ("da_stdp", "dak_stdp:t")):
                xcomps += cross(chk, mm, z.get(a), z.get(b), f"(d=0) {a}~{b}")
    chk.note(f"population replay: {comps} (synapse, step) comparisons with the specification, {xcomps} direct "
             f"cross-implementation comparisons, mismatches={len(mm)}")
    chk.extra["population_comparisons"] = comps
    chk.extra["cross_impl_comparisons"] = xcomps

    n11 = 520 if quick else 6000
    e11 = 0
    for j in range(n11):
        variant = VARIANTS[j % len(VARIANTS)]
        T = T3g if SPEC_RULE[variant] in ("mw", "md") else Tg
        splus, sminus = SIGNS[(j // len(VARIANTS)) % 4]
        dyadic = rng.random() < 0.4
        e11 += cell_1x1(chk, tab, mm, variant=variant, splus=splus, sminus=sminus,
                        dt=(rng.choice([1.0, 0.5]) if dyadic else rng.choice([1.0, 1.3, 0.7])), dyadic=dyadic,
                        nodelay=rng.random() < 0.2, B=rng.choice([1, 2, 3]), reduction=rng.choice(["sum", "mean"]),
                        persample=rng.random() < 0.5, T=T, rng=rng,
                        form=rng.choice(["float", "t0", "mixed", "tsyn"]), via=rng.choice(["ctor", "override"]))
    chk.note(f"1x1 cells: {n11} runs, {e11} (sample, step) comparisons, mismatches so far={len(mm)}")
    nmc = 252 if quick else 2500
    emc = 0
    for j in range(nmc):
        variant = VARIANTS[j % len(VARIANTS)]
        emc += cells_on_one_trainer(chk, tab, mm, variant=variant, rng=rng, guards=(j // len(VARIANTS)) % 3 == 0,
                                    T=T3g if SPEC_RULE[variant] in ("mw", "md") else Tg)
    chk.note(f"several cells on one trainer (own hyperparameters, cells=..., guards): {nmc} runs, {emc} (cell, step) "
             f"comparisons, mismatches so far={len(mm)}")
    e11 += emc
    chk.traces += nmc
    chk.evaluations += comps + xcomps + e11
    chk.traces += n11
    chk.extra["cell_runs"] = n11
    doc = next((d for d in docs[len(docs) // 3:] if any(o["dw"] for o in d["out"])), docs[0])
    chk.sample({"kind": "outcome-table", "state": doc["s"], "out": [o for o in doc["out"] if o["dw"]][:2]})

    # B: random populations on dense / direct / lateral / conv cells, dyadic recipe, validated by TLC
    def on_raise(c, ex):
        chk.violation({"clause": "Raised", "site": "trace-driver", "conn": c["conn"]["kind"],
                       "exc": type(ex).__name__, "rule": c["variant"], "delays": c["delays"]},
                      {"family": "c18", "cell": c, "error": repr(ex)})
    traces = stdp_traces.c18_traces(chk, rng, 120 if quick else 2000, 5, 4, on_raise)
    kinds = {}
    for t in traces:
        kinds[t["meta"]["conn"]["kind"]] = kinds.get(t["meta"]["conn"]["kind"], 0) + 1
        for e in t["ev"]:
            if e["ret"]["pos"] or e["ret"]["neg"]:
                chk.nontrivial.add(("trace", t["meta"]["conn"]["kind"], t["meta"]["variant"], str(e["st"]),
                                    str(e["op"]["r"]), e["op"]["d"]))
    rej = stdp_traces.validate(chk, "DelayAdjTrace", traces, "trace", shards=4 if quick else 8)
    first = stdp_traces.accepted_trace(traces)
    chk.traces += len(traces)
    chk.evaluations += sum(len(t["ev"]) for t in traces)
    chk.note(f"trace validation: {len(traces)} per-parameter traces {kinds}, rejected lines={rej}")
    if first:
        chk.sample({"kind": "validated-trace", "cfg": first["hdr"]["cfg"], "events": first["ev"][:2]})
        stdp_traces.canary(chk, "DelayAdjTrace", first)

    for dev in ("delay", "observed"):
        cm = Mismatch(chk, report=False)
        population(chk, tab, cm, variant="da_stdp", splus=1, sminus=-1, dt=1.0, dyadic=True, shift=0, T=Tg,
                   rng=random.Random(seed + 1), deviate=dev, count=False)
        if not len(cm):
            raise MachineryFailure(f"canary '{dev}' was accepted: the replay does not discriminate")
    chk.note("canaries rejected (wrong-delay expectation, perturbed observation)")

    chk.extra.pop("_s", None)
    res = fut_mc.result()
    chk.add_tlc("mc", res)
    chk.note(f"mc T={Tmc}/T3={T3mc}: {res.distinct} states, {res.generated} transitions, {res.wall:.1f}s, "
             f"violated={res.violated}")
    return chk.finish()


def replay(path: str) -> int:
    from .stdp_common import replay_file
    return replay_file(path, "c18", "DelayAdjTrace")
