"""C19 - spike encoders respect shape, rate limit, silence at zero and refractory gap.

T: EncoderMC explores ALL schedules (interval-draw sequences) of every configuration in a
   small family and checks Length / SilentAtZero / MinGap / Saturated (+ the lemmas the
   trace specification relies on, and tightness of the offline schedule model); two
   deliberately out-of-quantifier runs must be refuted by TLC ("shows why").
   EncoderCfgMC explores every history of property setters.
A: the outcome table of every reachable configuration (EncoderCfgMC, Emit) is executed
   edge by edge on real encoder objects.
B: recorded executions of the real encoders (hundreds of generator seeds x intensity
   tensors x configurations, online and offline, setters in between, generator restores)
   are validated by TLC against EncoderTrace, which SEARCHES for a schedule producing each
   logged raster - the draws are not logged.
"""
from __future__ import annotations
import copy, json, random
from concurrent.futures import ThreadPoolExecutor
from ..core import Check, MachineryFailure
from .. import tlc, graph, tracecheck
from ..impl_encoder import EncoderImpl, SITE, torch

PID = "C19"
MC_INVS = ["Length", "SilentAtZero", "NoForcedSpike", "PintComplete", "MinGap", "Saturated", "PrefixGap", "Monotone", "ViableSound", "Complete"]


# --------------------------------------------------------------------------- T
def mc_runs(chk: Check, tier: str):
    if tier == "quick":
        main = dict(KindSet={"exp", "bern", "pint"}, SSet=set(range(1, 7)), DSet={2}, RSet={0, 2, 4},
                    MSet={3, 16}, CompSet={True, False}, OnSet={True, False}, OnlySane=True)
    else:
        main = dict(KindSet={"exp", "bern", "pint"}, SSet=set(range(1, 9)), DSet={2, 4}, RSet={0, 2, 4, 6, 8, 12},
                    MSet={3, 32}, CompSet={True, False}, OnSet={True, False}, OnlySane=True)
    runs = [("all-schedules", main, MC_INVS, False),
            # guarded clause on a family that also contains out-of-quantifier configurations
            ("guarded-mixed", dict(KindSet={"exp"}, SSet={1, 4, 5}, DSet={1, 2}, RSet={3, 4, 16}, MSet={3, 16},
                                   CompSet={True, False}, OnSet={True, False}, OnlySane=False),
             ["Length", "SilentAtZero", "MinGap"], False),
            # "TLC shows why": the unguarded clause must be refuted
            ("refrac-not-multiple-of-dt", dict(KindSet={"exp"}, SSet={4}, DSet={2}, RSet={3}, MSet={16},
                                               CompSet={False}, OnSet={True, False}, OnlySane=False),
             ["MinGapUnguarded"], True),
            ("compensated-rate-too-high", dict(KindSet={"exp"}, SSet={4}, DSet={2}, RSet={4}, MSet={3},
                                               CompSet={True}, OnSet={False}, OnlySane=False),
             ["MinGapUnguarded"], True)]

    def one(item):
        name, consts, invs, _ = item
        return tlc.run("EncoderMC", tlc.cfg_text(constants=consts, invariants=invs), workers=4, timeout=1500)

    with ThreadPoolExecutor(max_workers=4) as ex:
        results = list(ex.map(one, runs))
    for (name, consts, invs, must_fail), res in zip(runs, results):
        if must_fail:
            if res.violated != ["MinGapUnguarded"]:
                raise MachineryFailure(f"MC canary {name}: TLC did not refute the unguarded gap clause: {res.out[-1500:]}")
            chk.note(f"mc {name}: refuted by TLC as expected ({res.distinct} states)")
            chk.extra.setdefault("mc_refuted_as_expected", []).append(name)
            continue
        if res.violated:
            chk.violation({"clause": "MC:" + ",".join(res.violated), "site": "spec", "config": name},
                          {"config": name, "tlc_tail": res.out[-4000:]})
        elif not res.ok:
            raise MachineryFailure(f"TLC run {name} did not complete: {res.out[-2000:]}")
        chk.add_tlc("mc:" + name, res)
        chk.note(f"mc {name}: {res.distinct} states, {res.generated} transitions, {res.wall:.1f}s")


# --------------------------------------------------------------------------- A
def cfg_consts(kind, *, S0=3, D0=2, R0=2, derive0=False, M0=8, comp0=False, depth=4,
               svals=(1, 3), dvals=(1, 2, 4), rvals=(0, 2, 4, 8), mvals=(2, 4, 8)):
    return dict(Kind0=kind, S0=S0, D0=D0, R0=R0, Derive0=derive0, M0=M0, Comp0=comp0, SVals=set(svals),
                DVals=set(dvals), RVals=set(rvals), MVals=set(mvals), MaxDepth=depth)


def cfg_graph(chk: Check, name: str, consts: dict) -> graph.Graph:
    invs = ["TypeOK", "DeriveTracksDt", "CheckedSettersCompat", "Deterministic"]
    res = tlc.run("EncoderCfgMC", tlc.cfg_text(constants=consts, invariants=invs + ["Emit"], constraints=["Bounded"]),
                  workers=1, timeout=1500)
    if res.violated:
        chk.violation({"clause": "MC:" + ",".join(res.violated), "site": "spec", "config": name},
                      {"config": name, "tlc_tail": res.out[-4000:]})
    elif not res.ok:
        raise MachineryFailure(f"TLC run cfg:{name} failed: {res.out[-2000:]}")
    g = graph.Graph.from_lines(res.printed())
    if len(g.states) != res.distinct:
        raise MachineryFailure(f"emitted graph has {len(g.states)} states, TLC reports {res.distinct}")
    chk.add_tlc("cfg:" + name, res)
    g.name = name
    return g


def hdr_of(consts: dict, tick: float, seed: int = 0) -> dict:
    return {"kind": consts["Kind0"], "S": consts["S0"], "D": consts["D0"],
            "r": -1 if consts["Derive0"] else consts["R0"], "M": consts["M0"], "comp": consts["Comp0"],
            "tick": tick, "seed": seed}


def replay_cfg_graph(chk: Check, g: graph.Graph, consts: dict, tick: float, rng, budget, deviate=None, report=True):
    hdr = hdr_of(consts, tick)
    make = lambda: EncoderImpl(hdr)
    init_key = graph.canon(make().project())
    if init_key not in g.states:
        raise MachineryFailure(f"initial encoder configuration not in emitted graph {g.name}: {init_key}")
    mism = []

    def on_mismatch(sig, rep):
        op = rep.get("op") or {}
        obs = (rep.get("observed") or {}).get("ret") or {}
        sig = dict(sig, kind=hdr["kind"], site=f"{SITE[hdr['kind']]}.{op.get('a', 'path')}",
                   raised=obs.get("e", "-"), arg_none=(op.get("r") == -1))
        mism.append(sig)
        if report:
            chk.violation(sig, dict(rep, hdr=hdr, graph=g.name))

    stats = graph.replay(g, init_key, make, budget=budget, rng=rng, on_mismatch=on_mismatch, deviate=deviate)
    if report:
        chk.evaluations += stats.edges
        for k, o in stats.pairs:
            chk.nontrivial.add(("cfg-edge", g.name, tick, k, o))
        chk.note(f"replay cfg:{g.name} tick={tick}: {stats.edges} edges of {g.n_edges}, "
                 f"{len(stats.states_visited)}/{len(g.states)} states, mismatches={len(stats.mismatches)}")
        if stats.pairs:
            k, o = sorted(stats.pairs)[0]
            chk.sample({"kind": "replayed-setter-edge", "graph": g.name, "state": json.loads(k), "op": json.loads(o)})
    return stats, mism


# --------------------------------------------------------------------------- B
SHAPES = [(1, 3), (2, 2), (3,), (1, 2, 2), (2, 3), (1, 1), (4,)]
DYADIC_TICKS = [0.25, 0.5, 1.0, 0.125]
TICKS = DYADIC_TICKS + [0.3, 0.1, 0.7]


def _sane(c):
    if c["kind"] != "exp":
        return True
    return c["r"] % c["D"] == 0 and (not c["comp"] or c["r"] < c["M"])


def _random_input(rng, tgen, shape):
    x = torch.rand(shape, generator=tgen)
    mode = rng.random()
    flat = x.reshape(-1)
    for i in range(flat.numel()):
        u = rng.random()
        if u < 0.25:
            flat[i] = 0.0
        elif u < 0.45:
            flat[i] = 1.0
        elif u < 0.55:
            flat[i] = 0.5
        elif u < 0.62:
            flat[i] = 1e-12      # positive but with an astronomically long expected interval
    if mode < 0.08:
        flat.zero_()
    elif mode < 0.16:
        flat.fill_(1.0)
    return flat.reshape(shape).clone()


def _random_setter(rng, c, tick, smax):
    """A setter call that keeps the configuration inside the property's quantifier, or one the
    setter must refuse (clear of the floating-point boundary unless everything is dyadic)."""
    exact = tick in DYADIC_TICKS
    ops = ["set_steps", "set_steps", "set_dt", "set_freq"]
    if c["kind"] == "exp":
        ops += ["set_refrac", "set_refrac", "set_refrac", "set_comp"]
    a = rng.choice(ops)
    if a == "set_steps":
        return {"a": a, "n": rng.randint(1, smax) if rng.random() < 0.9 else 0}
    if a == "set_dt":
        cands = [d for d in (1, 2, 4) if (c["derive"] or c["r"] % d == 0)
                 and (not (c["comp"] and c["derive"]) or d < c["M"])]
        if not cands or rng.random() < 0.05:
            return {"a": a, "D": 0}
        return {"a": a, "D": rng.choice(cands)}
    if a == "set_freq":
        if rng.random() < 0.05:
            return {"a": a, "M": -1}
        lo = 1
        if c["comp"]:
            # accepted iff r < M; stay off the boundary unless exact
            if rng.random() < 0.2 and c["r"] >= 2:
                return {"a": a, "M": rng.randint(1, c["r"] - 1)}           # must be refused
            lo = c["r"] + 1
        return {"a": a, "M": rng.randint(lo, lo + 6 * c["D"])}
    if a == "set_refrac":
        if rng.random() < 0.3:
            r, eff = -1, c["D"]
        else:
            eff = r = c["D"] * rng.choice([0, 1, 1, 2, 2, 3, 4])
        if rng.random() < 0.04:
            return {"a": a, "r": -2}
        if c["comp"] and eff == c["M"] and not (exact and _pow2(c["M"])):
            return {"a": a, "r": 0}          # frequency * refrac == 1000 only decidable when exact
        return {"a": a, "r": r}
    if a == "set_comp":
        b = rng.random() < 0.6
        if b and c["r"] == c["M"] and not (exact and _pow2(c["M"])):
            b = False
        return {"a": a, "b": b}
    raise KeyError(a)


def _pow2(n):
    return n >= 1 and (n & (n - 1)) == 0


def random_trace(rng, idx, seed, smax):
    kind = rng.choice(["exp", "exp", "exp", "bern", "pint"])
    tick = rng.choice(TICKS)
    D = rng.choice([1, 2, 2, 4])
    S = rng.randint(1, smax)
    hdr = {"kind": kind, "S": S, "D": D, "r": 0, "M": 1, "comp": False, "tick": tick, "seed": seed * 100003 + idx}
    if kind == "exp":
        k = rng.choice([None, None, 0, 1, 1, 2, 2, 3, 4])
        r_eff = D if k is None else k * D
        hdr["r"] = -1 if k is None else k * D
        hdr["comp"] = rng.random() < 0.5
        if hdr["comp"]:
            hdr["M"] = r_eff + rng.randint(1, 4 * D)
        else:
            hdr["M"] = rng.randint(1, 6 * D)
    else:
        hdr["M"] = rng.randint(1, 6 * D)
    impl = EncoderImpl(hdr, with_gen=True)
    tgen = torch.Generator().manual_seed(hdr["seed"] + 7)
    shape = rng.choice(SHAPES)
    xs = [_random_input(rng, tgen, shape) for _ in range(rng.randint(1, 3))]
    xids = [impl.add_input(x) for x in xs]
    init = impl.project()
    evs = []
    st = init
    done = []   # (gen-before, xid, online) of encodes, for the reproducibility re-runs
    n_ev = rng.randint(5, 9)
    for _ in range(n_ev):
        c = st["cfg"]
        u = rng.random()
        if done and u < 0.2 and _sane(c):
            g0, xid, online = rng.choice(done)
            op = {"a": "restore_gen", "g": g0}
            ret = impl.apply(op)
            st = impl.project()
            evs.append({"op": op, "ret": ret, "st": st})
            op = _encode_op(impl, xid, online)
        elif u < 0.7 and _sane(c):
            xid = rng.choice(xids)
            online = rng.random() < 0.5
            op = _encode_op(impl, xid, online)
            done.append((st["gen"], xid, online))
        else:
            op = _random_setter(rng, c, tick, smax)
        ret = impl.apply(op)
        st = impl.project()
        evs.append({"op": op, "ret": ret, "st": st})
        if impl.broken or (ret.get("t") == "err" and ret.get("e") != "ValueError"):
            break      # after an unspecified exception the object's state is not examined further
    hdr_out = {"init": init, "cfg": hdr, "waive": [], "inputs": [x.reshape(-1).tolist() for x in xs],
               "shape": list(shape)}
    return {"hdr": hdr_out, "ev": evs}


def inhom_trace(rng, idx, seed):
    """the functional inhomogeneous_poisson_bernoulli_approx: per-step rates (zero / fractional / saturating), a few
    encodes and reproducibility re-runs from a restored generator state"""
    from ..impl_encoder import InhomImpl
    tick = rng.choice(TICKS)
    D = rng.choice([1, 2, 4])
    hdr = {"kind": "bern", "S": 1, "D": D, "r": 0, "M": rng.randint(1, 6 * D), "comp": False, "tick": tick,
           "seed": seed * 100003 + 50000 + idx, "function": "inhomogeneous_poisson_bernoulli_approx"}
    impl = InhomImpl(hdr)
    tgen = torch.Generator().manual_seed(hdr["seed"] + 7)
    steps = rng.randint(2, 9)
    shape = (steps,) + tuple(rng.choice(SHAPES))
    xs = [_random_input(rng, tgen, shape) for _ in range(2)]
    xids = [impl.add_input(x) for x in xs]
    init = impl.project()
    evs, done, st = [], [], init
    for _ in range(rng.randint(3, 6)):
        if done and rng.random() < 0.4:
            g0, xid = rng.choice(done)
            op = {"a": "restore_gen", "g": g0}
            ret = impl.apply(op)
            st = impl.project()
            evs.append({"op": op, "ret": ret, "st": st})
            op = _encode_op(impl, xid, False)
        else:
            xid = rng.choice(xids)
            op = _encode_op(impl, xid, False)
            done.append((st["gen"], xid))
        ret = impl.apply(op)
        st = impl.project()
        evs.append({"op": op, "ret": ret, "st": st})
    return {"hdr": {"init": init, "cfg": hdr, "waive": [], "inputs": [x.reshape(-1).tolist() for x in xs],
                    "shape": list(shape)}, "ev": evs}


def _encode_op(impl, xid, online):
    x = impl.inputs[xid - 1]
    return {"a": "encode", "online": online, "xid": xid, "xshape": list(x.shape), "xc": impl.classes(x)}


def _signature(trace, r):
    ev = r["event"]
    kind = trace["hdr"]["cfg"]["kind"]
    diag = r["diag"] or {}
    clauses = sorted(diag.get("clauses", [])) or ["NoSchedule"]
    op = ev["op"]
    sig = {"clause": "+".join(clauses), "op": op["a"], "kind": kind}
    if trace["hdr"]["cfg"].get("function"):
        sig["function"] = trace["hdr"]["cfg"]["function"]
    if op["a"] == "encode":
        sig["site"] = f"{SITE[kind]}.forward"
        sig["online"] = bool(op["online"])
        if ev["ret"].get("t") == "err":
            sig["raised"] = ev["ret"].get("e")
    else:
        sig["site"] = f"{SITE[kind]}.{op['a']}"
        sig["raised"] = ev["ret"].get("e", "-")
        sig["arg_none"] = (op.get("r") == -1)
    return sig


def validate(chk: Check, traces, site, report=True, shards=16):
    stats, rej = tracecheck.validate("EncoderTrace", traces, shards=shards, dfs=True)
    if report:
        chk.traces += len(traces)
        chk.transitions += stats["generated"]
        chk.states += stats["distinct"]
        nev = 0
        for ti, t in enumerate(traces):
            for li, e in enumerate(t["ev"]):
                nev += 1
                if e["op"]["a"] == "encode" and e["ret"].get("t") == "ras":
                    for ei, ras in enumerate(e["ret"]["r"]):
                        if sum(ras) >= 1:
                            chk.nontrivial.add((ti, li, ei))
        chk.evaluations += nev
        chk.extra["trace_events"] = chk.extra.get("trace_events", 0) + nev
        chk.note(f"traces[{site}]: {len(traces)} traces, {nev} events, rejected lines={len(rej)}, "
                 f"TLC {stats['distinct']} states, wall {stats['wall']:.1f}s")
        for r in rej:
            t = traces[r["trace"]]
            sig = _signature(t, r)
            rep = {"hdr": {k: v for k, v in t["hdr"].items() if k != "waive"}, "events": t["ev"][: r["line"]],
                   "line": r["line"], "diag": r["diag"]}
            chk.violation(sig, rep)
    return stats, rej


def canaries(chk: Check):
    """Real executions with one corrupted observation each must be rejected at that line with
    the right clause; the untouched execution must be accepted."""
    hdr = {"kind": "exp", "S": 10, "D": 2, "r": 4, "M": 6, "comp": False, "tick": 0.5, "seed": 11}
    impl = EncoderImpl(hdr, with_gen=True)
    xid = impl.add_input(torch.tensor([[0.0, 1.0, 1.0]]))
    init = impl.project()
    evs = []
    for online in (False, True):
        op = _encode_op(impl, xid, online)
        ret = impl.apply(op)
        evs.append({"op": op, "ret": ret, "st": impl.project()})
    good = {"hdr": {"init": init, "cfg": hdr, "waive": []}, "ev": evs}
    if any(e["ret"].get("t") != "ras" for e in evs):
        # the implementation cannot produce the canary's base execution: that is reported by the
        # random traces as a violation; the canary falls back on a fabricated accepted execution
        for e, g in zip(evs, (2, 3)):
            e["ret"] = {"t": "ras", "n": 10, "shape": [1, 3], "dty": "bool",
                        "r": [[0] * 10, [0, 0, 1, 0, 0, 1, 0, 0, 0, 1], [0] * 10]}
            e["st"] = {"cfg": init["cfg"], "gen": g}
    bads = []
    b = copy.deepcopy(good)                       # spike at zero intensity
    b["ev"][0]["ret"]["r"][0][3] = 1
    bads.append((b, 1, "SilentAtZero"))
    b = copy.deepcopy(good)                       # two spikes one step apart, refrac = 2 steps
    ras = [0] * 10
    ras[4] = ras[5] = 1
    b["ev"][1]["ret"]["r"][1] = ras
    bads.append((b, 2, "MinGap"))
    b = copy.deepcopy(good)                       # one slice missing
    b["ev"][0]["ret"]["n"] = 9
    b["ev"][0]["ret"]["r"] = [x[:9] for x in b["ev"][0]["ret"]["r"]]
    bads.append((b, 1, "Length"))
    b = copy.deepcopy(good)                       # offline: first spike before the refractory period
    ras = [0] * 10
    ras[1] = 1
    b["ev"][0]["ret"]["r"][2] = ras
    bads.append((b, 1, "NoSchedule"))
    b = copy.deepcopy(good)                       # same generator state, different raster
    b["ev"].append({"op": {"a": "restore_gen", "g": init["gen"]}, "ret": {"t": "ok"}, "st": init})
    e3 = copy.deepcopy(b["ev"][0])
    e3["ret"]["r"][1] = [0] * 10 if sum(e3["ret"]["r"][1]) else [0, 0, 1] + [0] * 7
    b["ev"].append(e3)
    bads.append((b, 4, "Reproducible"))
    stats, rej = tracecheck.validate("EncoderTrace", [good] + [x[0] for x in bads], shards=2, dfs=True,
                                     max_waive_rounds=1)
    got = {(r["trace"], r["line"]): sorted((r["diag"] or {}).get("clauses", [])) or ["NoSchedule"] for r in rej}
    if any(t == 0 for t, _ in got):
        raise MachineryFailure(f"canary: the untouched execution was rejected: {got}")
    for i, (_, line, clause) in enumerate(bads, start=1):
        if (i, line) not in got or clause not in got[(i, line)]:
            raise MachineryFailure(f"canary: corrupted trace {i} ({clause} at line {line}) was not rejected as such: {got}")
    chk.extra["canary_traces_rejected"] = [c for _, _, c in bads]
    chk.note(f"canary: {len(bads)} corrupted executions rejected with the expected clauses, the clean one accepted")


# --------------------------------------------------------------------------- tightness
def tightness(chk: Check, seed: int, reps: int):
    """TLC emits the complete set of rasters the schedules of a tiny configuration can produce;
    the rasters of the real encoder over many seeds must lie inside it (violation otherwise) and
    the share of the allowed set that was actually seen is reported (information only: a raster
    the implementation never shows is no violation of C19)."""
    base = dict(S=4, D=2, r=2, M=4, comp=False)
    consts = dict(KindSet={"exp", "bern", "pint"}, SSet={base["S"]}, DSet={base["D"]}, RSet={base["r"]},
                  MSet={base["M"]}, CompSet={False}, OnSet={True, False}, OnlySane=True)
    res = tlc.run("EncoderMC", tlc.cfg_text(constants=consts, invariants=["EmitFinal"]), workers=1, timeout=900)
    if not res.ok:
        raise MachineryFailure(f"TLC run tightness failed: {res.out[-2000:]}")
    chk.add_tlc("emit-final-rasters", res)
    allowed: dict = {}
    for rec in res.printed():
        if isinstance(rec, dict) and "ras" in rec:
            allowed.setdefault((rec["cfg"]["kind"], bool(rec["on"]), rec["xc"]), set()).add(tuple(rec["ras"]))
    report = {}
    for kind in ("exp", "bern", "pint"):
        impl = EncoderImpl(dict(base, kind=kind, tick=0.5, seed=seed + 17, r=base["r"] if kind == "exp" else 0))
        x = torch.cat([torch.ones(1, 120), torch.zeros(1, 8), torch.full((1, 120), 0.5), torch.full((1, 8), 1e-12)], 1)
        xid = impl.add_input(x)
        cls = impl.classes(x)
        for online in (False, True):
            seen: dict = {}
            for _ in range(reps):
                ret = impl.apply({"a": "encode", "online": online, "xid": xid})
                if ret.get("t") != "ras" or len(ret["r"]) != len(cls):
                    chk.violation({"clause": "EncodeTotal", "site": f"{SITE[kind]}.forward", "kind": kind,
                                   "online": online, "op": "encode"}, {"hdr": impl.hdr, "ret": ret})
                    break
                for c, ras in zip(cls, ret["r"]):
                    seen.setdefault(c, set()).add(tuple(ras))
                chk.evaluations += 1
            for c, rasters in seen.items():
                al = allowed.get((kind, online, c))
                if al is None:
                    raise MachineryFailure(f"tightness: TLC emitted no rasters for {(kind, online, c)}")
                extra = rasters - al
                if extra:
                    chk.violation({"clause": "NotInEmittedSet", "site": f"{SITE[kind]}.forward", "kind": kind,
                                   "online": online, "op": "encode"},
                                  {"hdr": impl.hdr, "class": c, "rasters_outside_the_specified_set": sorted(extra)[:5]})
                report[f"{kind}/{'online' if online else 'offline'}/{c}"] = f"{len(rasters & al)}/{len(al)}"
                for ras in rasters & al:
                    chk.nontrivial.add(("tight", kind, online, c, ras))
    chk.extra["allowed_rasters_seen"] = report
    chk.note("tightness (rasters seen / rasters the specification allows, S=4): " +
             ", ".join(f"{k}={v}" for k, v in sorted(report.items())))


# --------------------------------------------------------------------------- run
def silent_at_scale(chk: Check, calls: int):
    """SilentAtZero where it costs something to break: "never emits a spike for an input of zero intensity" over ~1.7e7
    Bernoulli draws per call (a comparison `u <= p` instead of `u < p` lets the draw u = 0.0, probability 2^-24 per
    float32 draw, spike at p = 0).  Every shipped encoder class, offline and online, fixed generator seeds."""
    from inferno import neural
    x = torch.zeros(1, 65536)
    x[0, ::4097] = 0.5                      # a few live elements: the train must not be silent altogether
    dead = x[0] == 0
    n = 0
    for cname, make in (("HomogeneousPoissonApproxEncoder", lambda g: neural.HomogeneousPoissonApproxEncoder(256, 1.0, 200.0, generator=g)),
                        ("HomogeneousPoissonEncoder", lambda g: neural.HomogeneousPoissonEncoder(64, 1.0, 200.0, generator=g)),
                        ("PoissonIntervalEncoder", lambda g: neural.PoissonIntervalEncoder(64, 1.0, 200.0, generator=g))):
        for k in range(calls if cname == "HomogeneousPoissonApproxEncoder" else 2):
            for online in (False, True):
                g = torch.Generator().manual_seed(k)
                try:
                    enc = make(g)
                    out = enc(x, online=online)
                    res = torch.stack(list(out)) if online else out
                except Exception as ex:
                    chk.violation({"clause": "Raised", "site": "silent-at-scale", "encoder": cname, "online": online,
                                   "exc": type(ex).__name__}, {"seed": k, "error": repr(ex)})
                    break
                n += int(res.numel())
                spurious = int(res[..., dead].sum())
                if spurious or not bool(res.any()):
                    chk.violation({"clause": "SilentAtZero" if spurious else "SilentAltogether", "site": "silent-at-scale",
                                   "encoder": cname, "online": online},
                                  {"seed": k, "spikes_of_zero_intensity_elements": spurious, "elements": 65536, "steps": int(res.shape[0])})
                    break
    chk.evaluations += 1
    chk.note(f"silent at zero, at scale: {n:.3g} draws of zero-intensity elements, every encoder class, offline and online")


def run(tier: str, seed: int) -> int:
    chk = Check(PID, tier, seed)
    rng = random.Random(seed)
    chk.extra["rule"] = ("MC: every schedule of every configuration of the bounded family; replay: one execution per "
                         "edge of the setter graph; traces: recorded encoder executions. Distinct non-trivial case = "
                         "a distinct (trace, encode event, element) whose logged raster contains at least one spike "
                         "and for which TLC found a schedule, or a distinct (configuration, setter call) executed on "
                         "a real encoder.")
    mc_runs(chk, tier)

    # ---- A: setter graphs on real encoders
    depth = 100     # the configuration space is finite: explored completely
    big = dict(svals=(1, 3, 5), rvals=(0, 1, 2, 3, 4, 8), mvals=(1, 2, 4, 8, 16)) if tier == "thorough" else {}
    graphs = [("exp", cfg_consts("exp", depth=depth, **big), [0.25, 0.5]),
              ("exp-derived-comp", cfg_consts("exp", derive0=True, comp0=True, depth=depth, **big), [0.5]),
              ("bern", cfg_consts("bern", R0=0, depth=depth), [0.25]),
              ("pint", cfg_consts("pint", R0=0, depth=depth), [0.5])]
    budget = 6000 if tier == "quick" else None
    first = None
    for name, consts, ticks in graphs:
        g = cfg_graph(chk, name, consts)
        first = first or (g, consts)
        for tick in ticks:
            replay_cfg_graph(chk, g, consts, tick, rng, budget)
    # canary for A: a deviating report must be noticed
    g, consts = first
    dev = lambda op, ret, st: (ret, dict(st, derive=not st["derive"]))
    stats, mism = replay_cfg_graph(chk, g, consts, 0.25, random.Random(1), 200, deviate=dev, report=False)
    if not mism:
        raise MachineryFailure("canary: deviating replay of the setter graph was accepted")
    chk.note(f"canary: deviating setter replay noticed ({len(mism)} mismatches)")

    # ---- B: recorded executions, schedule inferred by TLC
    ntr = 256 if tier == "quick" else 4000
    smax = 12 if tier == "quick" else 24
    traces = [random_trace(rng, i, seed, smax) for i in range(ntr)]
    traces += [inhom_trace(rng, i, seed) for i in range(24 if tier == "quick" else 300)]
    chk.sample({"kind": "trace", "hdr": traces[0]["hdr"]["cfg"], "first_events": traces[0]["ev"][:2]})
    validate(chk, traces, "random-executions", shards=8 if tier == "quick" else 16)
    enc = sum(1 for t in traces for e in t["ev"] if e["op"]["a"] == "encode")
    chk.extra["encode_events"] = enc
    chk.extra["reproducibility_reruns"] = sum(1 for t in traces for e in t["ev"] if e["op"]["a"] == "restore_gen")
    canaries(chk)
    tightness(chk, seed, 12 if tier == "quick" else 80)
    silent_at_scale(chk, 6 if tier == "quick" else 24)
    return chk.finish()


def _finish_replay(chk: Check) -> int:
    """Verdict of a replay without rewriting evidence/C19.json."""
    for v in chk.violations:
        print(f"VIOLATION property={PID} replay={v['path']}")
        print(f"  signature: {json.dumps(v['signature'], sort_keys=True)}")
    for h in chk.known_hits:
        print(f"KNOWN-FINDING: property={PID} {h['what']}")
    print(f"[{PID}] replay: {'still violated' if chk.violations else 'not reproduced on this tree'}")
    return 1 if chk.violations else 0


def replay(path: str) -> int:
    """Re-execute a recorded violation against the current tree."""
    doc = json.loads(open(path).read())
    rep = doc["replay"]
    chk = Check(PID, "replay", 0)
    if "events" not in rep:
        hdr = rep["hdr"]
        impl = EncoderImpl(hdr)
        for p in rep.get("path", []):
            impl.apply(p)
        if "op" not in rep:      # a state reached by replaying a path differed from the specified one
            st = impl.project()
            ok = graph.canon(st) == graph.canon(rep["expected_state"])
            print(f"[{PID}] replay path {rep.get('path')}: observed {st}; {'agrees' if ok else 'DISAGREES'} with the graph")
            if not ok:
                chk.violation(doc["signature"], rep)
            return _finish_replay(chk)
        op = rep["op"]
        ret, st = impl.apply(op), impl.project()
        ok = any(graph.canon(o["ret"]) == graph.canon(ret) and graph.canon(o["st"]) == graph.canon(st)
                 for o in rep["expected"])
        print(f"[{PID}] replay edge {op}: observed ret={ret} st={st}; {'agrees' if ok else 'DISAGREES'} with the table")
        if not ok:
            chk.violation(doc["signature"], rep)
        return _finish_replay(chk)
    hdr = rep["hdr"]
    impl = EncoderImpl(hdr["cfg"], with_gen=True)
    for x in hdr["inputs"]:
        impl.add_input(torch.tensor(x, dtype=torch.float32).reshape(hdr["shape"]))
    init = impl.project()
    evs = []
    for e in rep["events"]:
        op = dict(e["op"])
        if op["a"] == "encode":
            op = _encode_op(impl, op["xid"], op["online"])
        ret = impl.apply(op)
        evs.append({"op": op, "ret": ret, "st": impl.project()})
    validate(chk, [{"hdr": {"init": init, "cfg": hdr["cfg"], "waive": [], "inputs": hdr["inputs"],
                            "shape": hdr["shape"]}, "ev": evs}], "replay", shards=1)
    return _finish_replay(chk)
