"""C20 - numerical helpers are self-consistent: interp/extrap, distributions, ISI, metric.

T: NumericsMC runs the Needleman-Wunsch loop for every pair of trains and cost, the ISI scan
   for every raster and extrapolate-then-interpolate for every matching kernel pair, and
   checks: loop = recurrence = definition (minimum over all one-to-one assignments), metric
   laws (non-negativity, identity, symmetry, triangle over all third trains), documented
   bounds and short-cuts; ISI re-integration, padding and shape; kernel round trips and the
   linear-interpolation laws.  Three out-of-domain clauses must be refuted ("shows why").
A: every final state printed by TLC (distance table, interval table, kernel table) is
   evaluated on the real functions and compared exactly (dyadic inputs).
B: (distributions only, deliberately weak) the real inferno.stats functions are evaluated on
   dense grids, quantised and validated by TLC against the integer laws of DistTrace.
"""
from __future__ import annotations
import copy, json, random
from concurrent.futures import ThreadPoolExecutor
from ..core import Check, MachineryFailure
from .. import tlc, tracecheck
from .. import impl_numerics as im

PID = "C20"
INVS = ["VpLoopIsRecurrence", "VpMechIsAbs", "VpShortcuts", "VpNonNegative", "VpIdentity", "VpSymmetry", "VpBounds",
        "VpMonotoneInCost", "VpTriangle", "IsiScanIsAbs", "IsiMechIsAbs", "IsiShape", "IsiReintegrates", "IpExact",
        "IpRoundTrip", "LinBetween", "IpxRoundTrip"]
VSCALE = 12.0


def consts(tier):
    if tier == "quick":
        return dict(Machines={"vp", "isi", "ip", "ipx"}, TMax=4, NMax=3, Costs2={0, 1, 2, 4}, WithInf=True, Triples=True,
                    IsiT1=6, IsiT2=4, Vals={0, 12, 24}, Signed=True, DT=4)
    return dict(Machines={"vp", "isi", "ip", "ipx"}, TMax=5, NMax=3, Costs2={0, 1, 2, 4}, WithInf=True, Triples=True,
                IsiT1=7, IsiT2=6, Vals={0, 12, 24, 36}, Signed=True, DT=4)


def mc_start(tier: str):
    base = consts(tier)
    small = dict(base, Machines={"vp"}, NMax=2, Triples=False)
    runs = [("all-machines", base, INVS, None),
            # "TLC shows why": identity of indiscernibles fails at the infinite cost (documented warning)
            ("identity-at-infinite-cost", small, ["VpIdentityUnguarded"], "VpIdentityUnguarded"),
            # the linear extrapolations have no value at the end point they divide by
            ("linear-extrapolation-end-points", dict(base, Machines={"ip"}), ["IpDefinedEverywhere"], "IpDefinedEverywhere")]

    def one(item):
        name, c, invs, _ = item
        return tlc.run("NumericsMC", tlc.cfg_text(constants=c, invariants=invs), workers=4, timeout=3000)

    with ThreadPoolExecutor(max_workers=3) as ex:
        results = list(ex.map(one, runs))
    return runs, results


def mc_account(chk: Check, runs, results):
    for (name, c, invs, must), res in zip(runs, results):
        if must:
            if res.violated != [must]:
                raise MachineryFailure(f"MC canary {name}: TLC did not refute {must}: {res.out[-1500:]}")
            chk.note(f"mc {name}: refuted by TLC as expected")
            chk.extra.setdefault("mc_refuted_as_expected", []).append(name)
            continue
        if res.violated:
            chk.violation({"clause": "MC:" + ",".join(res.violated), "site": "spec", "config": name},
                          {"config": name, "tlc_tail": res.out[-4000:]})
        elif not res.ok:
            raise MachineryFailure(f"TLC run {name} did not complete: {res.out[-2000:]}")
        chk.add_tlc("mc:" + name, res)
        chk.note(f"mc {name}: {res.distinct} states, {res.generated} transitions, {res.wall:.1f}s")


def emit_tables(chk: Check, tier: str):
    res = tlc.run("NumericsMC", tlc.cfg_text(constants=consts(tier), invariants=["Emit"]), workers=1, timeout=3000)
    if not res.ok:
        raise MachineryFailure(f"TLC emission run failed: {res.out[-2000:]}")
    chk.add_tlc("emit:tables", res)
    t = {"vp": [], "isi": [], "ip": [], "ipx": []}
    for rec in res.printed():
        if isinstance(rec, dict) and len(rec) == 1:
            (k, v), = rec.items()
            if k in t:
                t[k].append(v)
    if not all(t.values()):
        raise MachineryFailure(f"emission incomplete: { {k: len(v) for k, v in t.items()} }")
    chk.note("emitted tables: " + ", ".join(f"{k}={len(v)}" for k, v in t.items()))
    return t


def replay_tables(chk: Check, t, rng, report=None, corrupt=False) -> int:
    hits = []

    def rep(site):
        def f(clause, detail):
            hits.append(clause)
            if report is None:
                chk.violation({"clause": clause, "site": site}, detail)
        return f

    n = 0
    groups = {}
    for r in t["vp"]:
        groups.setdefault((tuple(r["a"]), tuple(r["b"])), []).append(r)
    for (a, b), g in groups.items():
        if corrupt:
            g = [dict(g[0], d2=g[0]["d2"] + 1)] + g[1:]
        n += im.vp_check(g, rng.choice([1.0, 0.5, 2.0]), rep("inferno.victor_purpura_pair_dist"))
        if report is None:
            chk.nontrivial.add(("vp", a, b))
    for r in t["isi"]:
        if corrupt and r["width"] >= 1:
            r = dict(r, rows=[[(v + 1 if v >= 0 else v) for v in row] for row in r["rows"]])
        n += im.isi_check(r, rng.choice([1.0, 0.5, 0.25]), rep("inferno.isi"))
        if report is None:
            chk.nontrivial.add(("isi", json.dumps(r["ras"])))
    pairs = {}
    for r in t["ip"]:
        pairs.setdefault((r["i"], r["x"]), []).append(r)
    DT = 4
    for (i, x), recs in sorted(pairs.items()):
        if corrupt:
            recs = [dict(recs[0], val=recs[0]["val"] + 12)] + recs[1:]
        for tick in (0.25, 0.5):
            n += im.ip_check(recs, DT, tick, VSCALE, rep(f"interp_{i}/extrap_{x}"))
        if report is None:
            for r in recs:
                chk.nontrivial.add(("ip", i, x, r["sample"], r["prev"], r["next"], r["t"]))
    n += im.ipx_check(t["ipx"], DT, 0.25, rep("interp_exp*/extrap_exp*"))
    if report is None:
        chk.evaluations += n
        chk.traces += len(groups) + len(t["isi"]) + len(t["ip"]) + len(t["ipx"])   # TLC behaviours executed on the real functions
    return n if report is None else len(hits)


# --------------------------------------------------------------------------- distributions
def dist_traces(tier: str):
    rates = [0.0, 0.125, 0.5, 1.0, 2.5, 4.0, 6.0] if tier == "quick" else [0.0, 0.125, 0.25, 0.5, 1.0, 1.5, 2.5, 3.0, 4.0, 5.0, 6.0]
    norm = [(0.0, 1.0), (-1.5, 0.5), (2.0, 2.0), (0.25, 0.25)]
    lognorm = [(0.0, 0.5), (0.5, 0.25), (-0.5, 0.5), (0.0, 1.0)]
    if tier != "quick":
        norm += [(5.0, 4.0), (-0.75, 0.125), (1.0, 8.0)]
        lognorm += [(1.0, 0.25), (-1.0, 1.0), (0.25, 0.125)]
    hdr = lambda d: {"init": 0, "cfg": {"dist": d}, "waive": []}
    return [{"hdr": hdr("Poisson"), "ev": [im.poisson_event(r, 32) for r in rates]},
            {"hdr": hdr("Normal"), "ev": [im.cont_event("normal", l, s) for l, s in norm]},
            {"hdr": hdr("LogNormal"), "ev": [im.cont_event("lognormal", l, s) for l, s in lognorm]}]


def validate_dists(chk: Check, traces, report=True):
    stats, rej = tracecheck.validate("DistTrace", traces, shards=min(3, len(traces)))
    if report:
        chk.traces += len(traces)
        chk.states += stats["distinct"]
        chk.transitions += stats["generated"]
        nev = sum(len(t["ev"]) for t in traces)
        chk.evaluations += nev
        chk.note(f"distribution traces: {len(traces)} traces, {nev} parameter sets, rejected lines={len(rej)}")
        for t in traces:
            for e in t["ev"]:
                chk.nontrivial.add(("dist", json.dumps(e["op"], sort_keys=True)))
        for r in rej:
            t = traces[r["trace"]]
            diag = r["diag"] or {}
            errs = diag.get("errs") or []
            for clause in (sorted(diag.get("clauses", [])) or ["Unexplained"]):
                sig = {"clause": clause, "site": "inferno.stats." + t["hdr"]["cfg"]["dist"]}
                if clause == "Total":
                    sig["raised"] = "+".join(errs)
                ev = r["event"]
                small = {k: (v if not isinstance(v, list) or len(v) <= 40 else v[:40] + ["..."]) for k, v in ev["ret"].items()}
                chk.violation(sig, {"op": ev["op"], "ret": small, "diag": diag})
    return rej


def canary_dists(chk: Check, traces):
    base = next((copy.deepcopy(e) for e in traces[0]["ev"] if not e["ret"]["errs"]), None)
    if base is None:
        # the implementation cannot produce a clean Poisson event (reported above): fabricate
        # an exact one for rate 1
        import math
        p = [math.exp(-1) / math.factorial(k) for k in range(33)]
        c = [sum(p[: k + 1]) for k in range(33)]
        base = {"op": {"a": "poisson", "K": 32, "rate": 1.0},
                "ret": {"errs": [], "den": im._q(p), "eld": im._q(p), "cdf": im._q(c), "elc": im._q(c),
                        "mean": im.Q, "var": im.Q}, "st": 0}
    bad = copy.deepcopy(base)
    bad["ret"]["den"][2] += 60
    hdr = {"init": 0, "cfg": {"dist": "canary"}, "waive": []}
    stats, rej = tracecheck.validate("DistTrace", [{"hdr": dict(hdr), "ev": [base]}, {"hdr": dict(hdr), "ev": [bad]}],
                                     shards=1, max_waive_rounds=1)
    lines = {(r["trace"], r["line"]) for r in rej}
    if (0, 1) in lines or (1, 1) not in lines:
        raise MachineryFailure(f"canary: distribution laws accept a corrupted density / reject a clean one: {lines}")
    chk.note("canary: a density with one corrupted value is rejected by the distribution laws, the clean one accepted")


# --------------------------------------------------------------------------- run
def run(tier: str, seed: int) -> int:
    chk = Check(PID, tier, seed)
    rng = random.Random(seed)
    chk.extra["rule"] = ("MC: every state of the four machines (all pairs of trains x costs, all rasters, all kernel "
                         "pairs x values x times). Distinct non-trivial case = a distinct emitted final state (pair of "
                         "trains, raster, kernel-pair argument tuple) evaluated on the real function, or a distinct "
                         "distribution parameter set validated by TLC.")
    pool = ThreadPoolExecutor(max_workers=1)
    fut = pool.submit(mc_start, tier)
    t = emit_tables(chk, tier)
    replay_tables(chk, t, rng)
    chk.sample({"kind": "vp", "record": t["vp"][len(t["vp"]) // 2]})
    chk.sample({"kind": "isi", "record": t["isi"][-1]})
    chk.sample({"kind": "ip", "record": t["ip"][len(t["ip"]) // 3]})
    # canary for A: corrupted tables must disagree with the real functions
    nbad = replay_tables(chk, {k: v[:60] if k != "ip" else v for k, v in t.items()}, random.Random(1), report=False, corrupt=True)
    if nbad < 3:
        raise MachineryFailure("canary: corrupted tables were not noticed by the comparison with the real functions")
    chk.note(f"canary: corrupted distance / interval / kernel tables disagree with the real functions ({nbad} reports)")
    traces = dist_traces(tier)
    validate_dists(chk, traces)
    canary_dists(chk, traces)
    mc_account(chk, *fut.result())
    pool.shutdown()
    return chk.finish()


def replay(path: str) -> int:
    doc = json.loads(open(path).read())
    sig, rep = doc["signature"], doc["replay"]
    chk = Check(PID, "replay", 0)
    if sig["site"].startswith("inferno.stats"):
        op = rep["op"]
        ev = im.poisson_event(op["rate"], op["K"]) if op["a"] == "poisson" else im.cont_event(op["a"], op["loc"], op["scale"], op["n"], int(round(op["hd"] * op["scale"])), op["sub"])
        validate_dists(chk, [{"hdr": {"init": 0, "cfg": {"dist": sig["site"].split(".")[-1]}, "waive": []}, "ev": [ev]}])
    else:
        t = emit_tables(chk, "quick")
        replay_tables(chk, t, random.Random(0))
    for v in chk.violations:
        print(f"VIOLATION property={PID} replay={v['path']}\n  signature: {json.dumps(v['signature'], sort_keys=True)}")
    print(f"[{PID}] replay: {'still violated' if chk.violations else 'not reproduced on this tree'}")
    return 1 if chk.violations else 0
