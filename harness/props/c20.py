"""C20 - numerical helpers are self-consistent: interp/extrap, distributions, ISI, metric.

T: NumericsMC runs the Needleman-Wunsch loop for every pair of trains and cost, the ISI scan
   for every raster and extrapolate-then-interpolate for every matching kernel pair, and
   checks: loop = recurrence = definition (minimum over all one-to-one assignments), metric
   laws (non-negativity, identity, symmetry, triangle over all third trains), documented
   bounds and short-cuts; ISI re-integration, padding and shape; kernel round trips and the
   linear-interpolation laws.  Three out-of-domain clauses must be refuted ("shows why").
A: every final state printed by TLC (distance table, interval table, kernel table) is
   evaluated on the real functions and compared exactly (dyadic inputs).
B: (distributions only, deliberately weak) the real inferno.stats functions are evaluated on
   dense grids, quantised and validated by TLC against the integer laws of DistTrace.
"""
from __future__ import annotations
import copy, json, random
from concurrent.futures import ThreadPoolExecutor
from ..core import Check, MachineryFailure
from .. import tlc, tracecheck
from .. import impl_numerics as im
from .. import impl_mathfns as mf
from .. import impl_paths as ip

PID = "C20"
INVS = ["VpLoopIsRecurrence", "VpMechIsAbs", "VpShortcuts", "VpNonNegative", "VpIdentity", "VpSymmetry", "VpBounds",
        "VpMonotoneInCost", "VpTriangle", "IsiScanIsAbs", "IsiMechIsAbs", "IsiShape", "IsiReintegrates", "IpExact",
        "IpRoundTrip", "IpAdjustAnchors", "LinBetween", "IpxRoundTrip"]
VSCALE = 12.0


def consts(tier):
    if tier == "quick":
        return dict(Machines={"vp", "isi", "ip", "ipx"}, TMax=4, NMax=3, Costs2={0, 1, 2, 4}, WithInf=True, Triples=True,
                    IsiT1=6, IsiT2=4, Vals={0, 12, 24}, Signed=True, DT=4)
    return dict(Machines={"vp", "isi", "ip", "ipx"}, TMax=5, NMax=3, Costs2={0, 1, 2, 4}, WithInf=True, Triples=True,
                IsiT1=7, IsiT2=6, Vals={0, 12, 24, 36}, Signed=True, DT=4)


def mc_start(tier: str):
    base = consts(tier)
    small = dict(base, Machines={"vp"}, NMax=2, Triples=False)
    runs = [("all-machines", base, INVS, None),
            # "TLC shows why": identity of indiscernibles fails at the infinite cost (documented warning)
            ("identity-at-infinite-cost", small, ["VpIdentityUnguarded"], "VpIdentityUnguarded"),
            # the linear extrapolations have no value at the end point they divide by
            ("linear-extrapolation-end-points", dict(base, Machines={"ip"}), ["IpDefinedEverywhere"], "IpDefinedEverywhere")]

    def one(item):
        name, c, invs, _ = item
        return tlc.run("NumericsMC", tlc.cfg_text(constants=c, invariants=invs), workers=4, timeout=3000)

    with ThreadPoolExecutor(max_workers=3) as ex:
        results = list(ex.map(one, runs))
    return runs, results


def mc_account(chk: Check, runs, results):
    for (name, c, invs, must), res in zip(runs, results):
        if must:
            if res.violated != [must]:
                raise MachineryFailure(f"MC canary {name}: TLC did not refute {must}: {res.out[-1500:]}")
            chk.note(f"mc {name}: refuted by TLC as expected")
            chk.extra.setdefault("mc_refuted_as_expected", []).append(name)
            continue
        if res.violated:
            chk.violation({"clause": "MC:" + ",".join(res.violated), "site": "spec", "config": name},
                          {"config": name, "tlc_tail": res.out[-4000:]})
        elif not res.ok:
            raise MachineryFailure(f"TLC run {name} did not complete: {res.out[-2000:]}")
        chk.add_tlc("mc:" + name, res)
        chk.note(f"mc {name}: {res.distinct} states, {res.generated} transitions, {res.wall:.1f}s")


def emit_tables(chk: Check, tier: str):
    res = tlc.run("NumericsMC", tlc.cfg_text(constants=consts(tier), invariants=["Emit"]), workers=1, timeout=3000)
    if not res.ok:
        raise MachineryFailure(f"TLC emission run failed: {res.out[-2000:]}")
    chk.add_tlc("emit:tables", res)
    t = {"vp": [], "isi": [], "ip": [], "ipx": []}
    for rec in res.printed():
        if isinstance(rec, dict) and len(rec) == 1:
            (k, v), = rec.items()
            if k in t:
                t[k].append(v)
    if not all(t.values()):
        raise MachineryFailure(f"emission incomplete: { {k: len(v) for k, v in t.items()} }")
    chk.note("emitted tables: " + ", ".join(f"{k}={len(v)}" for k, v in t.items()))
    return t


def replay_tables(chk: Check, t, rng, report=None, corrupt=False) -> int:
    hits = []

    def rep(site):
        def f(clause, detail):
            hits.append(clause)
            if report is None:
                chk.violation({"clause": clause, "site": site}, detail)
        return f

    n = 0
    groups = {}
    for r in t["vp"]:
        groups.setdefault((tuple(r["a"]), tuple(r["b"])), []).append(r)
    for (a, b), g in groups.items():
        if corrupt:
            g = [dict(g[0], d2=g[0]["d2"] + 1)] + g[1:]
        n += im.vp_check(g, rng.choice([1.0, 0.5, 2.0]), rep("inferno.victor_purpura_pair_dist"))
        if report is None:
            chk.nontrivial.add(("vp", a, b))
    for r in t["isi"]:
        if corrupt and r["width"] >= 1:
            r = dict(r, rows=[[(v + 1 if v >= 0 else v) for v in row] for row in r["rows"]])
        n += im.isi_check(r, rng.choice([1.0, 0.5, 0.25]), rep("inferno.isi"))
        if report is None:
            chk.nontrivial.add(("isi", json.dumps(r["ras"])))
    pairs = {}
    for r in t["ip"]:
        pairs.setdefault((r["i"], r["x"], r["adj"]), []).append(r)
    DT = 4
    for (i, x, adj), recs in sorted(pairs.items()):
        if corrupt:
            recs = [dict(recs[0], val=recs[0]["val"] + 12)] + recs[1:]
        site = f"interp_{i}/extrap_{x}" + (f"(adjust={adj})" if adj != "id" else "")
        for tick in (0.25, 0.5):
            n += im.ip_check(recs, DT, tick, VSCALE, rep(site))
            n += im.ip_record_check(recs, DT, tick, VSCALE, rep(site))
        if report is None:
            for r in recs:
                chk.nontrivial.add(("ip", i, x, adj, r["sample"], r["prev"], r["next"], r["t"]))
    n += im.ipx_check(t["ipx"], DT, 0.25, rep("interp_exp*/extrap_exp*"))
    if report is None:
        chk.evaluations += n
        chk.traces += len(groups) + len(t["isi"]) + len(t["ip"]) + len(t["ipx"])   # TLC behaviours executed on the real functions
    return n if report is None else len(hits)


# --------------------------------------------------------------------------- distributions
def dist_traces(tier: str):
    """Parameter sets include every boundary of the documented valid domains: rate 0 (pmf is the
    point mass at 0), support 0 and the far end, the smallest / largest scales the float32 grid can
    carry, locations far from 0; each set is evaluated with scalar parameters and, once per trace,
    with tensor parameters mixing the degenerate and the regular sets."""
    rates = [0.0, 0.125, 0.5, 1.0, 2.5, 4.0, 6.0] if tier == "quick" else [0.0, 0.001, 0.125, 0.25, 0.5, 1.0, 1.5, 2.5, 3.0, 4.0, 5.0, 6.0]
    norm = [(0.0, 1.0), (-1.5, 0.5), (2.0, 2.0), (0.25, 0.25), (0.0, 2.0 ** -10), (0.0, 1024.0), (-100.0, 64.0)]
    lognorm = [(0.0, 0.5), (0.5, 0.25), (-0.5, 0.5), (0.0, 1.0), (0.0, 2.0 ** -5), (-3.0, 0.25),
               # narrow log-normals: exp(scale^2) - 1 must not be computed by subtraction in float32
               (0.0, 0.003), (0.5, 0.001), (0.0, 2.0 ** -9)]
    if tier != "quick":
        norm += [(5.0, 4.0), (-0.75, 0.125), (1.0, 8.0), (0.0, 2.0 ** -16), (3.0, 0.5)]
        lognorm += [(1.0, 0.25), (-1.0, 1.0), (0.25, 0.125), (2.0, 2.0 ** -4)]
    hdr = lambda d: {"init": 0, "cfg": {"dist": d}, "waive": []}
    return [{"hdr": hdr("Poisson"), "ev": im.poisson_events(rates, 32)},
            {"hdr": hdr("Normal"), "ev": im.cont_events("normal", norm)},
            {"hdr": hdr("LogNormal"), "ev": im.cont_events("lognormal", lognorm)}]


def validate_dists(chk: Check, traces, report=True):
    stats, rej = tracecheck.validate("DistTrace", traces, shards=min(3, len(traces)))
    if report:
        chk.traces += len(traces)
        chk.states += stats["distinct"]
        chk.transitions += stats["generated"]
        nev = sum(len(t["ev"]) for t in traces)
        chk.evaluations += nev
        chk.note(f"distribution traces: {len(traces)} traces, {nev} parameter sets, rejected lines={len(rej)}")
        for t in traces:
            for e in t["ev"]:
                chk.nontrivial.add(("dist", json.dumps(e["op"], sort_keys=True)))
        for r in rej:
            t = traces[r["trace"]]
            diag = r["diag"] or {}
            errs = diag.get("errs") or []
            for clause in (sorted(diag.get("clauses", [])) or ["Unexplained"]):
                sig = {"clause": clause, "site": "inferno.stats." + t["hdr"]["cfg"]["dist"]}
                if clause == "Total":
                    sig["raised"] = "+".join(errs)
                ev = r["event"]
                small = {k: (v if not isinstance(v, list) or len(v) <= 40 else v[:40] + ["..."]) for k, v in ev["ret"].items()}
                chk.violation(sig, {"op": ev["op"], "ret": small, "diag": diag})
    return rej


def canary_dists(chk: Check, traces):
    import math
    # an exact Poisson(1) table: independent of the implementation under test
    p = [math.exp(-1) / math.factorial(k) for k in range(33)]
    c = [sum(p[: k + 1]) for k in range(33)]
    qz = lambda xs: [int(round(x * im.Q)) for x in xs]
    base = {"op": {"a": "poisson", "K": 32, "rate": 1.0},
            "ret": {"errs": [], "nonfinite": [], "den": qz(p), "eld": qz(p), "cdf": qz(c), "elc": qz(c), "denb": qz(p),
                    "cdfb": qz(c), "mean": im.Q, "meanb": im.Q, "var": im.Q}, "st": 0}
    bad = copy.deepcopy(base)
    bad["ret"]["den"][2] += 60
    bad["ret"]["denb"][2] += 60
    nanev = copy.deepcopy(base)
    nanev["ret"]["nonfinite"] = ["pmf"]
    nanev["ret"]["den"][0] = 0
    hdr = {"init": 0, "cfg": {"dist": "canary"}, "waive": []}
    stats, rej = tracecheck.validate("DistTrace", [{"hdr": dict(hdr), "ev": [base]}, {"hdr": dict(hdr), "ev": [bad]},
                                                   {"hdr": dict(hdr), "ev": [nanev]}], shards=1, max_waive_rounds=1)
    got = {r["trace"]: sorted((r["diag"] or {}).get("clauses", [])) for r in rej}
    if 0 in got or 1 not in got or got.get(2) != ["Finite"]:
        raise MachineryFailure(f"canary: distribution laws accept a corrupted / non-finite density or reject a clean one: {got}")
    chk.note("canary: a corrupted density and a NaN observation are rejected by the distribution laws (DensitySumsToCdf.., Finite), the clean table accepted")


# --------------------------------------------------------------------------- extension: MathFns
MF_INVS = ["MechInAbs", "BagLaws", "GeoLaws", "GridLaws", "RescLaws", "NormLaws", "SmoothIsClosedForm", "HoltLaws", "KernLaws"]


def mf_consts(tier):
    if tier == "quick":
        return dict(Machines={"bag", "geo", "grid", "resc", "sm", "kern"}, Vals={0, 1, 3}, LMax=3, GLen=3, SmLen=3, RBounds={0, 2})
    return dict(Machines={"bag", "geo", "grid", "resc", "sm", "kern"}, Vals={0, 1, 3}, LMax=4, GLen=4, SmLen=4, RBounds={0, 1, 2})


def mf_start(tier):
    return tlc.run("MathFnsMC", tlc.cfg_text(constants=mf_consts(tier), invariants=MF_INVS), workers=4, timeout=3000)


def mf_tables(chk: Check, tier: str):
    res = tlc.run("MathFnsMC", tlc.cfg_text(constants=mf_consts(tier), invariants=["Emit"]), workers=1, timeout=3000)
    if not res.ok:
        raise MachineryFailure(f"TLC emission run (MathFns) failed: {res.out[-2000:]}")
    chk.add_tlc("emit:mathfns", res)
    t = {k: [] for k in ("bag", "geo", "grid", "resc", "sm", "kern")}
    for rec in res.printed():
        if isinstance(rec, dict) and len(rec) == 1:
            (k, v), = rec.items()
            if k in t:
                t[k].append(v)
    if not all(t.values()):
        raise MachineryFailure(f"MathFns emission incomplete: { {k: len(v) for k, v in t.items()} }")
    chk.note("emitted MathFns tables: " + ", ".join(f"{k}={len(v)}" for k, v in t.items()))
    return t


def mf_replay(chk: Check, t, report=True, corrupt=False) -> int:
    hits = []

    def rep(site):
        def f(clause, detail):
            hits.append(clause)
            if report:
                chk.violation({"clause": clause, "site": site, "family": "MathFns"}, detail)
        return f

    n = 0
    red = rep("inferno.functional (dimension reductions)")
    for i, r in enumerate(t["bag"]):
        if corrupt and i == len(t["bag"]) // 2:
            r = dict(r, res=dict(r["res"], mean=[[n_ + d_, d_] if d_ else [1, 1] for n_, d_ in r["res"]["mean"]]))
        n += mf.bag_check(r, i, red)
    for i, r in enumerate(t["geo"]):
        n += mf.geo_check(r, i, red)
    for i, r in enumerate(t["grid"]):
        if corrupt and i == 3:
            r = dict(r, shape0=r["shape1"], shape1=r["shape0"])
        n += mf.grid_check(r, i, red)
    resc = rep("inferno.rescale / inferno.normalize")
    prev = {}
    for i, r in enumerate(t["resc"]):
        if corrupt and i == 7:
            r = dict(r, out=[[a + b, b] if b else [1, 1] for a, b in r["out"]])
        n += mf.resc_check(r, i, resc)
        key = (len(r["b"]), r["rmin"], r["rmax"], r["smin"], r["smax"])
        if key in prev and i % 5 == 0:
            n += mf.resc_rows_check(prev[key], r, resc)
        prev[key] = r
    sm = rep("inferno.exponential_smoothing / holt_linear_smoothing")
    for i, r in enumerate(t["sm"]):
        if corrupt and i == 11:
            r = dict(r, hlevel=r["hlevel"] + 16)
        n += mf.sm_check(r, sm)
    for r in t["kern"]:
        n += mf.kern_check(r, rep("inferno.functional (spike-time kernels)"))
    if report:
        n += mf.documented_argument_forms(rep("inferno.functional (quantile family)"))
        chk.evaluations += n
        chk.traces += sum(len(v) for v in t.values())
        for k, v in t.items():
            for r in v:
                chk.nontrivial.add(("mf", k, json.dumps(r.get("b", r.get("g", r.get("x", r.get("d")))), sort_keys=True),
                                    json.dumps([r.get(z) for z in ("axes", "rmin", "rmax", "smin", "smax", "a4", "b4")])))
    return len(hits)


def mathfns_phase(chk: Check, tier: str, fut):
    t = mf_tables(chk, tier)
    mf_replay(chk, t)
    if mf_replay(chk, {k: v[:40] for k, v in t.items()}, report=False, corrupt=True) < 4:
        raise MachineryFailure("canary: corrupted MathFns tables were not noticed")
    chk.note("canary: corrupted reduction / shape / rescale / smoothing tables disagree with the real functions")
    chk.sample({"kind": "mathfns-bag", "record": {"b": t["bag"][-1]["b"], "res": t["bag"][-1]["res"]}})
    res = fut.result()
    if res.violated:
        chk.violation({"clause": "MC:" + ",".join(res.violated), "site": "spec", "config": "mathfns"}, {"tlc_tail": res.out[-4000:]})
    elif not res.ok:
        raise MachineryFailure(f"TLC run mathfns did not complete: {res.out[-2000:]}")
    chk.add_tlc("mc:mathfns", res)
    chk.note(f"mc mathfns: {res.distinct} states, {res.generated} transitions, {res.wall:.1f}s")


# --------------------------------------------------------------------------- extension: PathAlgebra
PA_INVS = ["TypeOK", "RealignResolves", "RefusedExactlyWhen", "AliasesAgree"]


def pa_consts(tier):
    return dict(PLen=2 if tier == "quick" else 3, PLenLater=1 if tier == "quick" else 2)


def pa_start(tier):
    return tlc.run("PathAlgebraMC", tlc.cfg_text(constants=pa_consts(tier), invariants=PA_INVS), workers=2, timeout=3000)


def paths_phase(chk: Check, tier: str, fut):
    res = tlc.run("PathAlgebraMC", tlc.cfg_text(constants=pa_consts(tier), invariants=["Emit"]), workers=1, timeout=3000)
    if not res.ok:
        raise MachineryFailure(f"TLC emission run (PathAlgebra) failed: {res.out[-2000:]}")
    recs = [r for r in res.printed() if isinstance(r, dict) and "table" in r]
    if len(recs) != res.distinct:
        raise MachineryFailure(f"PathAlgebra: {len(recs)} registries printed, TLC reports {res.distinct}")
    chk.add_tlc("emit:paths", res)

    def report(clause, detail):
        chk.violation({"clause": clause, "site": "Cell.realign_attribute / Layer._realign_attribute", "family": "PathAlgebra"}, detail)

    ns, ne, nc = ip.replay(recs, report)
    chk.evaluations += ne + nc
    chk.traces += ns
    for r in recs:
        for case in r["table"]:
            chk.nontrivial.add(("pa", json.dumps(r["s"], sort_keys=True), case["c"], case["n"], ".".join(case["p"])))
    chk.note(f"PathAlgebra: {ns} registries rebuilt on a real Layer, {ne} registry operations, {nc} (cell, path) cases realigned and resolved")
    hits = []
    ip.replay(recs[:1], lambda c, d: hits.append(c), corrupt=True)
    if "Realign" not in hits:
        raise MachineryFailure("canary: a corrupted realigned path was not noticed")
    chk.note("canary: a corrupted realigned path disagrees with the real Cell")
    chk.sample({"kind": "realign", "case": recs[0]["table"][7]})
    mcres = fut.result()
    if mcres.violated:
        chk.violation({"clause": "MC:" + ",".join(mcres.violated), "site": "spec", "config": "paths"}, {"tlc_tail": mcres.out[-4000:]})
    elif not mcres.ok:
        raise MachineryFailure(f"TLC run paths did not complete: {mcres.out[-2000:]}")
    chk.add_tlc("mc:paths", mcres)
    chk.note(f"mc paths: {mcres.distinct} states, {mcres.generated} transitions, {mcres.wall:.1f}s")


# --------------------------------------------------------------------------- run
def run(tier: str, seed: int) -> int:
    chk = Check(PID, tier, seed)
    rng = random.Random(seed)
    chk.extra["rule"] = ("MC: every state of the four machines (all pairs of trains x costs, all rasters, all kernel "
                         "pairs x values x times). Distinct non-trivial case = a distinct emitted final state (pair of "
                         "trains, raster, kernel-pair argument tuple) evaluated on the real function, or a distinct "
                         "distribution parameter set validated by TLC.")
    pool = ThreadPoolExecutor(max_workers=3)
    fut = pool.submit(mc_start, tier)
    fut_mf = pool.submit(mf_start, tier)
    fut_pa = pool.submit(pa_start, tier)
    chk.extra["kernel_keyword_arguments"] = im.signature_guard()
    t = emit_tables(chk, tier)
    replay_tables(chk, t, rng)
    chk.sample({"kind": "vp", "record": t["vp"][len(t["vp"]) // 2]})
    chk.sample({"kind": "isi", "record": t["isi"][-1]})
    chk.sample({"kind": "ip", "record": t["ip"][len(t["ip"]) // 3]})
    # canary for A: corrupted tables must disagree with the real functions
    nbad = replay_tables(chk, {k: v[:60] if k != "ip" else v for k, v in t.items()}, random.Random(1), report=False, corrupt=True)
    if nbad < 3:
        raise MachineryFailure("canary: corrupted tables were not noticed by the comparison with the real functions")
    chk.note(f"canary: corrupted distance / interval / kernel tables disagree with the real functions ({nbad} reports)")
    traces = dist_traces(tier)
    validate_dists(chk, traces)
    canary_dists(chk, traces)
    mc_account(chk, *fut.result())
    mathfns_phase(chk, tier, fut_mf)
    paths_phase(chk, tier, fut_pa)
    pool.shutdown()
    return chk.finish()


def replay(path: str) -> int:
    doc = json.loads(open(path).read())
    sig, rep = doc["signature"], doc["replay"]
    chk = Check(PID, "replay", 0)
    if sig["site"].startswith("inferno.stats"):
        op = rep["op"]
        ev = im.poisson_events([op["rate"], 1.0], op["K"])[0] if op["a"] == "poisson" else im.cont_events(op["a"], [(op["loc"], op["scale"]), (0.0, 1.0)])[0]
        validate_dists(chk, [{"hdr": {"init": 0, "cfg": {"dist": sig["site"].split(".")[-1]}, "waive": []}, "ev": [ev]}])
    else:
        t = emit_tables(chk, "quick")
        replay_tables(chk, t, random.Random(0))
    for v in chk.violations:
        print(f"VIOLATION property={PID} replay={v['path']}\n  signature: {json.dumps(v['signature'], sort_keys=True)}")
    print(f"[{PID}] replay: {'still violated' if chk.violations else 'not reproduced on this tree'}")
    return 1 if chk.violations else 0
