"""Extension of the C09 check: the MAGNITUDE of LinearHomeostasis (spec/HomeoCore.tla, HomeoMC.tla, harness/impl_homeo.py).
C09 decides how the trainer's update is split into LTP / LTD parts; this phase decides what the update is: the documented
lambda (r* - r) / r* per postsynaptic neuron with r the cumulative average of the observed spikes, for weight, bias and delay
(sign reversed), default and per-call targets, clears and evaluation mode.  Every edge of the emitted graphs is executed on
a real trainer."""
from __future__ import annotations
import random
from ..core import Check, MachineryFailure
from .. import tlc, graph

INV = ["TypeOK", "RateInv", "FoldExact", "Refinement", "SignInv", "Frame"]


def run_homeo(chk: Check, rng: random.Random, thorough: bool):
    from ..impl_homeo import HomeoImpl
    tot = 0
    first = None
    for param in ("weight", "bias", "delay"):
        for deft in ((2, 4) if thorough else (2,)):
            c = dict(O=2, Param=param, DefTinv=deft, T=6 if thorough else 4, Tinvs={2, 4} - {deft}, MaxOther=3 if thorough else 2)
            res = tlc.run("HomeoMC", tlc.cfg_text(constants=c, invariants=INV), workers=4, timeout=3000)
            if res.violated:
                chk.violation({"clause": "MC:" + ",".join(res.violated), "site": "spec:Homeo", "param": param},
                              {"tlc_tail": res.out[-4000:], "extension": "Homeo"})
                continue
            if not res.ok:
                raise MachineryFailure(f"HomeoMC did not complete: {res.out[-2000:]}")
            chk.add_tlc(f"mc:homeo-{param}-{deft}", res)
            gc = dict(c, T=4 if thorough else 3)
            gres = tlc.run("HomeoMC", tlc.cfg_text(constants=gc, invariants=["Emit"]), workers=1, timeout=3000)
            if not gres.ok:
                raise MachineryFailure(f"Homeo generation failed: {gres.out[-2000:]}")
            g = graph.Graph.from_lines(gres.printed())
            if not (0 < len(g.states) <= gres.distinct):       # (TLC's states also carry the counter of other operations)
                raise MachineryFailure(f"Homeo graph: {len(g.states)} states printed, TLC reports {gres.distinct}")
            make = lambda c=c: HomeoImpl(c)  # noqa: E731
            ik = graph.canon(make().project())
            if ik not in g.states:
                chk.violation({"clause": "InitialState", "site": "homeo", "param": param},
                              {"extension": "Homeo", "observed_state": make().project()})
                continue

            def on_mismatch(sig, rep, param=param, deft=deft):
                chk.violation(dict(sig, site="homeo-" + sig.get("site", ""), param=param, default_tinv=deft,
                                   op=(rep.get("op") or {}).get("a")), dict(rep, extension="Homeo", cfg={"Param": param, "DefTinv": deft, "O": 2}))

            st = graph.replay(g, ik, make, budget=None if thorough else 4000, rng=rng, on_mismatch=on_mismatch, max_mismatch=10)
            tot += st.edges
            for k, o in st.pairs:
                chk.nontrivial.add(("homeo", param, k, o))
            first = first or (g, ik, make)
    chk.evaluations += tot
    chk.note(f"homeostasis magnitude: weight / bias / delay, default and per-call targets; {tot} edges executed on real "
             f"LinearHomeostasis trainers")
    if first:
        g, ik, make = first
        seen = []

        def deviate(op, ret, st):
            if op.get("a") == "call" and ret.get("t") == "parts":  # noqa
                ret = dict(ret, pos=[v + 1 for v in ret["pos"]])
            return ret, st
        graph.replay(g, ik, make, budget=400, rng=rng, on_mismatch=lambda s, r: seen.append(s), deviate=deviate, max_mismatch=3)
        if not any(s.get("clause") == "RetOK" for s in seen):
            raise MachineryFailure("canary: a deviating homeostasis replay was not reported")
        chk.note(f"canary homeostasis: deviating replay reported ({len(seen)} mismatches)")


def phase(chk: Check, tier: str, rng: random.Random):
    """entry point for harness.subcheck (a process of its own beside the routing phases of C09)"""
    run_homeo(chk, rng, tier == "thorough")
