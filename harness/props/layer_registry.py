"""Extension of the C17 check: the component registries of a layer (spec/LayerRegistryCore.tla, LayerRegistryMC.tla,
harness/impl_layerregistry.py): Layer.add_/del_/get_ connection, neuron, cell; listings; the named accessors of Serial,
RecurrentSerial, Biclique; the parts of a Cell.  The model is finite: its whole closure is checked and EVERY edge of
the emitted graph is executed on real layers."""
from __future__ import annotations
import random
from ..core import Check, MachineryFailure
from .. import tlc, graph

INV = ["WellFormedInv", "Refinement", "ListingsExact", "GetCellExact", "FixedNeverChange", "RolesRegistered", "Deterministic"]
INITS = ({"kind": "layer", "tf": False}, {"kind": "serial", "tf": False}, {"kind": "recurrent", "tf": True},
         {"kind": "recurrent", "tf": False}, {"kind": "biclique", "tf": False})


def run_layer_registry(chk: Check, rng: random.Random, thorough: bool):
    from ..impl_layerregistry import RegistryImpl
    c = dict(CNames={"p", "q", "r"} if thorough else {"p", "q"}, NNames={"u", "v"})
    res = tlc.run("LayerRegistryMC", tlc.cfg_text(constants=c, invariants=INV), workers=4, timeout=3000)
    if res.violated:
        chk.violation({"clause": "MC:" + ",".join(res.violated), "site": "spec:LayerRegistry"}, {"tlc_tail": res.out[-4000:]})
    elif not res.ok:
        raise MachineryFailure(f"LayerRegistryMC did not complete: {res.out[-2000:]}")
    chk.add_tlc("mc:layer-registry", res)
    gres = tlc.run("LayerRegistryMC", tlc.cfg_text(constants=c, invariants=["Emit"]), workers=1, timeout=3000)
    if not gres.ok:
        raise MachineryFailure(f"LayerRegistry generation failed: {gres.out[-2000:]}")
    g = graph.Graph.from_lines(gres.printed())
    if len(g.states) != gres.distinct:
        raise MachineryFailure(f"LayerRegistry graph: {len(g.states)} states printed, TLC reports {gres.distinct}")
    chk.add_tlc("gen:layer-registry", gres)
    tot = 0
    first = None
    for init in INITS:
        make = lambda init=init: RegistryImpl(init)  # noqa: E731
        ik = graph.canon(make().project())
        if ik not in g.states:
            chk.violation({"clause": "InitialState", "site": "layer-registry", "kind": init["kind"], "tf": init["tf"]},
                          {"extension": "LayerRegistry", "observed_state": make().project()})
            continue

        def on_mismatch(sig, rep, init=init):
            obs = (rep.get("observed") or {}).get("ret") or {}
            sig = dict(sig, site="layer-registry-" + sig.get("site", ""), kind=init["kind"], tf=init["tf"], raised=obs.get("e"),
                       what=(rep.get("op") or {}).get("what") or (rep.get("op") or {}).get("role"))
            chk.violation(sig, dict(rep, extension="LayerRegistry"))

        st = graph.replay(g, ik, make, budget=None if (thorough or init["kind"] != "layer") else 2500, rng=rng,
                          on_mismatch=on_mismatch, max_mismatch=10)
        tot += st.edges
        for k, o in st.pairs:
            chk.nontrivial.add(("layer-registry", k, o))
        first = first or (g, ik, make)
    chk.evaluations += tot
    chk.note(f"layer-registry: mc {res.distinct} states / {res.generated} transitions; replay {tot} edges of {g.n_edges} on real "
             f"Layer / Serial / RecurrentSerial / Biclique objects")
    g, ik, make = first
    seen = []

    def deviate(op, ret, st):
        if op.get("a") == "list" and ret.get("t") == "list":
            ret = dict(ret, v=list(reversed(ret["v"])) + ["extra"])
        return ret, st
    graph.replay(g, ik, make, budget=300, rng=rng, on_mismatch=lambda s, r: seen.append(s), deviate=deviate, max_mismatch=3)
    if not any(s.get("clause") == "RetOK" for s in seen):
        raise MachineryFailure("canary: a deviating layer-registry replay was not reported")
    chk.note(f"canary layer-registry: deviating replay reported ({len(seen)} mismatches)")
