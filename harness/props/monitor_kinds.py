"""Extension of the C15 check: what each kind of monitor records and when (spec/MonitorKindsCore.tla,
spec/MonitorKindsMC.tla, harness/impl_monitorkinds.py).

T: every configuration of every monitor kind x every sequence of module calls, mode switches, (de)registrations,
   mutator-hook installations and clears (bounded number of calls / clears; the rest of the state is finite):
   Refinement (Mech hook lists = documented observation), OnePerCall, Frame, WellFormed, Deterministic.
A: TLC's outcome tables are executed edge by edge on real InputMonitor / OutputMonitor / StateMonitor /
   MultiStateMonitor / DifferenceMonitor objects on a probe module with a logging reducer."""
from __future__ import annotations
import random
from concurrent.futures import ThreadPoolExecutor
from ..core import Check, MachineryFailure
from .. import tlc, graph

MODULE = "MonitorKindsMC"
INV = ["TypeOK", "WellFormedInv", "Refinement", "OnePerCall", "Frame", "Deterministic"]
ALL = ("input", "output", "state", "multi", "diff")


def consts(kinds, custom, calls, clears=1):
    return dict(Kinds=set(kinds), Custom=custom, MaxCalls=calls, MaxClears=clears)


def _mc(job):
    name, c, workers = job
    return name, c, tlc.run(MODULE, tlc.cfg_text(constants=c, invariants=INV), workers=workers, timeout=3000)


def _gen(job):
    name, c = job
    return name, c, tlc.run(MODULE, tlc.cfg_text(constants=c, invariants=["Emit"]), workers=1, timeout=3000)


def run_monitor_kinds(chk: Check, rng: random.Random, thorough: bool):
    from ..impl_monitorkinds import MonitorImpl
    if thorough:
        mcs = [("all-custom-c2", consts(ALL, True, 2), 8)] + [(f"{k}-c3", consts((k,), False, 3), 2) for k in ALL]
        gens = [(f"g-{k}", consts((k,), True, 2, 1)) for k in ALL]
        budget = None
    else:
        mcs = [("all-default-c2", consts(ALL, False, 2, 0), 4), ("all-custom-c1", consts(ALL, True, 1, 0), 4)]
        # two calls: what a monitor saw at one call must not leak into the next (a stale pre-call value, seeded C15-m5)
        gens = [("g-diff", consts(("diff",), False, 2, 0)), ("g-diff-custom", consts(("diff",), True, 1, 0)),
                ("g-state", consts(("state",), False, 2, 0)),
                ("g-in+out+multi", consts(("input", "output", "multi"), False, 1, 1))]
        budget = 60
    ex = ThreadPoolExecutor(max_workers=8)
    gen_f = [ex.submit(_gen, j) for j in gens]
    mc_f = [ex.submit(_mc, j) for j in mcs]
    first = None
    tot_e = tot_s = tot_m = 0
    for f in gen_f:
        name, c, res = f.result()
        if not res.ok:
            raise MachineryFailure(f"MonitorKinds generation {name} failed: {res.out[-2000:]}")
        g = graph.Graph.from_lines(res.printed())
        if len(g.states) != res.distinct:
            raise MachineryFailure(f"MonitorKinds graph {name}: {len(g.states)} states printed, TLC reports {res.distinct}")
        chk.add_tlc("gen:monitor-kinds-" + name, res)
        # one replay per initial state (= per monitor configuration)
        inits = [k for k in g.order if _is_init(g.states[k])]
        rng.shuffle(inits)
        for ik in inits:
            cfg = g.states[ik]["c"]
            make = lambda cfg=cfg: MonitorImpl(cfg)  # noqa: E731
            got = graph.canon(make().project())
            if got != ik:
                chk.violation({"clause": "InitialState", "site": "monitor-kinds", "kind": cfg["kind"], "via": cfg["via"]},
                              {"extension": "MonitorKinds", "config": cfg, "expected_state": g.states[ik],
                               "observed_state": __import__("json").loads(got)})
                tot_m += 1
                continue

            def on_mismatch(sig, rep, cfg=cfg):
                obs = (rep.get("observed") or {}).get("ret") or {}
                sig = dict(sig, site="monitor-kinds-" + sig.get("site", ""), kind=cfg["kind"], via=cfg["via"],
                           custom=[cfg["filt"], cfg["map"], cfg["op"]], raised=obs.get("e"))
                chk.violation(sig, dict(rep, extension="MonitorKinds", config=cfg))

            st = graph.replay(g, ik, make, budget=budget, rng=rng, on_mismatch=on_mismatch, max_mismatch=5)
            tot_e += st.edges
            tot_s += len(st.states_visited)
            tot_m += len(st.mismatches)
            for k, o in st.pairs:
                if '"rec":[]' not in k:
                    chk.nontrivial.add(("monitor-kinds", k, o))
            if first is None and st.pairs:
                first = (g, ik, make)
                k, o = next(iter(st.pairs))
                chk.sample({"kind": "monitor-kinds-edge", "state": g.states[k], "op": o})
        chk.note(f"replay monitor-kinds {name}: {len(inits)} configurations, graph {len(g.states)} states / {g.n_edges} edges")
    chk.evaluations += tot_e
    chk.extra["monitor_kinds_replayed_edges"] = tot_e
    chk.note(f"replay monitor-kinds: {tot_e} edges executed, {tot_s} states visited, mismatches={tot_m}")
    for f in mc_f:
        name, c, res = f.result()
        if res.violated:
            chk.violation({"clause": "MC:" + ",".join(res.violated), "site": "spec:MonitorKinds", "config": name},
                          {"config": name, "tlc_tail": res.out[-4000:]})
        elif not res.ok:
            raise MachineryFailure(f"MonitorKindsMC {name} did not complete: {res.out[-2000:]}")
        chk.add_tlc("mc:monitor-kinds-" + name, res)
        chk.note(f"mc monitor-kinds {name}: {res.distinct} states, {res.generated} transitions, depth {res.depth}, {res.wall:.1f}s")
    ex.shutdown()
    # canary: a monitor that records one observation too many must be flagged
    if first is None:
        raise MachineryFailure("MonitorKinds: nothing was replayed")
    g, ik, make = first
    seen = []

    def deviate(op, ret, st):
        if op.get("a") == "call":
            st = dict(st, rec=st["rec"] + [[7]])
        return ret, st
    graph.replay(g, ik, make, budget=200, rng=rng, on_mismatch=lambda s, r: seen.append(s), deviate=deviate, max_mismatch=3)
    if not any(s.get("clause") == "StateOK" for s in seen):
        raise MachineryFailure("canary: a deviating monitor replay was not reported")
    chk.note(f"canary monitor-kinds: deviating replay reported ({len(seen)} mismatches)")


def _is_init(s):
    return s["calls"] == 0 and not s["rec"] and s["x"] == -1 and s["tr"] is True and s["reg"] == s["c"]["attach"] \
        and s["known"] == s["c"]["attach"] and "mut" not in s["preh"] and "mut" not in s["posth"]


def phase(chk: Check, tier: str, rng: random.Random):
    """entry point for harness.subcheck (a process of its own beside the lifecycle phases)"""
    run_monitor_kinds(chk, rng, tier == "thorough")
