"""End-to-end composition (DESIGN section 7 item 7): spec/NetworkCore.tla, spec/NetworkMC.tla,
harness/impl_network.py.  Runs inside `./check C17` (a process of its own).

T: every input sequence to MaxSteps network steps with update / trainer.update / trainer-mode / clear at every
   position: the parts held by the updaters are the documented pair sums over the recorded history (PairSums), the
   monitors' traces their closed forms (TracesClosedInv), Frame (only updates change weights, only steps change neurons,
   evaluation mode records nothing, clear = freshly built network with the learned weights), UpdateIdempotent,
   NonNegative, SameStepDrive, Exact (every halving is exact), Deterministic.
A: the emitted outcome tables are executed on a real two-layer network with a real STDP trainer; spikes, voltages,
   refractory times, traces, pending parts and weights are compared as exact scaled integers after every call."""
from __future__ import annotations
import random
from concurrent.futures import ThreadPoolExecutor
from ..core import Check, MachineryFailure
from .. import tlc, graph

INV = ["TracesClosedInv", "PairSums", "Frame", "UpdateIdempotent", "NonNegative", "SameStepDrive", "Deterministic", "Exact",
       "BoxInv"]


def consts(recipe, steps, other, lrpost=1, lrpre=2, ref=1, clamp="none"):
    return dict(Recipe=recipe, S=16384, T=16, RefSteps=ref, LrPost=lrpost, LrPre=lrpre, MaxSteps=steps, MaxOther=other,
                Clamp=clamp)


def _mc(job):
    name, c, workers = job
    return name, c, tlc.run("NetworkMC", tlc.cfg_text(constants=c, invariants=INV), workers=workers, timeout=3000)


def _gen(job):
    name, c = job
    return name, c, tlc.run("NetworkMC", tlc.cfg_text(constants=c, invariants=["Emit"]), workers=1, timeout=3000)


def phase(chk: Check, tier: str, rng: random.Random):
    from ..impl_network import NetworkImpl, recipe_exact
    quick = tier == "quick"
    dts = [d for d in (1.0, 0.5, 2.0) if recipe_exact(d)]
    if not dts:
        chk.note("network: the dyadic recipe is not exact on this platform (exp(-ln 2) != 0.5): phase skipped")
        return
    if quick:
        mcs = [("a-s4", consts("a", 4, 2), 4), ("b-s3-ref2", consts("b", 3, 2, lrpost=2, lrpre=1, ref=2), 4),
               ("b-s3-box", consts("b", 3, 2, lrpost=2, lrpre=1, clamp="box"), 4)]
        gens = [("g-a", consts("a", 3, 2)), ("g-b", consts("b", 3, 1, lrpost=2, lrpre=1, ref=2)),
                ("g-b-box", consts("b", 3, 2, lrpost=4, lrpre=1, clamp="box"))]
        budget = 1200
    else:
        mcs = [("a-s5", consts("a", 5, 2), 8), ("b-s5", consts("b", 5, 2, lrpost=2, lrpre=1), 8),
               ("a-s4-ref2-o3", consts("a", 4, 3, ref=2), 8)]
        mcs += [("b-s4-box", consts("b", 4, 3, lrpost=4, lrpre=1, clamp="box"), 8), ("a-s4-box", consts("a", 4, 2, clamp="box"), 8)]
        gens = [("g-a", consts("a", 4, 2)), ("g-b", consts("b", 4, 2, lrpost=2, lrpre=1, ref=2)),
                ("g-b-box", consts("b", 4, 2, lrpost=4, lrpre=1, clamp="box")), ("g-a-box", consts("a", 3, 2, clamp="box"))]
        budget = None
    ex = ThreadPoolExecutor(max_workers=4)
    gen_f = [ex.submit(_gen, j) for j in gens]
    mc_f = [ex.submit(_mc, j) for j in mcs]
    first = None
    for f in gen_f:
        name, c, res = f.result()
        if not res.ok:
            raise MachineryFailure(f"NetworkMC generation {name} failed: {res.out[-2000:]}")
        g = graph.Graph.from_lines(res.printed())
        chk.add_tlc("gen:network-" + name, res)
        dt = dts[rng.randrange(len(dts))]
        make = lambda c=c, dt=dt: NetworkImpl(c, dt)  # noqa: E731
        ik = graph.canon(make().project())
        if ik not in g.states:
            chk.violation({"clause": "InitialState", "site": "network", "recipe": c["Recipe"]},
                          {"extension": "Network", "constants": c, "observed_state": make().project(),
                           "specified": g.states[g.order[0]]})
            continue

        def on_mismatch(sig, rep, c=c, dt=dt):
            sig = dict(sig, site="network-" + sig.get("site", ""), recipe=c["Recipe"])
            exp = (rep.get("expected") or [{}])[0].get("st", {})
            obs = (rep.get("observed") or {}).get("st", {})
            sig["fields"] = sorted(k for k in exp if exp.get(k) != obs.get(k))[:6]
            chk.violation(sig, dict(rep, extension="Network", constants=c, dt=dt))

        st = graph.replay(g, ik, make, budget=budget, rng=rng, on_mismatch=on_mismatch, max_mismatch=8)
        chk.evaluations += st.edges
        chk.traces += st.rebuilds
        for k, o in st.pairs:
            if '"steps":0' not in k:
                chk.nontrivial.add(("network", c["Recipe"], k, o))
        chk.note(f"replay network {name} (dt={dt}): {st.edges} edges of {g.n_edges}, {len(st.states_visited)}/{len(g.states)} "
                 f"states, mismatches={len(st.mismatches)}")
        if first is None and st.pairs:
            first = (g, ik, make)
            k, o = next(iter(st.pairs))
            chk.sample({"kind": "network-edge", "state": {f: g.states[k][f] for f in ("w1", "w2", "t0", "t1", "p1", "q1", "steps")},
                        "op": o})
    for f in mc_f:
        name, c, res = f.result()
        if res.violated:
            chk.violation({"clause": "MC:" + ",".join(res.violated), "site": "spec:Network", "config": name},
                          {"config": name, "tlc_tail": res.out[-4000:]})
        elif not res.ok:
            raise MachineryFailure(f"NetworkMC {name} did not complete: {res.out[-2000:]}")
        chk.add_tlc("mc:network-" + name, res)
        chk.note(f"mc network {name}: {res.distinct} states, {res.generated} transitions, depth {res.depth}, {res.wall:.1f}s")
    ex.shutdown()
    if first is None:
        raise MachineryFailure("network: nothing was replayed")
    g, ik, make = first
    seen = []

    def deviate(op, ret, st):
        if op.get("a") == "step":
            st = dict(st, p1=[[v + 1024 for v in row] for row in st["p1"]])
        return ret, st
    graph.replay(g, ik, make, budget=150, rng=rng, on_mismatch=lambda s, r: seen.append(s), deviate=deviate, max_mismatch=3)
    if not any(s.get("clause") == "StateOK" for s in seen):
        raise MachineryFailure("canary: a deviating network replay was not reported")
    chk.note(f"canary network: deviating replay reported ({len(seen)} mismatches)")
