"""Shared pieces of the neuron checks (C03, and C11 clause (ii)): model-checking configs of
NeuronMC, dyadic graph generation + replay on the real linear-family classes, category-mode
trace drivers for all eight classes, trace validation with named clauses, canaries."""
from __future__ import annotations
import copy, json, math, random
from concurrent.futures import ThreadPoolExecutor
import numpy as np
from ..core import Check, MachineryFailure
from .. import tlc, graph, tracecheck
from ..impl_neuron import (NeuronProbe, DyadicNeuron, RECIPES, ADAPTIVE, FAMILY, CLASSES, torch)

OFF = 1 << 22
SCALE = 1 << 14
CLAUSE_WAIVABLE = {"Reset", "LockedV", "Integrate", "SpikeAttr", "RefracNonNeg"}
VOLT_CLAUSES = {"reset": "Reset", "keep": "LockedV", "int": "Integrate", "int0": "Integrate"}


# ------------------------------------------------------------------ T: model checking
def mc_constants(*, ds, locks=(True, False), laxs=(False, True), rsel="all", attrmode="derived", keephist=True,
                 dy=False, curs=(0,), rest=0, reset=0, theta=0, glif=False, mul2=0, add=0, adapt=False, inc=0,
                 depth=8):
    return dict(Ds=set(ds), Locks=set(locks), Laxs=set(laxs), RSel=rsel, AttrMode=attrmode, KeepHist=keephist,
                Dy=dy, Off=OFF, CursO={x + OFF for x in curs}, RestO=rest + OFF, ResetO=reset + OFF,
                ThetaO=theta + OFF, Glif=glif, Mul2=mul2, AddO=add + OFF, Adapt=adapt, Inc=inc, MaxDepth=depth + 1)


CAT_INVARIANTS = ["TypeOK", "RefracNonNeg", "Window_", "Exact", "ResetOK", "VoltageOK", "FreeIsOutOfWindow",
                  "Deterministic"]


class TLCJobs:
    """TLC runs are subprocesses: they are started in the background so that the python side
    (recording executions, replaying graphs) overlaps with them."""

    def __init__(self, parallel=4):
        self.ex = ThreadPoolExecutor(max_workers=parallel)
        self.futs = {}

    def submit(self, name, module, cfg, **kw):
        self.futs[name] = self.ex.submit(tlc.run, module, cfg, **kw)

    def result(self, name):
        return self.futs[name].result()

    def close(self):
        self.ex.shutdown(wait=True)


def launch_mc(jobs: TLCJobs, configs, workers_each=4, timeout=1500):
    """configs: (name, constants, invariants, expect_violation_of | None)"""
    for name, consts, invs, _ in configs:
        cfg = tlc.cfg_text(constants=consts, invariants=invs, constraints=["Bounded"])
        jobs.submit("mc:" + name, "NeuronMC", cfg, workers=workers_each, timeout=timeout)


def collect_mc(chk: Check, jobs: TLCJobs, configs):
    out = {}
    for name, consts, invs, expect in configs:
        res = jobs.result("mc:" + name)
        out[name] = res
        if res.violated:
            if expect and set(res.violated) <= set(expect):
                chk.note(f"mc {name}: design-level counterexample to {res.violated} (examined against the code below)")
            else:
                chk.violation({"clause": "MC:" + ",".join(res.violated), "site": "spec", "config": name},
                              {"config": name, "constants": {k: sorted(v) if isinstance(v, set) else v
                                                             for k, v in consts.items()},
                               "tlc_tail": res.out[-4000:]})
        elif not res.ok:
            raise MachineryFailure(f"TLC run {name} did not complete: {res.out[-2000:]}")
        chk.add_tlc("mc:" + name, res, exhaustive=not res.violated)
        chk.note(f"mc {name}: {res.distinct} states, {res.generated} transitions, depth {res.depth}, "
                 f"{res.wall:.1f}s, violated={res.violated}")
    return out


def confirm_attr_counterexample(chk: Check, res) -> None:
    """TLC refuted SpikeAttr for the DERIVED attribute at refractory period 0.  The
    counterexample is a statement about the design; it is reported against the code only
    if the real classes reproduce it (refrac_t = 0, one sub-threshold step: `spike` is set
    although no spike was returned)."""
    if "SpikeAttr" not in res.violated:
        return
    hits = []
    for cls in CLASSES:
        p = NeuronProbe(cls, (3,), 2, 1, 0, 1.0, True, False, RECIPES[cls][0], lax=False)
        ret = p.n(torch.zeros(2, 3)) if cls not in ADAPTIVE else p.n(torch.zeros(2, 3), adapt=False)
        attr = p.n.spike
        chk.evaluations += 1
        if bool((attr != ret).any()):
            hits.append(cls)
            direction = "attr_without_spike" if bool((attr & ~ret).any()) else "spike_without_attr"
            chk.violation({"clause": "SpikeAttr", "site": "spec:mc-counterexample", "refrac_t_zero": True,
                           "direction": direction},
                          {"class": cls, "refrac_t": 0.0, "step_time": 1.0, "inputs": "zeros(2,3)",
                           "returned": ret.tolist(), "spike_attribute": attr.tolist(),
                           "tlc_counterexample_tail": res.out[-2500:]})
    chk.note(f"design-level SpikeAttr counterexample (R = 0) reproduced on the implementation by: {hits or 'none'}")


# ------------------------------------------------------------------ A: dyadic graph replay
def dy_variants(tier: str):
    """(name, spec constants, depth, classes that implement them).  Currents: zero, strongly
    supra-threshold, one that lands EXACTLY on the threshold after two steps (>= vs >),
    negative."""
    S = SCALE
    base = dict(rest=-2 * S, reset=-4 * S, theta=4 * S)
    c4 = (0, 16 * S, 8 * S, -8 * S)
    c3 = (0, 16 * S, 8 * S)
    q = tier == "quick"
    return [
        ("const-reset", dict(base, curs=c4), 4 if q else 6, ["LIF", "GLIF1"]),
        ("const-reset-adaptive", dict(base, curs=c3 if q else c4, adapt=True, inc=2 * S), 5 if q else 6, ["ALIF"]),
        ("linear-reset-adaptive", dict(base, curs=c3 if q else c4, glif=True, mul2=1, add=2 * S, adapt=True,
                                       inc=2 * S), 4 if q else 5, ["GLIF2"]),
    ]


GEN_INVARIANTS = ["Emit", "TypeOK", "DyadicExact", "Deterministic", "SpikeAttrSt"]


def launch_gen(jobs: TLCJobs, name: str, consts: dict):
    cfg = tlc.cfg_text(constants=consts, invariants=GEN_INVARIANTS, constraints=["Bounded"])
    jobs.submit("gen:" + name, "NeuronMC", cfg, workers=1, timeout=1500)


def collect_gen(chk: Check, jobs: TLCJobs, name: str) -> graph.Graph:
    res = jobs.result("gen:" + name)
    if res.violated or not res.ok:
        raise MachineryFailure(f"TLC generation run {name} failed: {res.violated} {res.out[-2000:]}")
    g = graph.Graph.from_lines(res.printed())
    # TLC also evaluates invariants (hence Emit) on the frontier states that the depth constraint
    # then discards: the emitted graph holds at least the states TLC counts
    if len(g.states) < res.distinct or res.distinct < 1:
        raise MachineryFailure(f"emitted graph has {len(g.states)} states, TLC reports {res.distinct}")
    chk.add_tlc("gen:" + name, res)
    g.name = name
    return g


def replay_dyadic(chk: Check, g: graph.Graph, classes, *, budget, rng, deviate=None, report=True, max_inits=None):
    """Every configuration in the graph is an initial state; its sub-graph is replayed on
    a fresh real neuron of every class that implements the variant."""
    inits = [k for k in g.order if _is_init(g.states[k])]
    if max_inits:
        inits = [k for k in inits if g.states[k]["c"]["R"] > 0][:max_inits]
    total = {"edges": 0, "states": 0, "mism": 0}
    mism = []
    per = None if budget is None else max(50, budget // max(1, len(inits) * len(classes)))
    for cls in classes:
        for k in inits:
            c = g.states[k]["c"]
            tick = rng.choice([0.25, 0.5, 1.0])
            if not DyadicNeuron.recipe_exact(cls, c["D"] * tick):
                chk.note(f"dyadic recipe not exact for {cls} dt={c['D'] * tick}: skipped")
                continue
            shape, batch = rng.choice([((2,), 1), ((1,), 2), ((2, 1), 1)])
            local = []

            def on_mismatch(sig, rep, cls=cls, c=c, tick=tick):
                rep = dict(rep, cls=cls, tick=tick, scale=SCALE, graph=g.name)
                sig = dict(sig, cls=cls)
                sig.update(_refine_replay_signature(rep, c))
                mism.append((sig, rep))
                local.append(sig)
                if report:
                    chk.violation(sig, rep)

            make = lambda: DyadicNeuron(c, cls, SCALE, tick, shape, batch)
            stats = graph.replay(g, k, make, budget=per, rng=rng, on_mismatch=on_mismatch, deviate=deviate,
                                 op_class=lambda op: "step")
            if local and all(x.get("clause") == "SpikeAttr" for x in local) and deviate is None:
                # the spike attribute deviation has been reported; examine everything else on this
                # configuration with that one field adopted from the specification
                make = lambda: DyadicNeuron(c, cls, SCALE, tick, shape, batch, waive_attr=True)
                stats = graph.replay(g, k, make, budget=per, rng=rng, on_mismatch=on_mismatch, deviate=deviate,
                                     op_class=lambda op: "step")
            total["edges"] += stats.edges
            total["states"] += len(stats.states_visited)
            total["mism"] += len(stats.mismatches)
            if report:
                for sk, o in stats.pairs:
                    if '"spk":true' in sk or '"r":0' not in sk:
                        chk.nontrivial.add((g.name, cls, sk, o))
                if stats.pairs and rng.random() < 0.05:
                    sk, o = next(iter(stats.pairs))
                    chk.sample({"kind": "replayed-edge", "class": cls, "state": json.loads(sk), "op": json.loads(o)})
    if report:
        chk.evaluations += total["edges"]
        chk.extra["replayed_edges"] = chk.extra.get("replayed_edges", 0) + total["edges"]
        chk.extra["impl_states_visited"] = chk.extra.get("impl_states_visited", 0) + total["states"]
        chk.note(f"replay {g.name} classes={classes}: {total['edges']} edges executed ({g.n_edges} in graph), "
                 f"{total['states']} (class, state) visits, mismatches={total['mism']}")
    return total, mism


def _is_init(s):
    m, c = s["m"], s["c"]
    return (m["r"] == 0 and not m["spk"] and not m["attr"] and not m["lag"] and m["v"] == c["rest"] and m["ad"] == 0)


def _refine_replay_signature(rep, c):
    """Which field of the specified outcome the implementation missed."""
    out = {"refrac_t_zero": c["R"] == 0, "lock": c["lock"]}
    if "expected_state" in rep and "observed_state" in rep:      # state reached by a path differs
        e, o = rep["expected_state"]["m"], rep["observed_state"]["m"]
        diff = sorted(f for f in e if e[f] != o.get(f))
        out["fields"] = ",".join(diff)
        if diff == ["attr"]:
            out["clause"] = "SpikeAttr"
            out["direction"] = "attr_without_spike" if o["attr"] else "spike_without_attr"
        return out
    obs = rep.get("observed")
    exp = rep.get("expected")
    if obs and exp and len(exp) == 1:
        e, o = exp[0], obs
        diff = [f for f in e["st"]["m"] if e["st"]["m"][f] != o["st"]["m"].get(f)]
        if e["ret"] != o["ret"]:
            diff.append("ret")
        out["fields"] = ",".join(sorted(diff))
        if diff == ["attr"]:
            out["clause"] = "SpikeAttr"
            out["direction"] = "attr_without_spike" if o["st"]["m"]["attr"] else "spike_without_attr"
        elif "spk" in diff or "ret" in diff:
            out["clause"] = "Spike"
        elif "r" in diff:
            out["clause"] = "Refrac"
        elif "v" in diff:
            out["clause"] = "Voltage"
        elif "ad" in diff:
            out["clause"] = "Adaptation"
    return out


# ------------------------------------------------------------------ B: category-mode traces
STRICT_TICKS = [0.25, 0.5, 1.0, 0.125]
LAX_TICKS = [0.1, 0.325, 0.075, 0.7, 0.3]
SHAPES = [((3,), 1), ((2, 2), 1), ((4,), 2), ((2, 3), 2), ((5,), 3), ((2, 2, 2), 2), ((1,), 1), ((3, 2), 4)]


def r_choices(D):
    """refractory periods: 0, below dt, multiples and non-multiples of dt"""
    return {"zero": [0], "below": list(range(1, D)) or [0], "multiple": [D, 2 * D],
            "nonmultiple": [r for r in range(D + 1, 2 * D + 2) if r % D] or [2 * D + 1 if D > 1 else 2]}


def draw_inputs(rng: random.Random, nrng: np.random.Generator, probe: NeuronProbe, mode_state: dict):
    """per-element drives: zero / sub-threshold / supra-threshold / huge / negative /
    adversarial near-threshold (current solved from the documented equation so that the
    integrated voltage lands at threshold + delta)"""
    E = probe.E
    th = probe.thresholds()
    fam = FAMILY[probe.cls]
    huge = 1e20 if fam == "linear" else 1e5
    modes = mode_state.setdefault("modes", [None] * E)
    target = np.zeros(E)
    direct = np.full(E, np.nan)
    for e in range(E):
        if modes[e] is None or rng.random() < 0.35:
            modes[e] = rng.choices(["zero", "sub", "supra", "near", "huge+", "huge-", "neg"],
                                   weights=[12, 12, 30, 28, 6, 4, 8])[0]
        m = modes[e]
        if m == "zero":
            direct[e] = 0.0
        elif m == "sub":
            target[e] = th[e] - rng.uniform(0.5, 12.0)
        elif m == "supra":
            target[e] = th[e] + rng.uniform(0.5, 30.0)
        elif m == "near":
            d = rng.choice([0.0, 1e-7, -1e-7, 1e-5, -1e-5, 1e-3, -1e-3, 0.05, -0.05, 0.5, -0.5])
            target[e] = th[e] + d * (abs(th[e]) if abs(d) < 1e-4 else 1.0)
        elif m == "huge+":
            direct[e] = huge
        elif m == "huge-":
            direct[e] = -huge
        else:
            direct[e] = -rng.uniform(1.0, 100.0)
    cur = probe.target_current(target)
    cur = np.where(np.isnan(direct), cur, direct)
    cur = np.clip(cur, -huge, huge)
    x = torch.tensor(cur, dtype=torch.float32).reshape((probe.batch,) + probe.shape)
    return x


def neuron_runs(rng: random.Random, tier: str):
    """the list of real executions to record: every class x lock x adaptation; for each of them all
    four kinds of refractory period (0, below dt, a multiple of dt, more than dt and not a multiple),
    alternating strict (dyadic dt / refrac_t) and lax (arbitrary floats) timing, and every parameter
    recipe of the class (the last one is the self-exciting / sinking-threshold regime)"""
    runs = []
    rounds = 1 if tier == "quick" else 4
    steps = 40 if tier == "quick" else 60
    kinds = ["zero", "below", "multiple", "nonmultiple"]
    i = 0
    for cls in CLASSES:
        nrec = len(RECIPES[cls])
        for lock in (True, False):
            for adapt in ((True, False) if cls in ADAPTIVE else (False,)):
                for rnd in range(rounds):
                    for kind in kinds:
                        lax = (i % 3 == 2)
                        D = rng.choice([2, 4]) if kind == "below" else rng.choice([1, 2, 4])
                        R = rng.choice(r_choices(D)[kind])
                        if kind == "multiple" and rnd == 0:
                            R = 2 * D          # a window of two steps with an ordinary recipe: (not free, lt) is certain
                        tick = rng.choice(LAX_TICKS if lax else STRICT_TICKS)
                        shape, batch = rng.choice(SHAPES if tier == "thorough" else SHAPES[:6])
                        # long windows get the self-exciting recipe more often: that is where it matters
                        recipe = (nrec - 1) if kind == "nonmultiple" else i % (nrec - 1)
                        i += 1
                        runs.append(dict(cls=cls, lock=lock, adapt=adapt, lax=lax, D=D, R=R, tick=tick, shape=list(shape),
                                         batch=batch, recipe=recipe, steps=steps, kind=kind, seed=rng.randrange(1 << 30)))
    # extra runs (on top of the plan above, whose case coverage is a vacuity guard): sub-microsecond time scales - steps of
    # 2^-22 .. 2^-21 with refractory periods of a few steps, and 1e-7-grained floats - where an ABSOLUTE epsilon in the
    # refractory countdown (e.g. "remaining <= 1e-6 counts as 0") would free a neuron inside its window
    rng2 = random.Random(rng.randrange(1 << 30))
    for j, cls in enumerate(CLASSES):
        for lax in (False, True):
            D = rng2.choice([2, 4])
            kind = ("multiple", "nonmultiple")[(j + int(lax)) % 2]
            R = (2 * D) if kind == "multiple" else (2 * D + 1)
            runs.append(dict(cls=cls, lock=bool((j + int(lax)) % 2), adapt=False, lax=lax, D=D, R=R, tick=(1e-7 if lax else 2.0 ** -23),
                             shape=[3], batch=2, recipe=0, steps=steps, kind=kind, seed=rng2.randrange(1 << 30), tiny=True))
    return runs


def record_run(run: dict, mutate=None):
    """execute one run on the real class; returns (element traces, raws, inputs)"""
    rng = random.Random(run["seed"])
    nrng = np.random.default_rng(run["seed"])
    torch.manual_seed(run["seed"])
    # a third of the runs build the neuron with another step time and assign the run's one through the dt setter
    dt_built = None
    if run["seed"] % 3 == 0:
        dt_built = run["D"] * run["tick"] * (2.0 if run["seed"] % 2 else 0.5)
    probe = NeuronProbe(run["cls"], run["shape"], run["batch"], run["D"], run["R"], run["tick"], run["lock"],
                        run["adapt"], RECIPES[run["cls"]][run["recipe"]], run["lax"], dt_built=dt_built,
                        f64=(run["seed"] % 5 == 1))       # every fifth group lives in float64 (seeded C03-m13)
    if run["adapt"]:
        probe.n.train()
    init = probe.init_state()
    cfg = probe.config()
    evs = [[] for _ in range(probe.E)]
    raws = [[] for _ in range(probe.E)]
    inputs = []
    ms = {}
    pokes = []
    for t in range(run["steps"]):
        # between steps: the public voltage setter moves some still-refractory elements to / above threshold
        pk = probe.poke_refractory(rng) if t > 0 else []
        x = draw_inputs(rng, nrng, probe, ms)
        # an adapting neuron is stepped with its adaptations FROZEN now and then (adapt=False, or eval mode with
        # adapt=None): the threshold in force stays equilibrium + the adaptations accumulated so far (seeded C03-m4)
        freeze = rng.choice(["false", "eval"]) if run["adapt"] and t >= 2 and rng.random() < 0.3 else None
        step = probe.step(x, freeze=freeze)
        if step is None:
            break
        inputs.append({"x": x.reshape(-1).tolist(), "voltage_set_before": pk, "frozen": freeze})
        for e, ev in enumerate(step):
            raws[e].append(ev.pop("raw"))
            evs[e].append(ev)
    traces = [{"hdr": {"c": cfg, "init": init[e], "waive": [], "wc": []}, "ev": evs[e]} for e in range(probe.E)]
    return traces, raws, inputs, probe.nan_seen


def classify_rejection(rej) -> tuple[str, dict]:
    """name of the failing clause from TLC's per-clause diagnostic"""
    d = rej.get("diag") or {}
    ev = rej["event"]
    extra = {}
    exp = d.get("expected") or []
    if d.get("nonneg") is False:
        return "RefracNonNeg", extra
    if d.get("spike") is False:
        if ev["ret"]["spk"]:
            if exp and all(not o["ret"]["free"] for o in exp):
                return "Window", extra            # spiked inside the refractory window
            return "Threshold", extra             # spiked although the integrated voltage is below threshold
        return "SpikeMissing", extra              # free and at/above threshold, but no spike
    if d.get("refrac") is False:
        return "Refrac", extra
    if d.get("volt") is False:
        labs = {o["ret"]["vlab"] for o in exp if o["ret"]["spk"] == ev["ret"]["spk"]}
        lab = sorted(labs)[0] if labs else "int"
        extra["expected_voltage"] = lab
        return VOLT_CLAUSES.get(lab, "Voltage"), extra
    if d.get("attr") is False:
        extra["direction"] = "attr_without_spike" if ev["st"]["attr"] else "spike_without_attr"
        return "SpikeAttr", extra
    return "Unexplained", extra


def validate_neuron_traces(chk: Check, traces, metas, site: str, report=True, shards=6, rounds=6):
    """TLC validates every element trace against NeuronTrace.  A rejected trace is
    re-validated with the failing clause waived (Voltage / SpikeAttr / RefracNonNeg) or the
    failing line adopted (Spike / Refrac) so that the rest of the execution is examined.
    metas[i]: dict describing trace i (run, element, raws)."""
    for t in traces:
        t["hdr"]["waive"] = []
        t["hdr"].setdefault("wc", [])
    pending = list(range(len(traces)))
    found = []
    tot = {"generated": 0, "distinct": 0}
    for rnd in range(rounds):
        if not pending:
            break
        sub = [traces[i] for i in pending]
        stats, rej = tracecheck.validate("NeuronTrace", sub, shards=min(shards, max(1, len(sub) // 20 + 1)),
                                         max_waive_rounds=1)
        if rnd == 0:
            tot["generated"] += stats["generated"]
            tot["distinct"] += stats["distinct"]
        nxt = set()
        for r in rej:
            gi = pending[r["trace"]]
            clause, extra = classify_rejection(r)
            found.append((gi, r["line"], clause, extra, r))
            h = traces[gi]["hdr"]
            if clause in CLAUSE_WAIVABLE:
                wcname = "Voltage" if clause in ("Reset", "LockedV", "Integrate") else clause
                h["wc"] = sorted(set(h["wc"]) | {wcname})
                h["waive"] = [x for x in h["waive"] if x != r["line"]]
            nxt.add(gi)
        pending = sorted(nxt)
    if report:
        chk.traces += len(traces)
        chk.transitions += tot["generated"]
        chk.states += tot["distinct"]
        nev = sum(len(t["ev"]) for t in traces)
        chk.evaluations += nev
        chk.extra["trace_events"] = chk.extra.get("trace_events", 0) + nev
        chk.note(f"traces[{site}]: {len(traces)} element traces, {nev} events, rejected (trace, clause) pairs="
                 f"{len({(g, c) for g, _, c, _, _ in found})}")
        seen = set()
        for gi, line, clause, extra, r in found:
            if (gi, clause) in seen:
                continue
            seen.add((gi, clause))
            m = metas[gi]
            run = m["run"]
            sig = {"clause": clause, "site": site, "cls": run["cls"], "refrac_t_zero": run["R"] == 0,
                   "lock": run["lock"], "lax": run["lax"]}
            sig.update(extra)
            rep = {"run": {k: v for k, v in run.items() if k != "inputs"}, "element": m["elem"], "line": line,
                   "inputs_up_to_line": m["inputs"][:line], "event": r["event"],
                   "raw": m["raws"][line - 1] if line - 1 < len(m["raws"]) else None,
                   "expected": (r["diag"] or {}).get("expected"), "model_state": (r["diag"] or {}).get("state")}
            chk.violation(sig, rep)
    return tot, found


def record_runs(chk: Check, runs):
    traces, metas = [], []
    nan_runs = 0
    for run in runs:
        trs, raws, inputs, nan = record_run(run)
        nan_runs += int(nan)
        for e, t in enumerate(trs):
            if not t["ev"]:
                continue
            traces.append(t)
            metas.append({"run": run, "elem": e, "raws": raws[e], "inputs": inputs})
            spikes = sum(1 for ev in t["ev"] if ev["ret"]["spk"])
            if spikes:
                pat = "".join("1" if ev["ret"]["spk"] else "0" for ev in t["ev"])
                chk.nontrivial.add((run["cls"], run["lock"], run["adapt"], run["D"], run["R"], run["lax"], pat))
            _cover(chk, run, t, raws[e])
    return traces, metas, nan_runs


COVER_REQUIRED = ["notfree_ge_lock", "notfree_ge_nolock", "notfree_lt_lock", "notfree_lt_nolock", "free_near",
                  "free_ge", "free_lt", "spike_at_first_permitted_step", "period_zero", "period_below_dt",
                  "period_multiple", "period_nonmultiple", "lax_runs", "strict_runs"]


def _cover(chk: Check, run, trace, raws):
    """per class: which cases of the contract the recorded executions actually reached"""
    cov = chk.extra.setdefault("case_coverage", {})
    c = cov.setdefault(run["cls"], {k: 0 for k in COVER_REQUIRED})
    lk = "lock" if run["lock"] else "nolock"
    W = max(1, -(-run["R"] // run["D"]))
    last = None
    for j, (ev, raw) in enumerate(zip(trace["ev"], raws)):
        free, eff, cat = raw["free"], raw["effcat"], ev["op"]["cat"]
        if free is False and eff in ("ge", "lt"):
            c[f"notfree_{eff}_{lk}"] += 1
        elif free is True:
            c[f"free_{cat}"] += 1
        if ev["ret"]["spk"]:
            if last is not None and j - last == W:
                c["spike_at_first_permitted_step"] += 1
            last = j
    if trace is not None and raws is not None and run.get("_counted") is None:
        run["_counted"] = True
        c["period_" + {"zero": "zero", "below": "below_dt", "multiple": "multiple", "nonmultiple": "nonmultiple"}[run["kind"]]] += 1
        c["lax_runs" if run["lax"] else "strict_runs"] += 1


def require_case_coverage(chk: Check):
    """vacuity guard: every class must have reached every case (in particular a REFRACTORY element
    whose voltage is at / above its threshold, with and without voltage locking)"""
    cov = chk.extra.get("case_coverage", {})
    missing = [(cls, k) for cls in CLASSES for k in COVER_REQUIRED if not cov.get(cls, {}).get(k)]
    if missing:
        raise MachineryFailure(f"trace drivers did not exercise: {missing}")
    chk.note("case coverage: every class reached (not free, ge), (not free, lt) with lock on/off, (free, near), "
             "a spike at the first permitted step, and all four kinds of refractory period")


def record_and_validate(chk: Check, recorded, site: str):
    traces, metas, nan_runs = recorded
    if nan_runs:
        chk.note(f"{nan_runs} runs truncated at a NaN (the property is quantified over NaN-free executions)")
    tot, found = validate_neuron_traces(chk, traces, metas, site)
    # what was exercised
    cov = chk.extra.setdefault("trace_coverage", {})
    for t, m in zip(traces, metas):
        r = m["run"]
        key = f"{r['cls']}|lock={r['lock']}|adapt={r['adapt']}"
        cv = cov.setdefault(key, {"events": 0, "spikes": 0, "near": 0, "R": [], "lax": 0})
        cv["events"] += len(t["ev"])
        cv["spikes"] += sum(1 for ev in t["ev"] if ev["ret"]["spk"])
        cv["near"] += sum(1 for ev in t["ev"] if ev["op"]["cat"] == "near")
        if [r["D"], r["R"]] not in cv["R"]:
            cv["R"].append([r["D"], r["R"]])
        cv["lax"] += int(r["lax"])
    if traces:
        i = max(range(len(traces)), key=lambda j: sum(1 for ev in traces[j]["ev"] if ev["ret"]["spk"]))
        chk.sample({"kind": "element-trace", "run": {k: v for k, v in metas[i]["run"].items() if k != "inputs"},
                    "element": metas[i]["elem"], "first_events": traces[i]["ev"][:6]})
    return traces, metas, found


# ------------------------------------------------------------------ canaries
def canary_trace(chk: Check, traces):
    """An untouched trace must be accepted; copies with (a) a spike inserted inside a
    refractory window, (b) a wrong voltage label on a reset step, (c) a wrong spike
    attribute must each be rejected at that line with that clause."""
    src = None
    for t in traces:
        c = t["hdr"]["c"]
        if c["R"] >= 2 * c["D"] and not c["lax"] and not t["hdr"]["wc"] and not t["hdr"]["waive"]:
            for i, ev in enumerate(t["ev"][:-1]):
                if ev["ret"]["spk"] and t["ev"][i + 1]["op"]["cat"] != "near":
                    src = (t, i)
                    break
        if src:
            break
    if not src:
        if chk.violations:
            chk.note("canary (trace) skipped: no accepted trace left to corrupt - violations are being reported")
            return
        raise MachineryFailure("canary: no trace with a spike followed by a refractory step was recorded")
    t, i = src
    good = copy.deepcopy(t)
    good["hdr"]["waive"], good["hdr"]["wc"] = [], []
    bad1 = copy.deepcopy(good)       # spike one step after a spike, R >= 2D: inside the window
    bad1["ev"][i + 1]["ret"]["spk"] = True
    bad1["ev"][i + 1]["st"]["attr"] = True
    bad1["ev"][i + 1]["st"]["r"] = bad1["hdr"]["c"]["R"]
    bad2 = copy.deepcopy(good)       # the spiking element keeps its voltage instead of being reset
    bad2["ev"][i]["st"]["vm"] = {"reset": False, "keep": False, "int": True, "int0": False}
    bad3 = copy.deepcopy(good)       # spike attribute disagrees with the returned spike
    bad3["ev"][i]["st"]["attr"] = False
    batch = [good, bad1, bad2, bad3]
    tot, found = validate_neuron_traces(chk, batch, [None] * 4, "canary", report=False, shards=1, rounds=1)
    got = {(gi, line): clause for gi, line, clause, _, _ in found}
    want = {(1, i + 2): "Window", (2, i + 1): "Reset", (3, i + 1): "SpikeAttr"}
    if any(gi == 0 for gi, _ in got):
        raise MachineryFailure(f"canary: the untouched trace was rejected: {got}")
    for k, v in want.items():
        if got.get(k) != v:
            raise MachineryFailure(f"canary: corrupted trace not rejected as expected: wanted {want}, got {got}")
    chk.extra["canary_trace"] = {"rejected": [f"trace {k[0]} line {k[1]}: {v}" for k, v in want.items()]}
    chk.note(f"canary: 3 corrupted element traces rejected (Window, Reset, SpikeAttr), the original accepted")


def canary_replay(chk: Check, g: graph.Graph, classes, rng):
    """a replay whose reported voltage is off by one unit must produce mismatches"""
    def deviate(op, ret, st):
        st = copy.deepcopy(st)
        st["m"]["v"] += 1
        return ret, st
    total, mism = replay_dyadic(chk, g, classes[:1], budget=200, rng=rng, deviate=deviate, report=False,
                                max_inits=2)
    if not mism:
        raise MachineryFailure("canary: a deviating replay was accepted")
    chk.extra["canary_replay_mismatches"] = len(mism)
    chk.note(f"canary: deviating replay rejected ({len(mism)} mismatches on {total['edges']} edges)")
