"""Extension of the C15 check (and of C08 / C18, whose "each cell follows the rule with its own hyperparameters" rests on
it): WHICH monitor object a cell of a trainer gets.  spec/PoolTagsCore.tla (the pool's aliasing rule + what a user relies
on), PoolTagsMC.tla (exhaustive, per tag scheme; the scheme MSTDPET shipped with - D48 - must violate Sound),
PoolTagsTrace.tla (registration traces of real trainers of EVERY shipped class, one hyperparameter differing at a time,
on cells that share a neuron group, share a connection, or live on different layers)."""
from __future__ import annotations
import copy
import random
from ..core import Check, MachineryFailure
from .. import tlc, tracecheck

INV = ["SoundInv", "SameBasisInv", "PrivateInv", "ThriftyInv", "WellFormedInv", "Deterministic", "KeepsExisting"]
PATTERNS = {
    # (cell, which hyperparameters) in registration order; "-x" deletes cell x
    "p1": [("a", "base"), ("b", "alt"), ("e", "base"), ("c", "alt"), ("d", "base"), ("x", "base")],
    "p2": [("x", "alt"), ("a", "alt"), ("b", "base"), ("c", "base"), ("d", "alt"), ("e", "alt")],
    "p3": [("a", "base"), ("b", "alt"), ("-a", None), ("e", "base"), ("a", "alt"), ("c", "base"), ("x", "alt")],
    "p4": [("c", "alt"), ("a", "base"), ("-c", None), ("b", "base"), ("c", "base"), ("d", "alt"), ("-b", None), ("b", "alt")],
}


def scenarios(thorough: bool):
    from ..impl_pooltags import trainer_classes, base_hp, alternatives
    out = []
    for cname, cls in trainer_classes().items():
        hp = base_hp(cls)
        n = 0
        for k, v in hp.items():
            for ai, _alt in enumerate(alternatives(k, v)):
                pats = list(PATTERNS) if thorough else [list(PATTERNS)[n % len(PATTERNS)], list(PATTERNS)[(n + 2) % len(PATTERNS)]]
                for pi, pat in enumerate(pats):
                    vias = ("ctor", "override") if thorough else (("ctor", "override")[(n + pi) % 2],)
                    for via in vias:
                        out.append({"trainer": cname, "key": k, "alt": ai, "pattern": pat, "via": via})
                n += 1
        out.append({"trainer": cname, "key": None, "alt": 0, "pattern": "p1", "via": "ctor"})    # all cells alike
    return out


def record(sc: dict, rng: random.Random | None = None) -> dict:
    """Execute one scenario on real trainers -> trace {hdr, ev}."""
    from ..impl_pooltags import trainer_classes, base_hp, alternatives, PoolRun, Site
    cls = trainer_classes()[sc["trainer"]]
    base = base_hp(cls)
    k = sc["key"]
    if sc.get("multi"):
        # several hyperparameters differ at once, per cell a random subset (thorough tier)
        keys = [q for q in base if alternatives(q, base[q])]
        run = PoolRun(cls, base)
        ev, skipped = [], []
        for cell, _ in PATTERNS[sc["pattern"]]:
            if cell.startswith("-"):
                ev += run.delete(cell[1:])
                continue
            over = {}
            for q in keys:
                if rng.random() < 0.3:
                    over[q] = rng.choice(alternatives(q, base[q]))
            got = run.register(cell, over)
            if got is None:
                skipped.append(cell)
            else:
                ev += got
    else:
        alt = None if k is None else alternatives(k, base[k])[sc["alt"]]
        ctor = dict(base) if (sc["via"] == "ctor" or k is None) else dict(base, **{k: alt})
        run = PoolRun(cls, ctor)
        ev, skipped = [], []
        if k is not None:
            from ..impl_pooltags import override_equivalence
            for cell in ("a", "e"):
                eq = override_equivalence(cls, base, k, alt, cell)
                if eq is not None:
                    ev.append({"a": "state", "cell": cell, "ctor": eq[0], "over": eq[1]})
        for cell, which in PATTERNS[sc["pattern"]]:
            if cell.startswith("-"):
                if cell[1:] not in skipped:
                    ev += run.delete(cell[1:])
                continue
            if k is None:
                over = {}
            elif sc["via"] == "ctor":
                over = {} if which == "base" else {k: alt}
            else:
                over = {k: base[k]} if which == "base" else {}
            got = run.register(cell, over)
            if got is None:
                skipped.append(cell)
            else:
                ev += got
    return {"hdr": {"sc": {q: v for q, v in sc.items()}, "basis": {c: Site.CELLS[c][0] + 1 for c in Site.CELLS},
                    "skipped": skipped}, "ev": ev, "_keep": run}


def _strip(traces):
    # (JSON null is not a TLA+ value)
    return [{"hdr": dict(t["hdr"], sc={q: ("-" if v is None else v) for q, v in t["hdr"]["sc"].items()}), "ev": t["ev"]}
            for t in traces]


def run_pool_tags(chk: Check, rng: random.Random, thorough: bool):
    # ---- the aliasing rule under a complete tag scheme; the scheme of D48 must fail
    res = tlc.run("PoolTagsMC", tlc.cfg_text(constants={"Scheme": "full", "MaxOps": 5 if thorough else 4}, invariants=INV),
                  workers=8 if thorough else 4, timeout=3000)
    if res.violated:
        chk.violation({"clause": "MC:" + ",".join(res.violated), "site": "spec:PoolTags"}, {"tlc_tail": res.out[-4000:]})
    elif not res.ok:
        raise MachineryFailure(f"PoolTagsMC did not complete: {res.out[-2000:]}")
    chk.add_tlc("mc:pool-tags", res)
    haz = tlc.run("PoolTagsMC", tlc.cfg_text(constants={"Scheme": "nomode", "MaxOps": 4}, invariants=INV), workers=2, timeout=1200)
    if "SoundInv" not in (haz.violated or []):
        raise MachineryFailure("hazard run: the tag scheme without the trace mode (D48) does not violate Sound")
    chk.note(f"pool-tags mc: {res.distinct} states / {res.generated} transitions, all invariants hold with complete tags; "
             f"the scheme MSTDPET shipped with (D48) violates SoundInv after {haz.distinct} states, as it must")

    # ---- registration traces of every shipped trainer class
    scs = scenarios(thorough)
    if thorough:
        from ..impl_pooltags import trainer_classes
        for cname in trainer_classes():
            for j in range(12):
                scs.append({"trainer": cname, "key": "*", "alt": 0, "pattern": rng.choice(list(PATTERNS)), "via": "ctor",
                            "multi": True, "seed": rng.randrange(1 << 30)})
    traces = []
    for sc in scs:
        traces.append(record(sc, random.Random(sc.get("seed", 0))))
    plain = _strip(traces)
    stats, rej = tracecheck.validate("PoolTagsTrace", plain, shards=8 if thorough else 4)
    nev = sum(len(t["ev"]) for t in plain)
    shared = sum(1 for t in plain for i, e in enumerate(t["ev"])
                 if e["a"] == "add" and any(f["a"] == "add" and f["obj"] == e["obj"] for f in t["ev"][:i]))
    chk.traces += len(plain)
    chk.evaluations += nev
    chk.states += stats["distinct"]
    chk.transitions += stats["generated"]
    for t in plain:
        sc = t["hdr"]["sc"]
        for e in t["ev"]:
            if e["a"] == "add":
                chk.nontrivial.add(("pool-tags", sc["trainer"], sc["key"], e["name"], e["cell"]))
            elif e["a"] == "state":
                chk.nontrivial.add(("override-eq", sc["trainer"], sc["key"], sc["alt"], e["cell"]))
    seen = set()
    for r in rej:
        t = plain[r["trace"]]
        sc = t["hdr"]["sc"]
        clauses = sorted((r.get("diag") or {}).get("clauses") or ["rejected"])
        e = r["event"]
        key = (sc["trainer"], sc["key"], e.get("name"), tuple(clauses))
        if key in seen:
            continue
        seen.add(key)
        if len(seen) > 12:
            continue                          # the count is in the note below
        chk.violation({"site": "pool-tags", "clause": "+".join(clauses), "trainer": sc["trainer"], "differs": sc["key"],
                       "monitor": e.get("name")},
                      {"extension": "PoolTags", "scenario": sc, "line": r["line"], "event": e,
                       "asked_tags": e.get("tags"), "asked_cfg": e.get("cfg"), "bound_cfg": e.get("got")})
    if len(seen) > 12:
        chk.note(f"pool-tags: {len(seen)} distinct (trainer, hyperparameter, monitor, clause) rejections, 12 reported")
    chk.note(f"pool-tags traces: {len(plain)} registration traces of {len({t['hdr']['sc']['trainer'] for t in plain})} trainer "
             f"classes, {nev} events ({shared} aliased bindings), rejected lines={len(rej)}")
    if plain:
        ex = next((t for t in plain if any(e["a"] == "add" for e in t["ev"])), plain[0])
        chk.sample({"kind": "pool-tags-trace", "scenario": ex["hdr"]["sc"],
                    "events": [{q: v for q, v in e.items() if q in ("a", "cell", "name", "obj", "unique")} for e in ex["ev"][:6]]})

    # ---- canaries: a bound object with another configuration / another identity must be rejected
    rejected = {r["trace"] for r in rej}
    good = next((t for i, t in enumerate(plain) if i not in rejected and t["hdr"]["sc"]["trainer"] == "STDP"
                 and t["hdr"]["sc"]["key"] == "-"), None)
    if good is None:
        if rej:
            chk.note("canary pool-tags: skipped, the reference trace itself is rejected (reported above)")
            return
        raise MachineryFailure("canary: no STDP base trace recorded")
    ali = [i for i, e in enumerate(good["ev"]) if e["a"] == "add" and any(f["obj"] == e["obj"] for f in good["ev"][:i] if f["a"] == "add")]
    if not ali:
        raise MachineryFailure("canary: the STDP base trace aliases nothing (cells sharing a neuron group must share monitors)")
    bad1 = copy.deepcopy(good)
    bad1["hdr"]["waive"] = []
    bad1["ev"][ali[0]]["got"] = bad1["ev"][ali[0]]["got"].replace('"time_constant": 20.0', '"time_constant": 10.0').replace(
        '"duration": 0.0', '"duration": 1.0')
    bad2 = copy.deepcopy(good)
    bad2["hdr"]["waive"] = []
    bad2["ev"][ali[0]]["obj"] = max(e["obj"] for e in good["ev"] if e["a"] == "add") + 1
    g2 = copy.deepcopy(good)
    g2["hdr"]["waive"] = []
    _, crej = tracecheck.validate("PoolTagsTrace", [g2, bad1, bad2], shards=1, max_waive_rounds=1)
    got = {(r["trace"], c) for r in crej for c in ((r.get("diag") or {}).get("clauses") or [])}
    if (0 in {r["trace"] for r in crej}) or (1, "Sound") not in got or (2, "AliasRule") not in got:
        raise MachineryFailure(f"canary: corrupted pool-tags traces were not rejected as expected: {sorted(got)}")
    chk.note("canary pool-tags: a bound object with another configuration is rejected (Sound), another identity (AliasRule)")


def phase(chk: Check, tier: str, rng: random.Random):
    """entry point for harness.subcheck (a process of its own beside the lifecycle phases)"""
    run_pool_tags(chk, rng, tier == "thorough")


def replay(rep: dict) -> int:
    """Re-record the scenario of a recorded violation and report whether the bound configuration is the asked one."""
    sc = rep["scenario"]
    t = record(sc, random.Random(sc.get("seed", 0)))
    bad = [e for e in t["ev"] if e["a"] == "add" and e["got"] != e["cfg"]]
    for e in t["ev"]:
        if e["a"] == "state" and e["ctor"] != e["over"]:
            print(f"replay: cell {e['cell']!r}: via constructor {e['ctor']}\n        via register_cell override {e['over']}")
            bad.append(e)
    _, rej = tracecheck.validate("PoolTagsTrace", _strip([t]), shards=1)
    for e in bad[:3]:
        print(f"replay: cell {e['cell']!r} monitor {e['name']!r}: asked {e['cfg']} bound {e['got']}")
    print(f"replay: {len(bad)} unsound bindings, {len(rej)} rejected trace lines")
    return 1 if (bad or rej) else 0
